// pkgsrc-facts: a rustc_private driver that serialises the resolved program
// (MIR bodies incl. promoteds, ADTs, item metadata, format-string sites) of
// the `pkgsrc` crate as JSON facts.  Injected with RUSTC_WORKSPACE_WRAPPER.
//
// No verdicts are made here; all rules live in /verif/sa.
#![feature(rustc_private)]
#![allow(clippy::all)]

extern crate rustc_abi;
extern crate rustc_ast;
extern crate rustc_driver;
extern crate rustc_hir;
extern crate rustc_interface;
extern crate rustc_middle;
extern crate rustc_span;

mod json;
use json::J;

use rustc_driver::{Callbacks, Compilation};
use rustc_hir::def::DefKind;
use rustc_hir::def_id::{DefId, LOCAL_CRATE};
use rustc_middle::mir::{
    self, AggregateKind, BasicBlockData, Body, Const, Operand, Place, PlaceRef,
    ProjectionElem, Rvalue, StatementKind, TerminatorKind,
};
use rustc_middle::ty::print::with_no_trimmed_paths;
use rustc_middle::ty::print::PrintTraitRefExt;
use rustc_middle::ty::{self, Instance, Ty, TyCtxt, TypingEnv};
use rustc_span::Span;

struct Cb {
    fmt_sites: Vec<J>,
}

fn span_json(tcx: TyCtxt<'_>, sp: Span) -> J {
    let sm = tcx.sess.source_map();
    let cs = sp.source_callsite();
    let lo = sm.lookup_char_pos(cs.lo());
    let hi = sm.lookup_char_pos(cs.hi());
    let file = format!("{}", lo.file.name.prefer_local_unconditionally());
    J::obj(vec![
        ("file", J::s(&file)),
        ("line", J::I(lo.line as i128)),
        ("col", J::I(lo.col.0 as i128 + 1)),
        ("eline", J::I(hi.line as i128)),
        ("ecol", J::I(hi.col.0 as i128 + 1)),
        ("exp", J::B(sp.from_expansion())),
    ])
}

fn ty_s(ty: Ty<'_>) -> String {
    with_no_trimmed_paths!(format!("{}", ty))
}

struct Ctx<'a, 'tcx> {
    tcx: TyCtxt<'tcx>,
    body: &'a Body<'tcx>,
    owner: DefId,
    tenv: TypingEnv<'tcx>,
}

impl<'a, 'tcx> Ctx<'a, 'tcx> {
    fn place(&self, p: Place<'tcx>) -> J {
        self.place_ref(p.as_ref())
    }

    fn place_ref(&self, p: PlaceRef<'tcx>) -> J {
        let tcx = self.tcx;
        let mut projs = vec![];
        for (i, elem) in p.projection.iter().enumerate() {
            let base = PlaceRef { local: p.local, projection: &p.projection[..i] };
            let bty = base.ty(&self.body.local_decls, tcx);
            let j = match *elem {
                ProjectionElem::Deref => J::obj(vec![("k", J::s("deref"))]),
                ProjectionElem::Field(f, fty) => {
                    let mut name = String::new();
                    match bty.ty.kind() {
                        ty::Adt(adt, _) => {
                            let vi = bty.variant_index.unwrap_or(rustc_abi::FIRST_VARIANT);
                            if adt.is_enum() || adt.is_struct() || adt.is_union() {
                                if let Some(fd) = adt.variant(vi).fields.get(f) {
                                    name = fd.name.to_string();
                                }
                            }
                        }
                        ty::Closure(did, _) => {
                            if let Some(ldid) = did.as_local() {
                                let caps = tcx.closure_captures(ldid);
                                if let Some(c) = caps.get(f.index()) {
                                    name = c.to_string(tcx);
                                }
                            }
                        }
                        _ => {}
                    }
                    J::obj(vec![
                        ("k", J::s("field")),
                        ("i", J::I(f.index() as i128)),
                        ("name", J::s(&name)),
                        ("ty", J::s(&ty_s(fty))),
                    ])
                }
                ProjectionElem::Index(l) => {
                    J::obj(vec![("k", J::s("index")), ("l", J::I(l.index() as i128))])
                }
                ProjectionElem::ConstantIndex { offset, min_length, from_end } => J::obj(vec![
                    ("k", J::s("constindex")),
                    ("offset", J::I(offset as i128)),
                    ("min_length", J::I(min_length as i128)),
                    ("from_end", J::B(from_end)),
                ]),
                ProjectionElem::Subslice { from, to, from_end } => J::obj(vec![
                    ("k", J::s("subslice")),
                    ("from", J::I(from as i128)),
                    ("to", J::I(to as i128)),
                    ("from_end", J::B(from_end)),
                ]),
                ProjectionElem::Downcast(name, vi) => J::obj(vec![
                    ("k", J::s("downcast")),
                    ("v", J::s(&name.map(|n| n.to_string()).unwrap_or_default())),
                    ("i", J::I(vi.index() as i128)),
                ]),
                _ => J::obj(vec![("k", J::s("other")), ("s", J::s(&format!("{:?}", elem)))]),
            };
            projs.push(j);
        }
        let pty = p.ty(&self.body.local_decls, tcx);
        J::obj(vec![
            ("l", J::I(p.local.index() as i128)),
            ("p", J::A(projs)),
            ("ty", J::s(&ty_s(pty.ty))),
        ])
    }

    fn fn_ref(&self, def_id: DefId, gargs: ty::GenericArgsRef<'tcx>) -> J {
        let tcx = self.tcx;
        let unresolved = with_no_trimmed_paths!(tcx.def_path_str(def_id));
        let unresolved_full = with_no_trimmed_paths!(tcx.def_path_str_with_args(def_id, gargs));
        let mut rid = def_id;
        let mut rargs = gargs;
        let mut resolved = false;
        let mut ikind = String::from("unresolved");
        if let Ok(Some(inst)) = Instance::try_resolve(tcx, self.tenv, def_id, gargs) {
            rid = inst.def_id();
            rargs = inst.args;
            resolved = true;
            ikind = format!("{:?}", inst.def).split('(').next().unwrap_or("").to_string();
        }
        let path = with_no_trimmed_paths!(tcx.def_path_str(rid));
        let full = with_no_trimmed_paths!(tcx.def_path_str_with_args(rid, rargs));
        let ga: Vec<J> = rargs
            .iter()
            .map(|a| J::s(&with_no_trimmed_paths!(format!("{}", a))))
            .collect();
        let uga: Vec<J> = gargs
            .iter()
            .map(|a| J::s(&with_no_trimmed_paths!(format!("{}", a))))
            .collect();
        let sig_out = {
            let k = tcx.def_kind(rid);
            if matches!(k, DefKind::Fn | DefKind::AssocFn | DefKind::Ctor(..)) {
                let sig = tcx.fn_sig(rid).instantiate(tcx, rargs).skip_norm_wip();
                ty_s(sig.output().skip_binder())
            } else {
                String::new()
            }
        };
        J::obj(vec![
            ("path", J::s(&path)),
            ("full", J::s(&full)),
            ("gargs", J::A(ga)),
            ("trait_path", J::s(&unresolved)),
            ("trait_full", J::s(&unresolved_full)),
            ("trait_gargs", J::A(uga)),
            ("resolved", J::B(resolved)),
            ("ikind", J::s(&ikind)),
            ("local", J::B(rid.is_local())),
            ("ret", J::s(&sig_out)),
        ])
    }

    fn constant(&self, c: &mir::ConstOperand<'tcx>) -> J {
        let tcx = self.tcx;
        let ty = c.const_.ty();
        let disp = with_no_trimmed_paths!(format!("{}", c.const_));
        let mut fields = vec![
            ("k", J::s("const")),
            ("ty", J::s(&ty_s(ty))),
            ("s", J::s(&disp)),
        ];
        match ty.kind() {
            ty::Bool | ty::Char | ty::Int(_) | ty::Uint(_) => {
                if let Some(si) = c.const_.try_eval_scalar_int(tcx, self.tenv) {
                    let sz = si.size();
                    let v: i128 = match ty.kind() {
                        ty::Int(_) => si.to_int(sz),
                        _ => si.to_uint(sz) as i128,
                    };
                    fields.push(("int", J::I(v)));
                }
            }
            ty::FnDef(did, ga) => {
                fields.push(("fn", self.fn_ref(*did, ga)));
            }
            _ => {}
        }
        if let Const::Unevaluated(uv, _) = c.const_ {
            if let Some(p) = uv.promoted {
                fields.push(("promoted", J::I(p.index() as i128)));
                fields.push((
                    "promoted_of",
                    J::s(&with_no_trimmed_paths!(tcx.def_path_str(uv.def))),
                ));
            } else {
                fields.push((
                    "unevaluated",
                    J::s(&with_no_trimmed_paths!(tcx.def_path_str(uv.def))),
                ));
                // a named `const` item: export its value the way a literal would be printed,
                // so that `const SEP: &[u8] = b"..";` and the literal itself give the same fact
                if let Ok(val) = c.const_.eval(tcx, self.tenv, c.span) {
                    let lit = with_no_trimmed_paths!(format!("{}", Const::Val(val, ty)));
                    fields.push(("value", J::s(&lit)));
                }
            }
        }
        J::obj(fields)
    }

    fn operand(&self, o: &Operand<'tcx>) -> J {
        match o {
            Operand::Copy(p) => J::obj(vec![("k", J::s("copy")), ("place", self.place(*p))]),
            Operand::Move(p) => J::obj(vec![("k", J::s("move")), ("place", self.place(*p))]),
            Operand::Constant(c) => self.constant(c),
            #[allow(unreachable_patterns)]
            _ => J::obj(vec![("k", J::s("other")), ("s", J::s(&format!("{:?}", o)))]),
        }
    }

    fn rvalue(&self, rv: &Rvalue<'tcx>) -> J {
        let tcx = self.tcx;
        match rv {
            Rvalue::Use(o, ..) => J::obj(vec![("k", J::s("use")), ("op", self.operand(o))]),
            Rvalue::Repeat(o, n) => J::obj(vec![
                ("k", J::s("repeat")),
                ("op", self.operand(o)),
                ("n", J::s(&format!("{}", n))),
            ]),
            Rvalue::Ref(_, bk, p) => J::obj(vec![
                ("k", J::s("ref")),
                ("bk", J::s(match bk {
                    mir::BorrowKind::Shared => "shared",
                    mir::BorrowKind::Fake(_) => "fake",
                    mir::BorrowKind::Mut { .. } => "mut",
                })),
                ("place", self.place(*p)),
            ]),
            Rvalue::RawPtr(k, p) => J::obj(vec![
                ("k", J::s("rawptr")),
                ("bk", J::s(&format!("{:?}", k))),
                ("place", self.place(*p)),
            ]),
            Rvalue::Cast(ck, o, t) => J::obj(vec![
                ("k", J::s("cast")),
                ("ck", J::s(&format!("{:?}", ck).split('(').next().unwrap_or("").to_string())),
                ("ckfull", J::s(&format!("{:?}", ck))),
                ("op", self.operand(o)),
                ("from", J::s(&ty_s(o.ty(&self.body.local_decls, tcx)))),
                ("ty", J::s(&ty_s(*t))),
            ]),
            Rvalue::BinaryOp(op, b) => J::obj(vec![
                ("k", J::s("binop")),
                ("op", J::s(&format!("{:?}", op))),
                ("l", self.operand(&b.0)),
                ("r", self.operand(&b.1)),
            ]),
            Rvalue::UnaryOp(op, o) => J::obj(vec![
                ("k", J::s("unop")),
                ("op", J::s(&format!("{:?}", op))),
                ("o", self.operand(o)),
                ("from", J::s(&ty_s(o.ty(&self.body.local_decls, tcx)))),
            ]),
            Rvalue::Discriminant(p) => {
                J::obj(vec![("k", J::s("discr")), ("place", self.place(*p))])
            }
            Rvalue::Aggregate(ak, ops) => {
                let opsj: Vec<J> = ops.iter().map(|o| self.operand(o)).collect();
                let mut f = vec![("k", J::s("aggregate"))];
                match &**ak {
                    AggregateKind::Array(t) => {
                        f.push(("ak", J::s("array")));
                        f.push(("elem", J::s(&ty_s(*t))));
                    }
                    AggregateKind::Tuple => f.push(("ak", J::s("tuple"))),
                    AggregateKind::Adt(did, vi, ga, _, active) => {
                        let adt = tcx.adt_def(*did);
                        let v = adt.variant(*vi);
                        f.push(("ak", J::s("adt")));
                        f.push(("adt", J::s(&with_no_trimmed_paths!(tcx.def_path_str(*did)))));
                        f.push((
                            "adt_full",
                            J::s(&with_no_trimmed_paths!(tcx.def_path_str_with_args(*did, ga))),
                        ));
                        f.push(("variant", J::s(&v.name.to_string())));
                        f.push(("vi", J::I(vi.index() as i128)));
                        f.push((
                            "fields",
                            J::A(v.fields.iter().map(|fd| J::s(&fd.name.to_string())).collect()),
                        ));
                        if let Some(a) = active {
                            f.push(("active", J::I(a.index() as i128)));
                        }
                    }
                    AggregateKind::Closure(did, _) => {
                        f.push(("ak", J::s("closure")));
                        f.push(("closure", J::s(&with_no_trimmed_paths!(tcx.def_path_str(*did)))));
                    }
                    other => {
                        f.push(("ak", J::s("other")));
                        f.push(("s", J::s(&format!("{:?}", other))));
                    }
                }
                f.push(("ops", J::A(opsj)));
                J::obj(f)
            }
            Rvalue::CopyForDeref(p) => {
                J::obj(vec![("k", J::s("copyforderef")), ("place", self.place(*p))])
            }
            other => J::obj(vec![("k", J::s("other")), ("s", J::s(&format!("{:?}", other)))]),
        }
    }

    fn block(&self, bb: &BasicBlockData<'tcx>) -> J {
        let tcx = self.tcx;
        let mut stmts = vec![];
        for st in &bb.statements {
            match &st.kind {
                StatementKind::Assign(b) => {
                    let (p, rv) = &**b;
                    stmts.push(J::obj(vec![
                        ("k", J::s("assign")),
                        ("place", self.place(*p)),
                        ("rv", self.rvalue(rv)),
                        ("span", span_json(tcx, st.source_info.span)),
                    ]));
                }
                StatementKind::SetDiscriminant { place, variant_index } => {
                    stmts.push(J::obj(vec![
                        ("k", J::s("setdiscr")),
                        ("place", self.place(**place)),
                        ("vi", J::I(variant_index.index() as i128)),
                        ("span", span_json(tcx, st.source_info.span)),
                    ]));
                }
                _ => {}
            }
        }
        let term = bb.terminator();
        let tspan = span_json(tcx, term.source_info.span);
        let tj = match &term.kind {
            TerminatorKind::Goto { target } => {
                J::obj(vec![("k", J::s("goto")), ("t", J::I(target.index() as i128))])
            }
            TerminatorKind::SwitchInt { discr, targets } => {
                let ts: Vec<J> = targets
                    .iter()
                    .map(|(v, t)| J::A(vec![J::I(v as i128), J::I(t.index() as i128)]))
                    .collect();
                J::obj(vec![
                    ("k", J::s("switch")),
                    ("op", self.operand(discr)),
                    ("ty", J::s(&ty_s(discr.ty(&self.body.local_decls, tcx)))),
                    ("targets", J::A(ts)),
                    ("otherwise", J::I(targets.otherwise().index() as i128)),
                ])
            }
            TerminatorKind::Call { func, args, destination, target, fn_span, .. } => {
                let fty = func.ty(&self.body.local_decls, tcx);
                let fj = match *fty.kind() {
                    ty::FnDef(did, ga) => self.fn_ref(did, ga),
                    _ => J::obj(vec![
                        ("path", J::s("<indirect>")),
                        ("full", J::s(&ty_s(fty))),
                        ("local", J::B(false)),
                        ("resolved", J::B(false)),
                        ("fnop", self.operand(func)),
                    ]),
                };
                let aj: Vec<J> = args.iter().map(|a| self.operand(&a.node)).collect();
                J::obj(vec![
                    ("k", J::s("call")),
                    ("func", fj),
                    ("args", J::A(aj)),
                    ("dest", self.place(*destination)),
                    ("target", match target {
                        Some(t) => J::I(t.index() as i128),
                        None => J::Null,
                    }),
                    ("fn_span", span_json(tcx, *fn_span)),
                ])
            }
            TerminatorKind::Assert { cond, expected, msg, target, .. } => {
                let (mk, mops): (String, Vec<J>) = match &**msg {
                    mir::AssertKind::BoundsCheck { len, index } => (
                        "BoundsCheck".into(),
                        vec![self.operand(len), self.operand(index)],
                    ),
                    mir::AssertKind::Overflow(op, l, r) => (
                        format!("Overflow({:?})", op),
                        vec![self.operand(l), self.operand(r)],
                    ),
                    mir::AssertKind::OverflowNeg(o) => ("OverflowNeg".into(), vec![self.operand(o)]),
                    mir::AssertKind::DivisionByZero(o) => {
                        ("DivisionByZero".into(), vec![self.operand(o)])
                    }
                    mir::AssertKind::RemainderByZero(o) => {
                        ("RemainderByZero".into(), vec![self.operand(o)])
                    }
                    other => (
                        format!("{:?}", other).split(|c| c == '(' || c == ' ' || c == '{').next().unwrap_or("").to_string(),
                        vec![],
                    ),
                };
                J::obj(vec![
                    ("k", J::s("assert")),
                    ("cond", self.operand(cond)),
                    ("expected", J::B(*expected)),
                    ("msg", J::s(&mk)),
                    ("mops", J::A(mops)),
                    ("target", J::I(target.index() as i128)),
                ])
            }
            TerminatorKind::Return => J::obj(vec![("k", J::s("return"))]),
            TerminatorKind::Unreachable => J::obj(vec![("k", J::s("unreachable"))]),
            TerminatorKind::UnwindResume => J::obj(vec![("k", J::s("resume"))]),
            TerminatorKind::Drop { place, target, .. } => J::obj(vec![
                ("k", J::s("drop")),
                ("place", self.place(*place)),
                ("target", J::I(target.index() as i128)),
            ]),
            other => J::obj(vec![("k", J::s("other")), ("s", J::s(&format!("{:?}", other)))]),
        };
        J::obj(vec![
            ("stmts", J::A(stmts)),
            ("term", tj),
            ("tspan", tspan),
            ("cleanup", J::B(bb.is_cleanup)),
        ])
    }

    fn body_json(&self, key: &str, kind: &str) -> J {
        let tcx = self.tcx;
        let body = self.body;
        let locals: Vec<J> = body
            .local_decls
            .iter()
            .map(|d| {
                J::obj(vec![
                    ("ty", J::s(&ty_s(d.ty))),
                    ("mut", J::B(d.mutability.is_mut())),
                ])
            })
            .collect();
        let dbg: Vec<J> = body
            .var_debug_info
            .iter()
            .map(|v| {
                let val = match &v.value {
                    mir::VarDebugInfoContents::Place(p) => self.place(*p),
                    mir::VarDebugInfoContents::Const(c) => self.constant(c),
                };
                J::obj(vec![
                    ("name", J::s(&v.name.to_string())),
                    ("value", val),
                    ("arg", match v.argument_index {
                        Some(i) => J::I(i as i128),
                        None => J::Null,
                    }),
                ])
            })
            .collect();
        let blocks: Vec<J> = body.basic_blocks.iter().map(|b| self.block(b)).collect();
        let owner = self.owner;
        let dk = tcx.def_kind(owner);
        let mut vis = String::from("n/a");
        let mut reachable = false;
        if matches!(dk, DefKind::Fn | DefKind::AssocFn) {
            vis = if tcx.visibility(owner).is_public() { "pub".into() } else { "restricted".into() };
            if let Some(l) = owner.as_local() {
                reachable = tcx.effective_visibilities(()).is_reachable(l);
            }
        }
        let mut impl_j = J::Null;
        if let Some(parent) = tcx.opt_parent(owner) {
            if let DefKind::Impl { of_trait } = tcx.def_kind(parent) {
                let self_ty = ty_s(tcx.type_of(parent).instantiate_identity().skip_norm_wip());
                let mut tr = String::new();
                if of_trait {
                    let trf = tcx.impl_trait_ref(parent).instantiate_identity().skip_norm_wip();
                    tr = with_no_trimmed_paths!(format!("{}", trf.print_only_trait_path()));
                }
                impl_j = J::obj(vec![
                    ("self_ty", J::s(&self_ty)),
                    ("trait", J::s(&tr)),
                    ("auto_derived", J::B(tcx.is_automatically_derived(parent))),
                ]);
            }
        }
        J::obj(vec![
            ("key", J::s(key)),
            ("kind", J::s(kind)),
            ("vis", J::s(&vis)),
            ("reachable", J::B(reachable)),
            ("impl", impl_j),
            ("span", span_json(tcx, body.span)),
            ("arg_count", J::I(body.arg_count as i128)),
            ("ret_ty", J::s(&ty_s(body.return_ty()))),
            ("locals", J::A(locals)),
            ("debug", J::A(dbg)),
            ("blocks", J::A(blocks)),
        ])
    }
}

fn adts_json(tcx: TyCtxt<'_>) -> J {
    let mut out = vec![];
    for ldid in tcx.hir_crate_items(()).definitions() {
        let did = ldid.to_def_id();
        let dk = tcx.def_kind(did);
        if !matches!(dk, DefKind::Struct | DefKind::Enum) {
            continue;
        }
        let adt = tcx.adt_def(did);
        let mut variants = vec![];
        for (vi, v) in adt.variants().iter_enumerated() {
            let fields: Vec<J> = v
                .fields
                .iter()
                .map(|f| {
                    J::obj(vec![
                        ("name", J::s(&f.name.to_string())),
                        ("ty", J::s(&ty_s(tcx.type_of(f.did).instantiate_identity().skip_norm_wip()))),
                        ("pub", J::B(f.vis.is_public())),
                    ])
                })
                .collect();
            let discr = if adt.is_enum() {
                J::I(adt.discriminant_for_variant(tcx, vi).val as i128)
            } else {
                J::Null
            };
            variants.push(J::obj(vec![
                ("name", J::s(&v.name.to_string())),
                ("idx", J::I(vi.index() as i128)),
                ("discr", discr),
                ("fields", J::A(fields)),
            ]));
        }
        out.push(J::obj(vec![
            ("path", J::s(&with_no_trimmed_paths!(tcx.def_path_str(did)))),
            ("kind", J::s(if adt.is_enum() { "enum" } else { "struct" })),
            ("pub", J::B(tcx.visibility(did).is_public())),
            ("span", span_json(tcx, tcx.def_span(did))),
            ("variants", J::A(variants)),
        ]));
    }
    J::A(out)
}

fn impls_json(tcx: TyCtxt<'_>) -> J {
    let mut out = vec![];
    for ldid in tcx.hir_crate_items(()).definitions() {
        let did = ldid.to_def_id();
        if let DefKind::Impl { of_trait } = tcx.def_kind(did) {
            let self_ty = ty_s(tcx.type_of(did).instantiate_identity().skip_norm_wip());
            let mut tr = String::new();
            if of_trait {
                let trf = tcx.impl_trait_ref(did).instantiate_identity().skip_norm_wip();
                tr = with_no_trimmed_paths!(format!("{}", trf.print_only_trait_path()));
            }
            out.push(J::obj(vec![
                ("self_ty", J::s(&self_ty)),
                ("trait", J::s(&tr)),
                ("auto_derived", J::B(tcx.is_automatically_derived(did))),
                ("span", span_json(tcx, tcx.def_span(did))),
            ]));
        }
    }
    J::A(out)
}

// ---- format-string sites from the expanded AST ---------------------------

struct FmtVisitor<'a, 'tcx> {
    tcx: TyCtxt<'tcx>,
    out: &'a mut Vec<J>,
}

impl<'a, 'tcx, 'ast> rustc_ast::visit::Visitor<'ast> for FmtVisitor<'a, 'tcx> {
    fn visit_expr(&mut self, e: &'ast rustc_ast::Expr) {
        if let rustc_ast::ExprKind::FormatArgs(fa) = &e.kind {
            let sm = self.tcx.sess.source_map();
            let mut pieces = vec![];
            for p in fa.template.iter() {
                match p {
                    rustc_ast::FormatArgsPiece::Literal(sym) => {
                        pieces.push(J::obj(vec![("lit", J::s(sym.as_str()))]));
                    }
                    rustc_ast::FormatArgsPiece::Placeholder(ph) => {
                        let idx = match ph.argument.index {
                            Ok(i) => i as i128,
                            Err(_) => -1,
                        };
                        let o = &ph.format_options;
                        let cnt = |c: &Option<rustc_ast::FormatCount>| match c {
                            Some(rustc_ast::FormatCount::Literal(n)) => J::I(*n as i128),
                            Some(rustc_ast::FormatCount::Argument(_)) => J::s("arg"),
                            None => J::Null,
                        };
                        pieces.push(J::obj(vec![
                            ("arg", J::I(idx)),
                            ("trait", J::s(&format!("{:?}", ph.format_trait))),
                            ("width", cnt(&o.width)),
                            ("precision", cnt(&o.precision)),
                            ("fill", match o.fill {
                                Some(c) => J::s(&c.to_string()),
                                None => J::Null,
                            }),
                            ("zero_pad", J::B(o.zero_pad)),
                            ("alternate", J::B(o.alternate)),
                            ("sign", J::s(&format!("{:?}", o.sign))),
                            ("align", J::s(&format!("{:?}", o.alignment))),
                        ]));
                    }
                }
            }
            let mut args = vec![];
            for a in fa.arguments.all_args() {
                let snip = sm.span_to_snippet(a.expr.span).unwrap_or_default();
                args.push(J::obj(vec![
                    ("snippet", J::s(&snip)),
                    ("span", span_json(self.tcx, a.expr.span)),
                ]));
            }
            self.out.push(J::obj(vec![
                ("span", span_json(self.tcx, fa.span)),
                ("espan", span_json(self.tcx, e.span)),
                ("pieces", J::A(pieces)),
                ("args", J::A(args)),
            ]));
        }
        rustc_ast::visit::walk_expr(self, e);
    }
}

impl Callbacks for Cb {
    fn after_expansion<'tcx>(
        &mut self,
        _c: &rustc_interface::interface::Compiler,
        tcx: TyCtxt<'tcx>,
    ) -> Compilation {
        if tcx.crate_name(LOCAL_CRATE).as_str() == "pkgsrc" {
            let r = tcx.resolver_for_lowering().borrow();
            let krate = &r.1;
            let mut v = FmtVisitor { tcx, out: &mut self.fmt_sites };
            rustc_ast::visit::walk_crate(&mut v, krate);
        }
        Compilation::Continue
    }

    fn after_analysis<'tcx>(
        &mut self,
        _c: &rustc_interface::interface::Compiler,
        tcx: TyCtxt<'tcx>,
    ) -> Compilation {
        if tcx.crate_name(LOCAL_CRATE).as_str() != "pkgsrc" {
            return Compilation::Continue;
        }
        let out_path = match std::env::var("PKGSRC_FACTS_OUT") {
            Ok(p) => p,
            Err(_) => return Compilation::Continue,
        };
        // Only the library target (cargo may also build examples/tests).
        let is_test = tcx.sess.opts.test;
        let crate_types: Vec<String> =
            tcx.crate_types().iter().map(|c| format!("{:?}", c)).collect();

        let mut fns = vec![];
        let mut keys = std::collections::HashSet::new();
        for ldid in tcx.mir_keys(()) {
            let did = ldid.to_def_id();
            let dk = tcx.def_kind(did);
            let kind = match dk {
                DefKind::Fn => "Fn",
                DefKind::AssocFn => "AssocFn",
                DefKind::Closure => "Closure",
                _ => continue,
            };
            if dk == DefKind::Closure && tcx.is_coroutine(did) {
                continue;
            }
            let body = tcx.optimized_mir(did);
            let tenv = TypingEnv::post_analysis(tcx, did);
            let mut key = with_no_trimmed_paths!(tcx.def_path_str(did));
            if !keys.insert(key.clone()) {
                let mut n = 1;
                loop {
                    let k2 = format!("{}#{}", key, n);
                    if keys.insert(k2.clone()) {
                        key = k2;
                        break;
                    }
                    n += 1;
                }
            }
            let cx = Ctx { tcx, body, owner: did, tenv };
            fns.push(cx.body_json(&key, kind));
            let promoted = tcx.promoted_mir(did);
            for (pi, pb) in promoted.iter_enumerated() {
                let pcx = Ctx { tcx, body: pb, owner: did, tenv };
                let pkey = format!("{}::promoted[{}]", key, pi.index());
                fns.push(pcx.body_json(&pkey, "Promoted"));
            }
        }

        let features: Vec<J> = tcx
            .sess
            .opts
            .cg
            .target_feature
            .split(',')
            .filter(|s| !s.is_empty())
            .map(J::s)
            .collect();
        let cfgs: Vec<J> = std::env::var("PKGSRC_FACTS_CONFIG").ok().into_iter().map(|c| J::s(&c)).collect();
        let doc = J::obj(vec![
            ("crate", J::s("pkgsrc")),
            ("nonce", J::s(&std::env::var("PKGSRC_FACTS_NONCE").unwrap_or_default())),
            ("is_test", J::B(is_test)),
            ("crate_types", J::A(crate_types.iter().map(|s| J::s(s)).collect())),
            ("cfg", J::A(cfgs)),
            ("target_features", J::A(features)),
            ("fns", J::A(fns)),
            ("adts", adts_json(tcx)),
            ("impls", impls_json(tcx)),
            ("fmt_sites", J::A(std::mem::take(&mut self.fmt_sites))),
        ]);
        let mut s = String::new();
        doc.write(&mut s);
        let tmp = format!("{}.tmp.{}", out_path, std::process::id());
        std::fs::write(&tmp, s).expect("write facts");
        std::fs::rename(&tmp, &out_path).expect("rename facts");
        Compilation::Continue
    }
}

fn main() {
    let mut args: Vec<String> = std::env::args().collect();
    // RUSTC_WORKSPACE_WRAPPER: argv[1] is the real rustc path.
    if args.len() > 1 {
        args.remove(1);
    }
    if let Ok(p) = std::env::var("PKGSRC_FACTS_ARGV_OUT") {
        // record the exact rustc command line cargo used for the library crate
        if args.iter().any(|a| a == "pkgsrc") && args.iter().any(|a| a == "--crate-name") {
            let j = J::A(args.iter().map(|a| J::s(a)).collect());
            let mut s = String::new();
            j.write(&mut s);
            let _ = std::fs::write(p, s);
        }
    }
    let mut cb = Cb { fmt_sites: vec![] };
    rustc_driver::run_compiler(&args, &mut cb);
}
