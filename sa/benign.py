#!/usr/bin/env python3
"""Behaviour-preserving refactorings written by independent sub-agents (given only a worktree and a module name), kept under
/verif/benign/<id>/ (patch.diff, demo.rs, notes.md, meta.json).  They are the false-alarm side of the seeded corpus.

  python3 sa/benign.py verify <id>   : scratch copy: the patch applies, the suite passes with it, the differential demo passes with and without it
  python3 sa/benign.py detect [<id>] : apply each patch to a scratch copy, re-extract facts, run all 20 checks; every check must stay silent
"""
import json
import os
import shutil
import subprocess
import sys
import tempfile

HERE = os.path.dirname(os.path.abspath(__file__))
VERIF = os.path.dirname(HERE)
sys.path.insert(0, HERE)
import mutants  # noqa: E402
import seeded   # noqa: E402

BENIGN = os.path.join(VERIF, "benign")


def scratch(bid):
    tmp = tempfile.mkdtemp(prefix="pkgsrc-benign-")
    work = os.path.join(tmp, "repo")
    shutil.copytree("/repo", work, ignore=shutil.ignore_patterns("target", ".git"))
    r = subprocess.run(["patch", "-p1", "-s", "-i", os.path.join(BENIGN, bid, "patch.diff")], cwd=work, stdout=subprocess.PIPE, stderr=subprocess.STDOUT, text=True)
    return tmp, work, r.returncode == 0, r.stdout


def verify(bid):
    tmp, work, ok, msg = scratch(bid)
    env = dict(os.environ, CARGO_TARGET_DIR=os.path.join(tmp, "target"), CARGO_NET_OFFLINE="true")
    out = {"patch_applies": ok}
    try:
        if not ok:
            out["msg"] = msg[:300]
            return out

        def run(cmd, cwd):
            r = subprocess.run(cmd, cwd=cwd, env=env, stdout=subprocess.PIPE, stderr=subprocess.STDOUT, text=True)
            return r.returncode, r.stdout
        rc, log = run(["cargo", "test", "--workspace", "--no-fail-fast", "--offline"], work)
        out["suite_passes_with_change"] = rc == 0
        demo = os.path.join(BENIGN, bid, "demo.rs")
        if os.path.exists(demo):
            shutil.copy(demo, os.path.join(work, "tests", "benign_demo.rs"))
            rc, log = run(["cargo", "test", "--offline", "--test", "benign_demo"], work)
            out["demo_passes_with_change"] = rc == 0
            orig = os.path.join(tmp, "orig")
            shutil.copytree("/repo", orig, ignore=shutil.ignore_patterns("target", ".git"))
            shutil.copy(demo, os.path.join(orig, "tests", "benign_demo.rs"))
            env["CARGO_TARGET_DIR"] = os.path.join(tmp, "target-orig")
            rc, log = run(["cargo", "test", "--offline", "--test", "benign_demo"], orig)
            out["demo_passes_without_change"] = rc == 0
        return out
    finally:
        shutil.rmtree(tmp, ignore_errors=True)


def detect(ids):
    if not mutants.capture_argv("/repo"):
        print("cannot capture rustc argv")
        return 2
    tmp0 = tempfile.mkdtemp(prefix="pkgsrc-benign-base-")
    base_work = os.path.join(tmp0, "repo")
    shutil.copytree("/repo", base_work, ignore=shutil.ignore_patterns("target", ".git"))
    base, err = seeded.keys_for(base_work)
    shutil.rmtree(tmp0, ignore_errors=True)
    def one(bid):
        tmp, work, ok, msg = scratch(bid)
        try:
            if not ok:
                return (bid, True, "patch does not apply: %s" % msg[:200])
            res, err = seeded.keys_for(work)
            if res is None:
                return (bid, True, "does not compile under the driver: %s" % err[:200])
            fired = {p: [k for k in ks if k not in base.get(p, [])] for p, ks in res.items()}
            fired = {p: ks for p, ks in fired.items() if ks}
            mp = os.path.join(BENIGN, bid, "meta.json")
            meta = json.load(open(mp)) if os.path.exists(mp) else {}
            meta["alarms"] = {p: ks[:6] for p, ks in fired.items()}
            with open(mp, "w") as f:
                json.dump(meta, f, indent=1)
            return (bid, bool(fired), "%s %s" % ("FALSE-ALARM" if fired else "silent", {p: ks[:3] for p, ks in fired.items()} if fired else ""))
        finally:
            shutil.rmtree(tmp, ignore_errors=True)
    from concurrent.futures import ThreadPoolExecutor
    with ThreadPoolExecutor(max_workers=8) as ex:
        rs = list(ex.map(one, ids))
    for bid, bad, msg in rs:
        print("%-34s %s" % (bid, msg))
    alarms = sum(1 for r in rs if r[1])
    print("benign corpus: %d patches, %d raise an alarm" % (len(rs), alarms))
    return 1 if alarms else 0


if __name__ == "__main__":
    cmd = sys.argv[1]
    ids = sys.argv[2:] or sorted(d for d in os.listdir(BENIGN) if os.path.isdir(os.path.join(BENIGN, d)))
    if cmd == "verify":
        for bid in ids:
            r = verify(bid)
            print(bid, json.dumps(r))
            mp = os.path.join(BENIGN, bid, "meta.json")
            meta = json.load(open(mp)) if os.path.exists(mp) else {}
            meta["verified"] = r
            json.dump(meta, open(mp, "w"), indent=1)
    elif cmd == "detect":
        sys.exit(detect(ids))
