#!/usr/bin/env python3
"""Entry point: python3 sa/check.py <Cxx> [--tier quick|thorough] [--repo DIR] [--facts FILE]

Extracts facts from /repo's current working tree (always, on every run),
evaluates the rules of one property, writes /verif/evidence/<id>.json and
prints KNOWN-FINDING / VIOLATION lines.  Exit 0: every decided clause holds
(or only listed known findings fail); 1: an unlisted violation; 2: no verdict
(the tree does not compile or the extractor failed).
"""
import argparse
import fcntl
import importlib
import json
import os
import subprocess
import sys
import time
import traceback

HERE = os.path.dirname(os.path.abspath(__file__))
VERIF = os.path.dirname(HERE)
sys.path.insert(0, HERE)

from facts import Facts  # noqa: E402
import mir  # noqa: E402


class Record:
    def __init__(self, rule, item, instance, verdict, detail, span, nontrivial, path=None):
        self.rule = rule
        self.item = item
        self.instance = instance
        self.verdict = verdict  # ok | violation
        self.detail = detail
        self.span = span
        self.nontrivial = nontrivial
        self.path = path

    @property
    def key(self):
        return "%s@%s#%s" % (self.rule, self.item, self.instance)

    def to_json(self):
        d = {"rule": self.rule, "item": self.item, "instance": self.instance, "verdict": self.verdict,
             "detail": self.detail, "span": self.span, "key": self.key}
        if self.path:
            d["path"] = self.path
        return d


class Ctx:
    def __init__(self, prop, tier, fx, fx_nd=None, config="default"):
        self.prop = prop
        self.tier = tier
        self.fx = fx
        self.fx_nd = fx_nd
        self.config = config
        self.records = []
        self.functions = set()
        self.callsites = 0
        self.notes = []
        self.paths_enumerated = 0
        self._bodies = {}
        self._evals = {}
        # helpers that did not exist when the rules were written are inlined at their call sites (see mir.PathEval._inline_summary)
        self.inline_set = frozenset()
        self.inlined = set()
        self.desugar = False

    # -- helpers for rules
    def body(self, key, required=True, rule="ANCHOR"):
        if key in self._bodies:
            return self._bodies[key]
        f = self.fx.fn(key)
        if f is None:
            if required:
                self.violation(rule, key, "anchor-missing",
                               "anchored item %s not found in the crate (renamed or removed): rule cannot be evaluated, failing closed" % key, "")
            self._bodies[key] = None
            return None
        sp_ = getattr(self, "splice", False)
        if (sp_ is True or (isinstance(sp_, (tuple, list, set, frozenset)) and key in sp_)) and self.inline_set:
            f = mir.splice_loop_helpers(self.fx, f, self.inline_set)
        b = mir.Body(f)
        self._bodies[key] = b
        self.functions.add(key)
        return b

    def paths(self, key, **kw):
        ck = (key, tuple(sorted(kw.items(), key=repr)))
        if ck in self._evals:
            return self._evals[ck]
        b = self.body(key)
        if b is None:
            return None
        pe = mir.PathEval(self.fx, b, inline=self.inline_set, desugar=kw.pop("desugar", self.desugar))
        ps = pe.paths(**kw)
        self.inlined |= pe.inlined
        self.paths_enumerated += len(ps)
        self._evals[ck] = ps
        return ps

    def ok(self, rule, item, instance, detail="", span="", nontrivial=True):
        self.records.append(Record(rule, item, instance, "ok", detail, span, nontrivial))

    def violation(self, rule, item, instance, detail, span, path=None):
        self.records.append(Record(rule, item, instance, "violation", detail, span, True, path))

    def check(self, cond, rule, item, instance, detail_ok="", detail_bad="", span="", nontrivial=True, path=None):
        if cond:
            self.ok(rule, item, instance, detail_ok, span, nontrivial)
        else:
            self.violation(rule, item, instance, detail_bad or detail_ok, span, path)
        return cond

    def floor(self, rule, item, what, count, minimum):
        if count < minimum:
            self.violation(rule, item, "floor:" + what,
                           "expected at least %d %s, found %d: anchor or instances missing, failing closed" % (minimum, what, count), "")
        else:
            self.ok(rule, item, "floor:" + what, "%d %s (floor %d)" % (count, what, minimum), "", nontrivial=False)

    def note(self, s):
        self.notes.append(s)


CLIPPY_LINTS = ["unwrap_used", "expect_used", "indexing_slicing", "panic", "todo", "unreachable", "string_slice", "arithmetic_side_effects", "unimplemented"]


def clippy_xref(repo, ctx):
    """every construct clippy's panic-related restriction lints flag in the library must be at a line the inventory lists"""
    cmd = ["cargo", "+nightly", "clippy", "--offline", "--lib", "--message-format=json", "--", "-A", "clippy::all"]
    for l in CLIPPY_LINTS:
        cmd += ["-W", "clippy::" + l]
    env = dict(os.environ)
    env["CARGO_TARGET_DIR"] = os.path.join(VERIF, ".cache", "target-clippy")
    env["CARGO_NET_OFFLINE"] = "true"
    r = subprocess.run(cmd, cwd=repo, env=env, stdout=subprocess.PIPE, stderr=subprocess.PIPE, text=True)
    sites = {}
    for line in r.stdout.splitlines():
        try:
            m = json.loads(line)
        except ValueError:
            continue
        if m.get("reason") != "compiler-message":
            continue
        msg = m["message"]
        code = (msg.get("code") or {}).get("code") or ""
        if not code.startswith("clippy::"):
            continue
        for sp in msg["spans"]:
            if sp["is_primary"]:
                sites[(sp["file_name"], sp["line_start"], sp["line_end"])] = code
    inv = set()
    for rec in ctx.records:
        if rec.rule in ("PANIC", "PANIC-INTERNAL") and rec.span:
            parts = rec.span.split(":")
            if len(parts) >= 2 and parts[1].isdigit():
                inv.add((parts[0], int(parts[1])))
    missing = []
    for (f, a, b), code in sorted(sites.items()):
        if not any((f, ln) in inv for ln in range(a - 1, b + 2)):
            missing.append({"at": "%s:%d" % (f, a), "lint": code})
    return {"clippy_sites": len(sites), "inventory_lines": len(inv), "missing": missing, "clippy_exit": r.returncode}


def load_known():
    p = os.path.join(VERIF, "known_findings.json")
    if not os.path.exists(p):
        return []
    with open(p) as f:
        return json.load(f).get("findings", [])


def extract(repo, config, out):
    lock = os.path.join(VERIF, ".cache", "extract.lock")
    os.makedirs(os.path.dirname(lock), exist_ok=True)
    with open(lock, "w") as lf:
        fcntl.flock(lf, fcntl.LOCK_EX)
        r = subprocess.run([os.path.join(HERE, "extract.sh"), repo, config, out])
        return r.returncode


def inline_set(mod, fx):
    """function items absent from the frozen list of the tree the rules were written against (sa/spec/known_items.json)"""
    if not getattr(mod, "INLINE_HELPERS", True) or os.environ.get("VERIF_NO_INLINE"):
        return frozenset()
    try:
        with open(os.path.join(HERE, "spec", "known_items.json")) as f:
            known = set(json.load(f)["items"])
    except Exception:
        return frozenset()
    return frozenset(k for k, v in fx.fns.items() if v["kind"] in ("Fn", "AssocFn", "Closure") and k not in known)


def run_property(prop, tier, fx, fx_nd):
    mod = importlib.import_module("rules." + prop.lower())
    ctx = Ctx(prop, tier, fx, fx_nd)
    ctx.inline_set = inline_set(mod, fx)
    ctx.desugar = bool(getattr(mod, "DESUGAR", bool(os.environ.get("VERIF_DESUGAR_ALL"))))
    ctx.splice = getattr(mod, "SPLICE_LOOP_HELPERS", False)       # True, or the functions into which looping helpers are spliced
    try:
        mod.run(ctx)
    except Exception:
        # a rule that cannot be evaluated on this tree has not shown anything: fail closed, with the reason
        tb = traceback.format_exc().strip().splitlines()
        ctx.violation("ENGINE", prop, "rule-evaluation-failed", "the rules of %s could not be evaluated on this tree (%s | %s): no verdict, failing closed" % (prop, tb[-1][:160], tb[-3].strip()[:120] if len(tb) > 2 else ""), "")
    if ctx.inlined:
        ctx.note("helpers not present when the rules were written, inlined at their call sites: %s" % ", ".join(sorted(ctx.inlined)))
    extra = None
    if tier == "thorough" and fx_nd is not None and getattr(mod, "CONFIG_SENSITIVE", True):
        ctx2 = Ctx(prop, tier, fx_nd, None, config="nodefault")
        ctx2.inline_set = inline_set(mod, fx_nd)
        ctx2.desugar = bool(getattr(mod, "DESUGAR", bool(os.environ.get("VERIF_DESUGAR_ALL"))))
        ctx2.splice = getattr(mod, "SPLICE_LOOP_HELPERS", False)
        try:
            mod.run(ctx2)
        except Exception:
            ctx2.violation("ENGINE", "nodefault", "exception", traceback.format_exc(), "")
        extra = ctx2
    return mod, ctx, extra


def main():
    ap = argparse.ArgumentParser()
    ap.add_argument("prop")
    ap.add_argument("--tier", default=os.environ.get("VERIF_TIER", "quick"))
    ap.add_argument("--repo", default="/repo")
    ap.add_argument("--facts", default=None, help="use an existing facts file (self-validation only)")
    ap.add_argument("--no-evidence", action="store_true")
    ap.add_argument("--json", action="store_true", help="print violation keys as JSON (self-validation)")
    args = ap.parse_args()
    prop = args.prop.upper()
    tier = args.tier if args.tier in ("quick", "thorough") else "quick"
    seed = int(os.environ.get("VERIF_SEED", "0") or 0)
    t0 = time.time()

    cache = os.path.join(VERIF, ".cache")
    os.makedirs(cache, exist_ok=True)
    fx_nd = None
    if args.facts:
        fx = Facts(args.facts)
    else:
        out = os.path.join(cache, "facts-default-%s.json" % prop)
        rc = extract(args.repo, "default", out)
        if rc != 0:
            print("NO-VERDICT property=%s: fact extraction failed (tree does not compile?)" % prop)
            return 2
        fx = Facts(out)
        if tier == "thorough":
            out2 = os.path.join(cache, "facts-nodefault-%s.json" % prop)
            rc = extract(args.repo, "nodefault", out2)
            if rc != 0:
                print("NO-VERDICT property=%s: fact extraction (--no-default-features) failed" % prop)
                return 2
            fx_nd = Facts(out2)

    try:
        mod, ctx, extra = run_property(prop, tier, fx, fx_nd)
    except mir.PathLimit as e:
        print("NO-VERDICT property=%s: %s" % (prop, e))
        return 2

    records = list(ctx.records)
    # positive controls on the fixture crate: the zero-expected rule primitives must fire there
    import controls
    ctl_ran = []
    if controls.BY_PROPERTY.get(prop) and not args.facts:
        fout = os.path.join(cache, "facts-fixture-%s.json" % prop)
        r = subprocess.run([os.path.join(HERE, "extract_fixture.sh"), fout])
        if r.returncode != 0:
            print("NO-VERDICT property=%s: fixture extraction failed" % prop)
            return 2
        fctx = Ctx(prop, tier, Facts(fout))
        for cid in controls.BY_PROPERTY[prop]:
            try:
                fired = controls.CONTROLS[cid](fctx)
            except Exception:
                fired = False
                ctx.note("control %s raised: %s" % (cid, traceback.format_exc()[-300:]))
            ctl_ran.append((cid, fired))
            rec = Record("CONTROL", "sa/fixtures/lib.rs", cid, "ok" if fired else "violation",
                         "rule primitive fires on its positive-control fixture" if fired else "rule primitive did NOT fire on its positive-control fixture: the matcher is broken, a silent pass cannot be trusted", "", False)
            records.append(rec)
    if extra is not None:
        for r in extra.records:
            if r.verdict == "violation":
                r.detail = "[--no-default-features build] " + r.detail
                records.append(r)

    known = {k["key"]: k for k in load_known() if k.get("property") == prop and k.get("status") == "known"}
    viol = [r for r in records if r.verdict == "violation"]
    # de-duplicate by key
    seen = set()
    uviol = []
    for r in viol:
        if r.key in seen:
            continue
        seen.add(r.key)
        uviol.append(r)
    new = [r for r in uviol if r.key not in known]
    kn = [r for r in uviol if r.key in known]

    if args.json:
        print(json.dumps({"violations": [r.key for r in uviol]}))

    vdir = os.path.join(VERIF, "evidence", "violations")
    if not args.no_evidence and os.path.isdir(vdir):
        for fn in os.listdir(vdir):
            if fn.startswith(prop + "-"):
                os.remove(os.path.join(vdir, fn))
    for r in kn:
        print("KNOWN-FINDING: property=%s %s -- %s" % (prop, r.key, known[r.key].get("what", "")))
    rc = 0
    if new:
        os.makedirs(vdir, exist_ok=True)
        for i, r in enumerate(new):
            p = os.path.join(vdir, "%s-%d.json" % (prop, i))
            if not args.no_evidence:
                with open(p, "w") as f:
                    json.dump({"property": prop, **r.to_json()}, f, indent=1)
            print("VIOLATION property=%s replay=%s" % (prop, p))
            print("  rule=%s item=%s instance=%s at %s" % (r.rule, r.item, r.instance, r.span))
            print("  %s" % r.detail)
        rc = 1

    selfcheck = None
    xref = None
    if tier == "thorough" and not args.facts:
        # (a) self-validation corpus of this property's rules (seeded breaks must be caught, benign variants stay silent)
        try:
            import mutants
            if mutants.capture_argv(args.repo):
                try:
                    ms = mutants.mutants_for(prop, with_seeded=True, with_benign=True)
                except ModuleNotFoundError:
                    ms = []
                base = set(r.key for r in uviol)
                from concurrent.futures import ThreadPoolExecutor
                with ThreadPoolExecutor(max_workers=16) as ex:
                    rs = list(ex.map(lambda m: mutants.evaluate(prop, m, args.repo, base), ms))
                selfcheck = {"variants": len(rs), "caught": sum(1 for r in rs if r["status"] == "caught"), "silent": sum(1 for r in rs if r["status"].startswith("silent")),
                             "skipped": [r["id"] for r in rs if r["status"] == "skipped"],
                             "problems": [{"id": r["id"], "status": r["status"], "detail": r.get("detail", "")[:300]} for r in rs if r["status"] in ("MISSED", "FALSE-ALARM", "error")],
                             "results": [{"id": r["id"], "kind": r["kind"], "status": r["status"], "fired": r.get("new_violations", [])[:4]} for r in rs]}
                for pr in selfcheck["problems"]:
                    print("SELFCHECK-PROBLEM property=%s variant=%s %s %s" % (prop, pr["id"], pr["status"], pr["detail"][:160]))
        except Exception:
            selfcheck = {"error": traceback.format_exc()[-400:]}
        # (b) C17: cross-reference the panic inventory with clippy's restriction lints (completeness of the inventory)
        if prop == "C17":
            xref = clippy_xref(args.repo, ctx)
            for m in xref.get("missing", []):
                p_ = os.path.join(vdir, "%s-xref-%d.json" % (prop, len(new)))
                os.makedirs(vdir, exist_ok=True)
                with open(p_, "w") as f:
                    json.dump({"property": prop, "rule": "INVENTORY-XREF", "site": m}, f)
                print("VIOLATION property=%s replay=%s" % (prop, p_))
                print("  rule=INVENTORY-XREF clippy reports a panic-capable construct at %s (%s) that the inventory does not list: failing closed" % (m["at"], m["lint"]))
                rc = 1

    wall = time.time() - t0
    if not args.no_evidence:
        oks = [r for r in records if r.verdict == "ok"]
        nontriv = {r.key for r in records if r.nontrivial}
        samples = [r.to_json() for r in (uviol + oks)[:40]]
        ev = {
            "property_id": prop,
            "tier": tier,
            "seed": seed,
            "level": "other",
            "coverage": {
                "explanation": getattr(mod, "EXPLANATION", ""),
                "rule": "each record is one rule instance (rule@item#instance) decided on the MIR/AST facts of /repo's current tree; "
                        "non-trivial = decided by a table comparison, dominance/control-dependence, path or dataflow argument (not a bare presence/floor test)",
                "obligations": len(records),
                "discharged": len(oks) + len(kn),
                "evaluations": len(records),
                "distinct_nontrivial": len(nontriv),
                "exhaustive": True,
                "samples": samples,
                "functions_analysed": sorted(ctx.functions),
                "paths_enumerated": ctx.paths_enumerated + (extra.paths_enumerated if extra else 0),
                "configs": ["default"] + (["no-default-features"] if extra is not None else []),
                "rules": sorted({r.rule for r in records}),
                "known_findings_reported": [r.key for r in kn],
                "notes": ctx.notes,
                "positive_controls": [{"control": c, "fired": f} for c, f in ctl_ran],
                "selfcheck": selfcheck,
                "clippy_cross_reference": xref,
                "checker_cmd": "python3 sa/check.py %s --tier %s" % (prop, tier),
                "trusted_base": ["rustc MIR construction and trait resolution (nightly, -Zmir-opt-level=0)",
                                 "semantics of std/glob/indexmap/serde/RustCrypto calls",
                                 "spec tables under /verif/sa/spec"],
            },
            "assumptions": getattr(mod, "NOT_DECIDED", []),
            "wall_s": round(wall, 3),
            "violations": len(new),
        }
        os.makedirs(os.path.join(VERIF, "evidence"), exist_ok=True)
        with open(os.path.join(VERIF, "evidence", "%s.json" % prop), "w") as f:
            json.dump(ev, f, indent=1)
    print("%s %s: %d rule instances, %d ok, %d known, %d new violations, %.2fs" % (
        prop, tier, len(records), len([r for r in records if r.verdict == "ok"]), len(kn), len(new), wall))
    return rc


if __name__ == "__main__":
    sys.exit(main())
