"""Positive controls: each rule primitive whose expected number of findings is zero on a healthy
tree is run on a tiny fixture crate (sa/fixtures/lib.rs, compiled by the same driver on every
check) where it MUST fire."""
from lib import *


def _violations(ctx, before):
    return [r for r in ctx.records[before:] if r.verdict == "violation"]


def c_bytews(ctx):
    from rules.c14 import bytews_sites
    n0 = len(ctx.records)
    bytews_sites(ctx, "bytews_bad", rule="CTL")
    bad = len(_violations(ctx, n0))
    n1 = len(ctx.records)
    bytews_sites(ctx, "bytews_good", rule="CTL")
    good = len(_violations(ctx, n1))
    return bad >= 1 and good == 0


def c_lossy(ctx):
    from rules.c10 import collect_shapes
    shapes, holes, body = collect_shapes(ctx, "lossy_bad")
    return any(role == "name" and "lossy" in encs for (sig, role), encs in holes.items())


def c_errprop(ctx):
    n0 = len(ctx.records)
    errprop(ctx, "errprop_bad", ctx.paths("errprop_bad"), ctx.body("errprop_bad"), rule="CTL", no_effects_after_error=(), floor=1)
    a = len(_violations(ctx, n0))
    n1 = len(ctx.records)
    errprop(ctx, "errprop_sink_bad", ctx.paths("errprop_sink_bad"), ctx.body("errprop_sink_bad"), rule="CTL", no_effects_after_error=(), floor=1)
    b = len(_violations(ctx, n1))
    n2 = len(ctx.records)
    errprop(ctx, "errprop_adapter_bad", ctx.paths("errprop_adapter_bad"), ctx.body("errprop_adapter_bad"), rule="CTL", no_effects_after_error=(), floor=0)
    c = len(_violations(ctx, n2))
    return a >= 1 and b >= 1 and c >= 1


def c_firstsep(ctx):
    ps = ret_paths(ctx.paths("firstsep_bad"))
    sp = [s for p in ps for s in find_split_parts(("field", ("field", ("downcast", p.end[1], "Some"), 0, ""), 0, ""))]
    return bool(sp) and all(occurrence(s) == "last" for s in sp)


def c_lastsep(ctx):
    ps = ret_paths(ctx.paths("lastsep_bad"))
    sp = [s for p in ps for s in find_split_parts(("field", ("field", ("downcast", p.end[1], "Some"), 0, ""), 1, ""))]
    return bool(sp) and all(occurrence(s) == "first" for s in sp)


def c_panic(ctx):
    from rules.c17 import sites_of, discharge
    fired = 0
    for key in ("index_unguarded", "unwrap_unguarded"):
        body = ctx.body(key)
        for (bb, kind) in sites_of(body):
            for p in ctx.paths(key):
                for e in p.events:
                    if e.bb == bb and e.kind in ("call", "assert"):
                        if (e.kind == "assert") == kind.startswith("assert") and discharge(ctx, body, p, e, kind) is None:
                            fired += 1
    # ... and the common safe idioms must be discharged (no false alarm on guarded code)
    body = ctx.body("guarded_idioms_good")
    undis = 0
    for (bb, kind) in sites_of(body):
        if kind.startswith("assert:Overflow"):
            continue
        for p in ctx.paths("guarded_idioms_good"):
            for e in p.events:
                if e.bb == bb and e.kind in ("call", "assert") and (e.kind == "assert") == kind.startswith("assert"):
                    if discharge(ctx, body, p, e, kind) is None:
                        undis += 1
    return fired >= 3 and undis == 0


def c_term(ctx):
    from rules.c17 import termination
    n0 = len(ctx.records)
    saved = ctx.fx.fns
    try:
        ctx.fx.fns = {k: v for k, v in saved.items() if k == "loop_without_progress"}
        termination(ctx)
    finally:
        ctx.fx.fns = saved
    return any(r.rule == "TERM" for r in _violations(ctx, n0))


CONTROLS = {"bytews": c_bytews, "lossy": c_lossy, "errprop": c_errprop, "firstsep": c_firstsep, "lastsep": c_lastsep, "panic": c_panic, "term": c_term}
BY_PROPERTY = {
    "C02": ["lastsep"], "C08": ["errprop", "firstsep"], "C09": ["errprop"], "C10": ["lossy", "bytews"], "C11": ["bytews"], "C12": ["errprop"],
    "C13": ["errprop"], "C14": ["bytews", "errprop"], "C16": ["errprop", "firstsep"], "C17": ["panic", "term"], "C18": ["lastsep"], "C20": ["lastsep"],
    "C05": ["errprop"], "C19": ["errprop"],
}
