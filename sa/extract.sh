#!/bin/bash
# Usage: extract.sh <repo-dir> <config: default|nodefault> <out.json>
# Runs the fact driver over <repo-dir> under the real cargo build flags.
set -u
REPO="$1"; CONFIG="$2"; OUT="$3"
VERIF="$(cd "$(dirname "$0")/.." && pwd)"
DRV="$VERIF/driver/target/release/pkgsrc-facts"
TGT="${PKGSRC_FACTS_TARGET:-$VERIF/.cache/target-$CONFIG}"
if [ ! -x "$DRV" ]; then
  (cd "$VERIF/driver" && CARGO_NET_OFFLINE=true cargo +nightly build --offline --release >&2) || exit 2
fi
SYSROOT="$(rustc +nightly --print sysroot)"
NONCE="$$-$(date +%s%N)"
FLAGS=()
[ "$CONFIG" = "nodefault" ] && FLAGS+=(--no-default-features)
rm -f "$OUT"
mkdir -p "$TGT"
# cargo's freshness cache would skip the wrapper: drop the crate's fingerprints.
rm -rf "$TGT"/debug/.fingerprint/pkgsrc-* 2>/dev/null
cd "$REPO" || exit 2
LD_LIBRARY_PATH="$SYSROOT/lib${LD_LIBRARY_PATH:+:$LD_LIBRARY_PATH}" \
RUSTFLAGS="-Zmir-opt-level=0 -Awarnings" \
RUSTC_WORKSPACE_WRAPPER="$DRV" \
CARGO_TARGET_DIR="$TGT" \
CARGO_NET_OFFLINE=true \
PKGSRC_FACTS_OUT="$OUT" PKGSRC_FACTS_NONCE="$NONCE" PKGSRC_FACTS_CONFIG="$CONFIG" \
PKGSRC_FACTS_ARGV_OUT="${PKGSRC_FACTS_ARGV_OUT:-}" CARGO_INCREMENTAL=0 \
  cargo +nightly check --offline --lib "${FLAGS[@]}" >"$OUT.log" 2>&1
RC=$?
if [ $RC -ne 0 ]; then
  echo "extract: cargo check failed (rc=$RC); compiler output follows" >&2
  tail -40 "$OUT.log" >&2
  exit 2
fi
if [ ! -s "$OUT" ] || ! grep -q "\"nonce\":\"$NONCE\"" "$OUT"; then
  echo "extract: facts file missing or stale (driver did not run)" >&2
  tail -20 "$OUT.log" >&2
  exit 2
fi
rm -f "$OUT.log"
exit 0
