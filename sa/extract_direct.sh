#!/bin/bash
# Usage: extract_direct.sh <scratch-repo-dir> <argv.json> <out.json>
# Runs the fact driver directly (no cargo) with the rustc command line that
# cargo used for /repo's library crate; used only for self-validation variants.
set -u
DIR="$1"; ARGV="$2"; OUT="$3"
VERIF="$(cd "$(dirname "$0")/.." && pwd)"
DRV="$VERIF/driver/target/release/pkgsrc-facts"
SYSROOT="$(rustc +nightly --print sysroot)"
OD="$(dirname "$OUT")/rustc-out"
mkdir -p "$OD"
mapfile -t ARGS < <(python3 - "$ARGV" "$OD" <<'PY'
import json,sys
a=json.load(open(sys.argv[1])); od=sys.argv[2]
out=[]; i=1  # a[0] is the driver path
while i < len(a):
    x=a[i]
    if x=="--out-dir": out+=[x,od]; i+=2; continue
    if x=="-C" and i+1<len(a) and a[i+1].startswith("incremental="): i+=2; continue
    if x.startswith("--error-format") or x.startswith("--json"): i+=1; continue
    out.append(x); i+=1
print("\n".join(out))
PY
)
cd "$DIR" || exit 2
NONCE="$$-$(date +%s%N)"
LD_LIBRARY_PATH="$SYSROOT/lib" PKGSRC_FACTS_OUT="$OUT" PKGSRC_FACTS_NONCE="$NONCE" PKGSRC_FACTS_CONFIG="default" \
  "$DRV" rustc "${ARGS[@]}" >"$OUT.log" 2>&1
RC=$?
if [ $RC -ne 0 ] || [ ! -s "$OUT" ]; then
  tail -30 "$OUT.log" >&2
  exit 2
fi
exit 0
