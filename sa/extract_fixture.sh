#!/bin/bash
# Usage: extract_fixture.sh <out.json> : facts of sa/fixtures/lib.rs (compiled as crate `pkgsrc`, std only)
set -u
OUT="$1"
VERIF="$(cd "$(dirname "$0")/.." && pwd)"
DRV="$VERIF/driver/target/release/pkgsrc-facts"
SYSROOT="$(rustc +nightly --print sysroot)"
OD="$(mktemp -d)"
trap 'rm -rf "$OD"' EXIT
cd "$VERIF/sa/fixtures" || exit 2
LD_LIBRARY_PATH="$SYSROOT/lib" PKGSRC_FACTS_OUT="$OUT" PKGSRC_FACTS_NONCE="fixture" PKGSRC_FACTS_CONFIG="fixture" \
  "$DRV" rustc --crate-name pkgsrc --edition=2021 lib.rs --crate-type lib --emit=metadata -Zmir-opt-level=0 -Awarnings --out-dir "$OD" >"$OUT.log" 2>&1
RC=$?
if [ $RC -ne 0 ] || [ ! -s "$OUT" ]; then tail -20 "$OUT.log" >&2; exit 2; fi
rm -f "$OUT.log"
