"""Loading and pretty-printing of the JSON facts produced by /verif/driver."""
import json
import re
import sys


class Facts:
    def __init__(self, path):
        with open(path) as f:
            d = json.load(f)
        self.raw = d
        self.config = (d.get("cfg") or ["?"])[0]
        self.fns = {f["key"]: f for f in d["fns"]}
        self.adts = {a["path"]: a for a in d["adts"]}
        self.impls = d["impls"]
        self.fmt_sites = d["fmt_sites"]

    def fn(self, key):
        return self.fns.get(key)

    def find(self, pattern):
        """Keys matching a regex (full match)."""
        rx = re.compile(pattern)
        return [k for k in self.fns if rx.fullmatch(k)]

    def bodies(self, include_promoted=False):
        for k, f in self.fns.items():
            if f["kind"] == "Promoted" and not include_promoted:
                continue
            yield k, f


# ---------------------------------------------------------------- printing

def p_place(p):
    s = "_%d" % p["l"]
    for e in p["p"]:
        k = e["k"]
        if k == "deref":
            s = "(*%s)" % s
        elif k == "field":
            s = "%s.%d%s" % (s, e["i"], (":" + e["name"]) if e.get("name") else "")
        elif k == "index":
            s = "%s[_%d]" % (s, e["l"])
        elif k == "downcast":
            s = "(%s as %s)" % (s, e["v"])
        elif k == "constindex":
            s = "%s[%s%d]" % (s, "-" if e["from_end"] else "", e["offset"])
        elif k == "subslice":
            s = "%s[%d:%s%d]" % (s, e["from"], "-" if e["from_end"] else "", e["to"])
        else:
            s = "%s.?%s" % (s, e.get("s", k))
    return s


def p_op(o):
    k = o["k"]
    if k in ("copy", "move"):
        return ("" if k == "copy" else "move ") + p_place(o["place"])
    if k == "const":
        if "fn" in o:
            return "fn:" + o["fn"]["full"]
        return o["s"]
    return "?" + o.get("s", "")


def p_rv(rv):
    k = rv["k"]
    if k == "use":
        return p_op(rv["op"])
    if k == "ref":
        return "&%s%s" % ("mut " if rv["bk"] == "mut" else "", p_place(rv["place"]))
    if k == "rawptr":
        return "&raw %s" % p_place(rv["place"])
    if k == "cast":
        return "%s as %s (%s)" % (p_op(rv["op"]), rv["ty"], rv["ck"])
    if k == "binop":
        return "%s(%s, %s)" % (rv["op"], p_op(rv["l"]), p_op(rv["r"]))
    if k == "unop":
        return "%s(%s)" % (rv["op"], p_op(rv["o"]))
    if k == "discr":
        return "discriminant(%s)" % p_place(rv["place"])
    if k == "aggregate":
        ak = rv["ak"]
        ops = ", ".join(p_op(o) for o in rv["ops"])
        if ak == "adt":
            return "%s::%s{%s}" % (rv["adt"], rv["variant"], ops)
        if ak == "closure":
            return "closure<%s>(%s)" % (rv["closure"], ops)
        return "%s(%s)" % (ak, ops)
    if k == "copyforderef":
        return "deref_copy %s" % p_place(rv["place"])
    if k == "repeat":
        return "[%s; %s]" % (p_op(rv["op"]), rv["n"])
    return "?" + rv.get("s", k)


def p_term(t):
    k = t["k"]
    if k == "goto":
        return "goto bb%d" % t["t"]
    if k == "switch":
        return "switch(%s: %s) [%s, otherwise: bb%d]" % (
            p_op(t["op"]), t["ty"],
            ", ".join("%d: bb%d" % (v, b) for v, b in t["targets"]), t["otherwise"])
    if k == "call":
        return "%s = %s(%s) -> %s" % (
            p_place(t["dest"]), t["func"]["full"],
            ", ".join(p_op(a) for a in t["args"]),
            ("bb%d" % t["target"]) if t["target"] is not None else "!")
    if k == "assert":
        return "assert(%s == %s, %s) -> bb%d" % (p_op(t["cond"]), t["expected"], t["msg"], t["target"])
    if k == "drop":
        return "drop(%s) -> bb%d" % (p_place(t["place"]), t["target"])
    return k + (" " + t["s"] if "s" in t else "")


def dump_fn(f, out=sys.stdout, cleanup=False):
    out.write("fn %s  [%s %s] args=%d ret=%s  %s:%d\n" % (
        f["key"], f["kind"], f["vis"], f["arg_count"], f["ret_ty"],
        f["span"]["file"], f["span"]["line"]))
    for d in f["debug"]:
        v = d["value"]
        out.write("  debug %s => %s\n" % (d["name"], p_place(v) if "l" in v else p_op(v)))
    for i, l in enumerate(f["locals"]):
        out.write("  let %s_%d: %s\n" % ("mut " if l["mut"] else "", i, l["ty"]))
    for bi, b in enumerate(f["blocks"]):
        if b["cleanup"] and not cleanup:
            continue
        out.write("  bb%d%s:\n" % (bi, " (cleanup)" if b["cleanup"] else ""))
        for s in b["stmts"]:
            if s["k"] == "assign":
                out.write("    %s = %s    // L%d\n" % (p_place(s["place"]), p_rv(s["rv"]), s["span"]["line"]))
            else:
                out.write("    setdiscr %s = %d\n" % (p_place(s["place"]), s["vi"]))
        out.write("    %s    // L%d\n" % (p_term(b["term"]), b["tspan"]["line"]))


if __name__ == "__main__":
    fx = Facts(sys.argv[1])
    for pat in sys.argv[2:]:
        for k in fx.find(pat):
            dump_fn(fx.fns[k])
            print()
