// Positive controls for rules whose expected count is zero on a healthy tree.
// Compiled (never run) by the fact driver under the crate name `pkgsrc` on
// every check; each function exhibits one forbidden shape and the matching
// rule primitive must fire on it, so a matcher that rots cannot pass silently.
#![allow(dead_code, unused)]
use std::io::{BufRead, Read};
use std::path::Path;

pub fn bytews_bad(bytes: &[u8]) -> usize {
    let mut n = 0;
    for b in bytes.iter() {
        if (*b as char).is_whitespace() {
            n += 1;
        }
    }
    n
}

pub fn bytews_good(bytes: &[u8]) -> usize {
    bytes.iter().filter(|b| b.is_ascii_whitespace()).count()
}

pub struct Rec {
    pub filename: std::path::PathBuf,
    pub hash: String,
}

pub fn lossy_bad(r: &Rec) -> Vec<u8> {
    let mut out = Vec::new();
    out.extend_from_slice(format!("X ({}) = {}\n", r.filename.display(), r.hash).as_bytes());
    out
}

pub fn errprop_bad<R: BufRead>(reader: R) -> std::io::Result<usize> {
    let mut n = 0;
    for line in reader.lines() {
        let Ok(line) = line else { break };
        n += line.len();
    }
    Ok(n)
}

pub fn errprop_adapter_bad<R: BufRead>(reader: R) -> std::io::Result<usize> {
    let mut n = 0;
    for line in reader.lines().map_while(Result::ok) {
        n += line.len();
    }
    Ok(n)
}

pub fn errprop_sink_bad(s: &str) -> Result<i64, std::num::ParseIntError> {
    let v = s.parse::<i64>().unwrap_or(0);
    Ok(v)
}

pub fn firstsep_bad(line: &str) -> Option<(&str, &str)> {
    line.rsplit_once('=')
}

pub fn lastsep_bad(name: &str) -> Option<(&str, &str)> {
    name.split_once('-')
}

pub fn index_unguarded(v: &[u8], parts: Vec<&str>) -> usize {
    parts[1].len() + v[0] as usize
}

pub fn unwrap_unguarded(s: &str) -> char {
    s.chars().next().unwrap()
}

pub fn loop_without_progress(s: &str) -> usize {
    let mut i = 0;
    let mut n = 0;
    loop {
        if i == s.len() {
            break;
        }
        if s.as_bytes()[i] == b'x' {
            i += 1;
        }
        n += 1;
    }
    n
}

pub fn guarded_idioms_good(v: &Vec<u8>, s: &str) -> usize {
    let mut n = 0;
    if !v.is_empty() {
        n += v[v.len() - 1] as usize;
        n += *v.first().unwrap() as usize;
    }
    if !s.is_empty() {
        n += s.chars().next().unwrap() as usize;
    }
    for i in 0..v.len() {
        n += v[i] as usize;
    }
    n
}
