#!/usr/bin/env python3
"""Regenerate the per-property section of /verif/DESIGN.md (between the GENERATED markers) from what is actually built:
rule modules (EXPLANATION / NOT_DECIDED), the latest evidence files (rules, counts), the self-validation corpus and the seeded changes."""
import importlib
import json
import os
import sys

HERE = os.path.dirname(os.path.abspath(__file__))
VERIF = os.path.dirname(HERE)
sys.path.insert(0, HERE)

BEGIN = "<!-- BEGIN GENERATED: per-property (python3 sa/gen_design.py) -->"
END = "<!-- END GENERATED -->"


def main():
    props = [json.loads(l) for l in open(os.path.join(VERIF, "properties.jsonl"))]
    known = json.load(open(os.path.join(VERIF, "known_findings.json")))["findings"]
    seeded = {}
    sd = os.path.join(VERIF, "seeded")
    if os.path.isdir(sd):
        for d in sorted(os.listdir(sd)):
            mp = os.path.join(sd, d, "meta.json")
            if os.path.exists(mp):
                m = json.load(open(mp))
                seeded.setdefault(m.get("property"), []).append((d, m))
    out = [BEGIN, ""]
    for p in props:
        pid = p["id"]
        mod = importlib.import_module("rules." + pid.lower())
        try:
            sc = importlib.import_module("selfcheck." + pid.lower()).MUTANTS
        except ModuleNotFoundError:
            sc = []
        evp = os.path.join(VERIF, "evidence", pid + ".json")
        ev = json.load(open(evp)) if os.path.exists(evp) else None
        out.append("### %s — %s" % (pid, p["title"]))
        out.append("")
        out.append("* **Decided (structural clauses).** " + mod.EXPLANATION)
        out.append("* **Not decided (assumptions).** " + "; ".join(mod.NOT_DECIDED) + ".")
        if ev:
            c = ev["coverage"]
            out.append("* **Last run on the current tree.** %d rule instances (%d discharged), rules: %s; %d paths enumerated over %d functions%s." % (
                c["obligations"], c["discharged"], ", ".join("`%s`" % r for r in c["rules"]), c.get("paths_enumerated", 0), len(c.get("functions_analysed", [])),
                "; positive controls: " + ", ".join(x["control"] for x in c.get("positive_controls", [])) if c.get("positive_controls") else ""))
        kf = [k for k in known if k["property"] == pid]
        for k in kf:
            if k["status"] == "known":
                out.append("* **Known finding (not repaired).** `%s` — %s" % (k["key"], k["what"]))
            else:
                out.append("* **Defect found and repaired** (`fix:` commit %s). `%s` — %s" % (k.get("commit"), k["key"], k["what"]))
        breaks = [m for m in sc if m["kind"] == "break"]
        benign = [m for m in sc if m["kind"] == "benign"]
        if sc:
            out.append("* **Self-validation corpus** (`sa/selfcheck/%s.py`, re-run by the thorough tier): %d seeded breaks that compile, each must be reported by the named rule; %d behaviour-preserving variants must stay silent." % (pid.lower(), len(breaks), len(benign)))
            out.append("")
            out.append("  | variant | kind | rule that must fire |")
            out.append("  |---|---|---|")
            for m in sc:
                exp = ", ".join(m.get("expect", m.get("expect_gone", []))) or "—"
                out.append("  | `%s` | %s | %s |" % (m["id"], m["kind"], ("`%s`" % exp) if exp != "—" else "silent"))
        sl = seeded.get(pid, [])
        if sl:
            out.append("")
            out.append("* **Independently seeded changes** (written by sub-agents that saw only the property text; each compiles and passes the 57 tests; verified with `sa/seeded.py verify`):")
            out.append("")
            out.append("  | seeded change | what it needs to manifest | reported by |")
            out.append("  |---|---|---|")
            for d, m in sl:
                det = m.get("detected_by", {})
                rep = "; ".join("%s: %s" % (k, ", ".join("`%s`" % x.split("@")[0] for x in v[:3])) for k, v in det.items()) or "**not detected**"
                out.append("  | `%s` — %s | %s | %s |" % (d, m.get("summary", "").replace("|", "\\|"), m.get("needs_to_manifest", "").replace("|", "\\|"), rep))
        out.append("")
    out.append(END)
    text = "\n".join(out)
    dp = os.path.join(VERIF, "DESIGN.md")
    s = open(dp).read()
    if BEGIN in s and END in s:
        a = s.index(BEGIN)
        b = s.index(END) + len(END)
        s = s[:a] + text + s[b:]
    else:
        s = s + "\n\n" + text + "\n"
    open(dp, "w").write(s)
    print("DESIGN.md per-property section regenerated (%d properties)" % len(props))


if __name__ == "__main__":
    main()
