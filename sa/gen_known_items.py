#!/usr/bin/env python3
"""Freeze the list of function items of the tree the rules were written against (sa/spec/known_items.json).
Run deliberately (never by a check): functions NOT on this list are helpers introduced later; PathEval inlines them at their
call sites (when they are loop-free and pure as far as the terms go) instead of failing closed on an unknown callee."""
import json
import os
import sys

HERE = os.path.dirname(os.path.abspath(__file__))
sys.path.insert(0, HERE)
from facts import Facts  # noqa: E402


def main():
    keys = set()
    for f in sys.argv[1:]:
        fx = Facts(f)
        keys |= {k for k, v in fx.fns.items() if v["kind"] in ("Fn", "AssocFn", "Closure")}
    out = os.path.join(HERE, "spec", "known_items.json")
    json.dump({"comment": "function items of the analysed tree when the rules were written (both feature configurations)", "items": sorted(keys)},
              open(out, "w"), indent=0)
    print("known items:", len(keys))


if __name__ == "__main__":
    main()
