#!/usr/bin/env python3
"""Regenerate /verif/MANIFEST.json from the rule modules that exist (keeps not_applicable current)."""
import importlib
import json
import os
import sys

HERE = os.path.dirname(os.path.abspath(__file__))
VERIF = os.path.dirname(HERE)
sys.path.insert(0, HERE)

TECH = {
    "C01": "loop path summaries of the tokeniser + value-set propagation over ASCII letters (MIR), decision-table comparison",
    "C02": "decision table of operator validation + last-separator / orientation rules on resolved MIR calls",
    "C03": "comparison-discipline rules on MIR: operator independence (taint), operator table, operand provenance, first-difference guards (control dependence)",
    "C04": "pairing-discipline rule (which '{' may be paired with find('}')) + dominance of the balance check, on MIR paths",
    "C05": "256-row dispatch decision table + delegate table + inert fast-reject rule (path enumeration over MIR)",
    "C06": "selection decision table extracted by path-sensitive evaluation of best_match",
    "C07": "name-table bijection, ordered-iteration (loop driver) rule, format-site templates (AST), who-writes rule on a private field, kind-consistency of every call site",
    "C08": "dispatch decision table, required-set sibling agreement, first-separator rule, error propagation (ERRPROP) on MIR paths",
    "C09": "buffer carry-over / UTF-8 validation shape rules and error propagation on the MIR of Write::write",
    "C10": "line-shape extraction from format sites + raw extends per loop nest, lossy-conversion taint, reader/writer agreement",
    "C11": "classification decision table over 8 predicates, map-selection sibling agreement, byte-classification (u8-as-char) rule",
    "C12": "hash-by-type table, full-equality / payload-order rules, lookup-shape rule, ERRPROP",
    "C13": "dispatch table with resolved generic digest types (typenum-decoded), name-table bijection, ERRPROP, format-site spec, filter shape",
    "C14": "command decision table (18 x arg state), difference-bound normal form of line guards, byte-classification rule",
    "C15": "finite-state transducer extraction (17 kinds x 2 flag values x 4 views) and sibling cross-check",
    "C16": "key<->field table, segmentation pairing (must-pass-through clear), ERRPROP, first-separator rule",
    "C17": "panic-site inventory with automatic discharge rules and reasoned exemptions; loop/recursion termination classification",
    "C18": "last-separator + orientation rules on all PKGNAME splitters (resolved MIR calls, origin terms)",
    "C19": "acceptance decision table over component kinds (5^2 + 5^4 rows) + constructed-value origins",
    "C20": "file-name table bijection, required-set agreement, last-separator/orientation rule, iteration skeleton on MIR paths",
}

LEVEL_TEXT = ("Static analysis over rustc's MIR/AST of the current tree (no execution): the structural clauses named in "
              "coverage.explanation are decided for every path and every table row; each is a necessary condition of the property. "
              "The behavioural remainder listed under `assumptions` is not decided.")


def main():
    props = [json.loads(l) for l in open(os.path.join(VERIF, "properties.jsonl"))]
    checks, na = [], []
    for p in props:
        pid = p["id"]
        try:
            importlib.import_module("rules." + pid.lower())
            have = True
        except ModuleNotFoundError:
            have = False
        if not have:
            na.append({"property_id": pid, "reason": "rule module not built yet (work in progress); see DESIGN.md section 4"})
            continue
        checks.append({
            "property_id": pid,
            "quick_cmd": "python3 sa/check.py %s --tier quick" % pid,
            "thorough_cmd": "python3 sa/check.py %s --tier thorough" % pid,
            "evidence_file": "/verif/evidence/%s.json" % pid,
            "replay_cmd_template": "python3 sa/check.py %s --tier quick  # violation record: {path}" % pid,
            "engine": "pkgsrc-sa",
            "level_claimed": {"category": "other", "text": LEVEL_TEXT, "design_ref": "DESIGN.md section 4, %s" % pid},
            "level_note": "Trusted: rustc MIR construction/trait resolution (-Zmir-opt-level=0), semantics of std/glob/indexmap/serde/RustCrypto calls, spec tables under sa/spec. Decides structural clauses only. Paths are evaluated on normal forms (helpers absent from sa/spec/known_items.json inlined, Option/Result combinators and `?` evaluated as matches, split / slice / length / quantifier idioms normalised); a rule that cannot recognise its anchor fails closed (DESIGN.md 7b gives the measured false-alarm rate).",
            "technique": "static analysis: " + TECH[pid],
        })
    m = {
        "version": 1,
        "setup_cmd": "cd /verif/driver && CARGO_NET_OFFLINE=true cargo +nightly build --offline --release && cd /verif && sa/extract.sh /repo default /verif/.cache/facts-setup.json && sa/extract.sh /repo nodefault /verif/.cache/facts-setup-nd.json",
        "hooks": {"guard": "pkgsrc_rs_verif",
                  "enable": "none needed: the analysis reads /repo's MIR through RUSTC_WORKSPACE_WRAPPER under `cargo +nightly check`; there is no instrumentation in /repo",
                  "baseline_off_cmd": "cd /repo && cargo test --workspace --no-fail-fast --offline",
                  "source_commits": [], "add_only": True},
        "engines": [{"name": "pkgsrc-sa", "path": "/verif/sa", "serves_properties": [c["property_id"] for c in checks],
                     "kind_free_text": "rustc_private fact extractor (/verif/driver) + Python path-sensitive MIR evaluator and per-property rule modules (/verif/sa/rules), spec tables (/verif/sa/spec), self-validation corpus (/verif/sa/selfcheck)"}],
        "checks": checks,
        "notes": "Every check re-extracts facts from /repo's current working tree on each run. Genuine defects repaired in /repo are listed in /verif/known_findings.json (status fixed) and the fix: commits in /repo's history.",
        "not_applicable": na,
    }
    with open(os.path.join(VERIF, "MANIFEST.json"), "w") as f:
        json.dump(m, f, indent=1)
    print("checks:", len(checks), "not_applicable:", len(na))


if __name__ == "__main__":
    main()
