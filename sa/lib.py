"""Shared query helpers for rule modules."""
import json
import os

import mir
from mir import term_str, strip_refs, subterms, mentions

HERE = os.path.dirname(os.path.abspath(__file__))


def spec(name):
    with open(os.path.join(HERE, "spec", name)) as f:
        return json.load(f)


# ------------------------------------------------------------------ term tests

def is_const(t):
    return isinstance(t, tuple) and t and t[0] == "const"


def const_of(t):
    """python value of a constant term (through refs), else None"""
    t = strip_refs(t)
    if is_const(t):
        return t[2]
    return None


def const_str(t):
    v = const_of(t)
    return v if isinstance(v, str) else None


def const_char(t):
    v = const_of(t)
    if isinstance(v, tuple) and v and v[0] == "char":
        return v[1]
    return None


def const_int(t):
    v = const_of(t)
    if isinstance(v, int) and not isinstance(v, bool):
        return v
    return None


def const_bytes(t):
    v = const_of(t)
    if isinstance(v, tuple) and v and v[0] == "bytes":
        return v[1]
    return None


def is_call(t, *names):
    """t is a call term whose callee path ends with / equals one of names"""
    if not (isinstance(t, tuple) and t and t[0] == "call"):
        return False
    if not names:
        return True
    p = t[1]
    return any(p == n or p.endswith(n) for n in names)


def call_path(t):
    return t[1] if isinstance(t, tuple) and t and t[0] == "call" else None


def call_args(t):
    return t[3]


def find_calls(t, *names):
    """all call sub-terms of t matching names"""
    return [s for s in subterms(t) if is_call(s, *names)]


def agg_variant(t):
    """(adt, variant, ops) for an ADT aggregate term"""
    if isinstance(t, tuple) and t and t[0] == "agg" and t[1] == "adt":
        return t[2], t[3], t[4]
    return None


def unwrap_ok(t):
    a = agg_variant(t)
    if a and a[0].startswith("std::result::Result") and a[1] == "Ok":
        return a[2][0]
    return None


def unwrap_err(t):
    a = agg_variant(t)
    if a and a[0].startswith("std::result::Result") and a[1] == "Err":
        return a[2][0]
    return None


def unwrap_some(t):
    a = agg_variant(t)
    if a and a[0].startswith("std::option::Option") and a[1] == "Some":
        return a[2][0]
    return None


def is_none(t):
    a = agg_variant(t)
    return bool(a and a[0].startswith("std::option::Option") and a[1] == "None")


EQ_CALLEE_MARKERS = ("PartialEq",)


def eq_call(t):
    """If t is a call to some PartialEq::eq / ne, return (negated, lhs, rhs)."""
    if not is_call(t):
        return None
    p = t[1]
    if "PartialEq" not in p:
        return None
    if p.endswith("::eq"):
        return (False, t[3][0], t[3][1])
    if p.endswith("::ne"):
        return (True, t[3][0], t[3][1])
    return None


def str_eq_lit(t):
    """cond term is `x == "lit"` (either side); returns (negated, x, lit)"""
    e = eq_call(t)
    if not e:
        return None
    neg, a, b = e
    sa, sb = const_str(a), const_str(b)
    if sb is not None and sa is None:
        return (neg, a, sb)
    if sa is not None and sb is None:
        return (neg, b, sa)
    return None


def true_str_lits(path):
    """literals L for which the path takes the `x == L` true branch; plus the list tested false"""
    pos, negs = [], []
    for e in path.conds():
        m = str_eq_lit(e.term)
        if not m:
            continue
        neg, x, lit = m
        val = e.fact == ("eq", True)
        if neg:
            val = not val
        (pos if val else negs).append((lit, x))
    return pos, negs


def discr_facts(path):
    """list of (scrutinee term, fact) for conditions on discriminants"""
    out = []
    for e in path.conds():
        t = e.term
        if isinstance(t, tuple) and t[0] == "discr":
            out.append((t[1], e.fact))
    return out


def variant_by_discr(fx, adt_path, value):
    base = adt_path.split("<")[0]
    if base in mir.STD_VARIANTS:
        for k, v in mir.STD_VARIANTS[base].items():
            if v == value:
                return k
        return None
    a = fx.adts.get(base)
    if not a:
        return None
    for v in a["variants"]:
        if v["discr"] == value or (v["discr"] is not None and v["discr"] % (1 << 64) == value):
            return v["name"]
    return None


def enum_variants(fx, adt_path):
    a = fx.adts.get(adt_path)
    return [v["name"] for v in a["variants"]] if a else []


def self_discr_variant(fx, path, adt, scrut_pred=None):
    """Which variant of `adt` does the path's discriminant switch select?  Returns name or
    ('not', [names]) or None when the path does not branch on such a discriminant."""
    res = None
    for (t, fact) in discr_facts(path):
        if scrut_pred and not scrut_pred(t):
            continue
        if fact[0] == "eq":
            n = variant_by_discr(fx, adt, fact[1])
            if n is not None:
                res = n
        else:
            names = [variant_by_discr(fx, adt, v) for v in fact[1]]
            if res is None:
                res = ("not", names)
    return res


def fmt_literal_writes(path):
    """String literals written with write!(f, "LIT") on this path (Arguments::from_str or write_str)."""
    out = []
    for e in path.events:
        if e.kind != "call":
            continue
        if e.path.endswith("Arguments::<'a>::from_str") or e.path.endswith("::from_str") and "fmt::Arguments" in e.path:
            s = const_str(e.args[0])
            if s is not None:
                out.append(s)
        elif e.path.endswith("Formatter::<'a>::write_str") or e.path.endswith("::write_str"):
            s = const_str(e.args[-1])
            if s is not None:
                out.append(s)
    return out


def ret_paths(paths):
    return [p for p in paths if p.end[0] == "return"]


def span_of(body, bb):
    return body.span_of(bb)


def fn_span(body):
    sp = body.f["span"]
    return "%s:%d" % (sp["file"], sp["line"])


def block_path(body, path, limit=12):
    """diagnostic rendering of a path: spans of the blocks at the branch points"""
    out = []
    for e in path.events:
        if e.kind == "cond":
            out.append("%s: %s %s" % (body.span_of(e.bb), term_str(e.term), e.fact))
    return out[-limit:]


# ----------------------------------------------------------- format sites (AST)

def fmt_sites_in(fx, body):
    """format-args sites whose template lies inside this body's span (innermost containment is the caller's job)"""
    sp = body.f["span"]
    out = []
    for s in fx.fmt_sites:
        ss = s["span"]
        if ss["file"] != sp["file"]:
            continue
        if (ss["line"], ss["col"]) >= (sp["line"], sp["col"]) and (ss["eline"], ss["ecol"]) <= (sp["eline"], sp["ecol"]):
            out.append(s)
    return out


def fmt_template(site):
    """('lit'|'ph', ...) list and a compact string form like '{} ({}) = {}\\n'"""
    s = ""
    for p in site["pieces"]:
        if "lit" in p:
            s += p["lit"].replace("{", "{{").replace("}", "}}")
        else:
            spec_ = ""
            if p["trait"] != "Display":
                spec_ = {"LowerHex": "x", "UpperHex": "X", "Debug": "?", "Octal": "o", "Binary": "b",
                         "LowerExp": "e", "UpperExp": "E", "Pointer": "p"}.get(p["trait"], p["trait"])
            opts = ""
            if p.get("fill"):
                opts += p["fill"]
            if p.get("align") not in (None, "None"):
                opts += {"Some(Left)": "<", "Some(Right)": ">", "Some(Center)": "^"}.get(p["align"], "")
            if p.get("zero_pad"):
                opts += "0"
            if p.get("width") is not None:
                opts += str(p["width"])
            if p.get("precision") is not None:
                opts += "." + str(p["precision"])
            s += "{%d%s}" % (p["arg"], (":" + opts + spec_) if (opts or spec_) else "")
    return s
