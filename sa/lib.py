"""Shared query helpers for rule modules."""
import json
import os

import mir
from mir import term_str, strip_refs, subterms, mentions

HERE = os.path.dirname(os.path.abspath(__file__))


def spec(name):
    with open(os.path.join(HERE, "spec", name)) as f:
        return json.load(f)


# ------------------------------------------------------------------ term tests

def is_const(t):
    return isinstance(t, tuple) and t and t[0] == "const"


def const_of(t):
    """python value of a constant term (through refs), else None"""
    t = strip_refs(t)
    if is_const(t):
        return t[2]
    return None


def const_str(t):
    v = const_of(t)
    return v if isinstance(v, str) else None


def const_char(t):
    v = const_of(t)
    if isinstance(v, tuple) and v and v[0] == "char":
        return v[1]
    return None


def const_int(t):
    v = const_of(t)
    if isinstance(v, int) and not isinstance(v, bool):
        return v
    return None


def const_bytes(t):
    v = const_of(t)
    if isinstance(v, tuple) and v and v[0] == "bytes":
        return v[1]
    return None


def is_call(t, *names):
    """t is a call term whose callee path ends with / equals one of names"""
    if not (isinstance(t, tuple) and t and t[0] == "call"):
        return False
    if not names:
        return True
    p = t[1]
    q = mir.norm_path(p)
    return any(p == n or p.endswith(n) or q.endswith(n) for n in names)


def call_path(t):
    return t[1] if isinstance(t, tuple) and t and t[0] == "call" else None


def call_args(t):
    return t[3]


def ev_is(e, *names):
    """call event whose callee (raw or generic-stripped path) ends with one of names"""
    return e.kind == "call" and any(e.path.endswith(n) or e.name.endswith(n) for n in names)


def flows_from(path, term, pred):
    """does `term` carry a value satisfying pred, directly or through a store into memory reachable
    from one of its sub-terms (the vec![x] / Box::new idiom writes x through a raw pointer)?"""
    if mentions(term, pred):
        return True
    subs = [s for s in subterms(term) if s[0] == "call"]
    for e in path.events:
        if e.kind == "store" and mentions(e.value, pred):
            if any(mentions(e.place, lambda s, u=u: s == u) for u in subs):
                return True
    return False


def find_calls(t, *names):
    """all call sub-terms of t matching names"""
    return [s for s in subterms(t) if is_call(s, *names)]


def agg_variant(t):
    """(adt, variant, ops) for an ADT aggregate term"""
    if isinstance(t, tuple) and t and t[0] == "agg" and t[1] == "adt":
        return t[2], t[3], t[4]
    return None


def unwrap_ok(t):
    a = agg_variant(t)
    if a and a[0].startswith("std::result::Result") and a[1] == "Ok":
        return a[2][0]
    return None


def unwrap_err(t):
    a = agg_variant(t)
    if a and a[0].startswith("std::result::Result") and a[1] == "Err":
        return a[2][0]
    return None


def unwrap_some(t):
    a = agg_variant(t)
    if a and a[0].startswith("std::option::Option") and a[1] == "Some":
        return a[2][0]
    return None


def is_none(t):
    a = agg_variant(t)
    return bool(a and a[0].startswith("std::option::Option") and a[1] == "None")


EQ_CALLEE_MARKERS = ("PartialEq",)


def eq_call(t):
    """If t is a call to some PartialEq::eq / ne, return (negated, lhs, rhs)."""
    if not is_call(t):
        return None
    p = t[1]
    if "PartialEq" not in p:
        return None
    if p.endswith("::eq"):
        return (False, t[3][0], t[3][1])
    if p.endswith("::ne"):
        return (True, t[3][0], t[3][1])
    return None


def deval(t):
    """the value behind any number of references / dereferences (comparing two `&i64` compares the integers)"""
    for _ in range(8):
        if isinstance(t, tuple) and t and t[0] in ("ref", "refmut", "deref"):
            t = t[1]
        else:
            break
    return t


def inequality_fact(c):
    """(a, b, unequal) if the path condition says that the values a and b are unequal / equal, however the test is spelled:
    `a != b`, `a == b` (either outcome), on values or through references (PartialEq for &A)"""
    t = c.term
    if not (c.fact[0] == "eq" and isinstance(c.fact[1], bool)):
        return None
    if isinstance(t, tuple) and t and t[0] == "binop" and t[1] in ("Eq", "Ne"):
        return (deval(t[2]), deval(t[3]), c.fact[1] == (t[1] == "Ne"))
    e = eq_call(t)
    if e is not None:
        return (deval(e[1]), deval(e[2]), c.fact[1] == e[0])
    return None


def eq_self_type(t):
    """textual type(s) compared by a PartialEq call term: callee path plus its generic arguments"""
    return t[1] + " " + " ".join(t[2]) if is_call(t) else ""


def contains_facts(ctx, p, subject=("param", 1)):
    """[(set of characters, truth)] for the conditions `subject.contains(c)` / `subject.contains([c1, c2, ..])` on a path:
    the subject contains at least one of the characters (truth) / none of them"""
    out = []
    for c in p.conds():
        if is_call(c.term, "str>::contains") and strip_refs(call_args(c.term)[0]) == subject and c.fact[0] == "eq" and isinstance(c.fact[1], bool):
            pat = strip_refs(resolve_promoted(ctx, strip_refs(call_args(c.term)[1])))
            if isinstance(pat, tuple) and pat[:2] == ("agg", "array"):
                chs = [const_char(x) for x in pat[4]]
            else:
                chs = [const_char(pat) or const_str(pat)]
            out.append((frozenset(chs), c.fact[1]))
    return out


def asserts_eq_const(c):
    """(x, k) if the path condition says that the integer term x equals the constant k, however the test is spelled:
    `x == k` taken, `x != k` not taken (either operand order), or the arm k of `match x`"""
    t = c.term
    if isinstance(t, tuple) and t and t[0] == "binop" and t[1] in ("Eq", "Ne") and c.fact[0] == "eq" and isinstance(c.fact[1], bool):
        if (c.fact[1] is True) != (t[1] == "Eq"):
            return None
        if const_int(t[3]) is not None and const_int(t[2]) is None:
            return (t[2], const_int(t[3]))
        if const_int(t[2]) is not None and const_int(t[3]) is None:
            return (t[3], const_int(t[2]))
        return None
    if isinstance(t, tuple) and t and t[0] in ("havoc", "mutated", "param", "field", "loc", "deref", "index") and c.fact[0] == "eq" and isinstance(c.fact[1], int) and not isinstance(c.fact[1], bool):
        return (t, c.fact[1])
    return None


def str_eq_lit(t):
    """cond term is `x == "lit"` (either side); returns (negated, x, lit)"""
    e = eq_call(t)
    if not e:
        return None
    neg, a, b = e
    sa, sb = const_str(a), const_str(b)
    if sb is not None and sa is None:
        return (neg, a, sb)
    if sa is not None and sb is None:
        return (neg, b, sa)
    return None


def true_str_lits(path):
    """literals L for which the path takes the `x == L` true branch; plus the list tested false"""
    pos, negs = [], []
    for e in path.conds():
        m = str_eq_lit(e.term)
        if not m:
            continue
        neg, x, lit = m
        val = e.fact == ("eq", True)
        if neg:
            val = not val
        # `s.strip_prefix(P)? == "REST"` is `s == P + "REST"` (and the same for a stripped suffix): report the full literal against s
        xs = strip_refs(x)
        for _ in range(3):
            if isinstance(xs, tuple) and xs and xs[0] == "field" and xs[2] == 0 and isinstance(xs[1], tuple) and xs[1][0] == "downcast" and xs[1][2] in ("Some", "Continue"):
                src = strip_refs(xs[1][1])
                if xs[1][2] == "Continue" and is_call(src, "Try>::branch"):
                    src = strip_refs(call_args(src)[0])
                if is_call(src, "str>::strip_prefix", "str>::strip_suffix") and len(call_args(src)) == 2:
                    fix = const_char(call_args(src)[1]) if const_char(call_args(src)[1]) is not None else const_str(call_args(src)[1])
                    if fix is not None:
                        lit = (fix + lit) if is_call(src, "str>::strip_prefix") else (lit + fix)
                        x = call_args(src)[0]
                        xs = strip_refs(x)
                        continue
            break
        (pos if val else negs).append((lit, x))
    return pos, negs


def discr_facts(path):
    """list of (scrutinee term, fact) for conditions on discriminants"""
    out = []
    for e in path.conds():
        t = e.term
        if isinstance(t, tuple) and t[0] == "discr":
            out.append((t[1], e.fact))
    return out


def variant_by_discr(fx, adt_path, value):
    base = adt_path.split("<")[0]
    if base in mir.STD_VARIANTS:
        for k, v in mir.STD_VARIANTS[base].items():
            if v == value:
                return k
        return None
    a = fx.adts.get(base)
    if not a:
        return None
    for v in a["variants"]:
        if v["discr"] == value or (v["discr"] is not None and v["discr"] % (1 << 64) == value):
            return v["name"]
    return None


def enum_variants(fx, adt_path):
    a = fx.adts.get(adt_path)
    return [v["name"] for v in a["variants"]] if a else []


def self_discr_variant(fx, path, adt, scrut_pred=None):
    """Which variant of `adt` does the path's discriminant switch select?  Returns name or
    ('not', [names]) or None when the path does not branch on such a discriminant."""
    res = None
    for (t, fact) in discr_facts(path):
        if scrut_pred and not scrut_pred(t):
            continue
        if fact[0] == "eq":
            n = variant_by_discr(fx, adt, fact[1])
            if n is not None:
                res = n
        else:
            names = [variant_by_discr(fx, adt, v) for v in fact[1]]
            if res is None:
                res = ("not", names)
    return res


def fmt_literal_writes(path):
    """String literals written with write!(f, "LIT") on this path (Arguments::from_str or write_str)."""
    out = []
    for e in path.events:
        if e.kind != "call":
            continue
        if e.path.endswith("Arguments::<'a>::from_str") or e.path.endswith("::from_str") and "fmt::Arguments" in e.path:
            s = const_str(e.args[0])
            if s is not None:
                out.append(s)
        elif e.path.endswith("Formatter::<'a>::write_str") or e.path.endswith("::write_str"):
            s = const_str(e.args[-1])
            if s is not None:
                out.append(s)
    return out


def ret_paths(paths):
    return [p for p in paths if p.end[0] == "return"]


def span_of(body, bb):
    return body.span_of(bb)


def fn_span(body):
    sp = body.f["span"]
    return "%s:%d" % (sp["file"], sp["line"])


def block_path(body, path, limit=12):
    """diagnostic rendering of a path: spans of the blocks at the branch points"""
    out = []
    for e in path.events:
        if e.kind == "cond":
            out.append("%s: %s %s" % (body.span_of(e.bb), term_str(e.term), e.fact))
    return out[-limit:]


# ----------------------------------------------------------- format sites (AST)

def fmt_sites_in(fx, body):
    """format-args sites whose template lies inside this body's span (innermost containment is the caller's job)"""
    sp = body.f["span"]
    out = []
    for s in fx.fmt_sites:
        ss = s["span"]
        if ss["file"] != sp["file"]:
            continue
        if (ss["line"], ss["col"]) >= (sp["line"], sp["col"]) and (ss["eline"], ss["ecol"]) <= (sp["eline"], sp["ecol"]):
            out.append(s)
    return out


def fmt_template(site):
    """('lit'|'ph', ...) list and a compact string form like '{} ({}) = {}\\n'"""
    s = ""
    for p in site["pieces"]:
        if "lit" in p:
            s += p["lit"].replace("{", "{{").replace("}", "}}")
        else:
            spec_ = ""
            if p["trait"] != "Display":
                spec_ = {"LowerHex": "x", "UpperHex": "X", "Debug": "?", "Octal": "o", "Binary": "b",
                         "LowerExp": "e", "UpperExp": "E", "Pointer": "p"}.get(p["trait"], p["trait"])
            opts = ""
            if p.get("fill"):
                opts += p["fill"]
            if p.get("align") not in (None, "None"):
                opts += {"Some(Left)": "<", "Some(Right)": ">", "Some(Center)": "^"}.get(p["align"], "")
            if p.get("zero_pad"):
                opts += "0"
            if p.get("width") is not None:
                opts += str(p["width"])
            if p.get("precision") is not None:
                opts += "." + str(p["precision"])
            s += "{%d%s}" % (p["arg"], (":" + opts + spec_) if (opts or spec_) else "")
    return s


def errprop(ctx, fn, paths, body, rule="D3-ERRPROP", no_effects_after_error=("::update", "::finalize"), floor=1, skip=()):
    """Every Result produced by a call reaches Try::branch whose Break edge returns the residual (or is returned)."""
    n = 0
    seen = set()
    # iterator adapters that silently discard Err items: .map_while(Result::ok) / .filter_map(Result::ok) / .flat_map(Result::ok) / .flatten() over io::Lines / io::Split
    swallowed = set()
    for p in paths:
        for e in p.events:
            if e.kind != "call" or e.bb in swallowed:
                continue
            last = e.name.split("::")[-1]
            fnargs = [a for a in e.args if isinstance(a, tuple) and a[0] == "const" and isinstance(a[2], tuple) and a[2][0] == "fn" and mir.norm_path(a[2][1]).endswith("Result::ok")]
            if last in ("map_while", "filter_map", "flat_map", "map", "take_while", "scan") and fnargs:
                swallowed.add(e.bb)
                ctx.violation(rule, fn, "adapter=%s(Result::ok)" % last, "the iterator's Err items are discarded by .%s(Result::ok): an error ends or thins the stream silently instead of being returned" % last, body.span_of(e.bb))
            elif last == "flatten" and ("std::io::Lines" in e.full or "std::io::Split" in e.full or "Result<" in e.full.split(" as ")[0]):
                swallowed.add(e.bb)
                ctx.violation(rule, fn, "adapter=flatten", "flatten() over an iterator of Results drops every Err item silently", body.span_of(e.bb))
    for p in paths:
        for idx, e in enumerate(p.events):
            if e.kind != "call":
                continue
            dty = e.dest["ty"]
            if not (dty.startswith("std::result::Result<") or dty.startswith("std::option::Option<std::result::Result<")):
                continue
            if "Try>::branch" in e.path or "FromResidual" in e.path:
                continue
            if e.diverges or any(e.path.endswith(x) or x in e.path for x in skip):
                continue
            n += 1
            later = p.events[idx + 1:]
            R = e.term
            uses = [x for x in later if x.kind == "call" and any(mentions(a, lambda s: s == R) for a in x.args)]
            returned = p.end[0] == "return" and mentions(p.end[1], lambda s: s == R)
            br = [x for x in uses if "Try>::branch" in x.path]
            sink = [x for x in uses if x.path.split("::")[-1] in ("ok", "unwrap_or", "unwrap_or_default", "unwrap_or_else", "is_ok", "is_err", "err", "unwrap", "expect", "flatten", "filter_map", "map_while")
                    and ("Result" in x.path or "Option" in x.path or "Iterator" in x.path)
                    and any(strip_refs(a) == R or (isinstance(strip_refs(a), tuple) and strip_refs(a)[0] == "field" and strip_refs(a)[1] == ("downcast", R, "Some")) for a in x.args)]
            inst = "%s@%s" % (e.path.split("::")[-1], "result")
            key = (e.bb,)
            opt = dty.startswith("std::option::Option<")

            def is_result_term(t):
                if not opt:
                    return t == R
                return isinstance(t, tuple) and t[0] == "field" and t[1] == ("downcast", R, "Some")
            condd = [c for c in later if c.kind == "cond" and c.term[0] == "discr" and is_result_term(c.term[1])]
            if opt and any(c.kind == "cond" and c.term == ("discr", R) and c.fact == ("eq", 0) for c in later):
                continue  # iterator exhausted: there is no Result to inspect
            if sink:
                ctx.violation(rule, fn, "call=%s" % e.path, "Result of %s is discarded through %s" % (e.path, sink[0].path), body.span_of(e.bb))
                continue
            if br:
                B = br[0].term
                brk = [c for c in later if c.kind == "cond" and c.term == ("discr", B)]
                if brk and brk[0].fact == ("eq", 1):
                    after = [x for x in later if x.kind == "call" and x.bb != brk[0].bb and later.index(x) > later.index(brk[0])]
                    okres = p.end[0] == "return" and bool(find_calls(p.end[1], "from_residual"))
                    feeding = [x for x in after if any(x.path.endswith(sfx) for sfx in no_effects_after_error)]
                    if key not in seen:
                        seen.add(key)
                    ctx.check(okres and not feeding, rule, fn, "call=%s:err-edge" % e.path,
                              "Err edge returns the converted error, nothing hashed after it",
                              "on the Err edge of %s the function %s" % (e.path, "continues hashing" if feeding else "does not return the error"),
                              body.span_of(e.bb))
                continue
            if condd:
                # matched by hand: the Err arm must return an error
                c0 = condd[0]
                is_err_edge = c0.fact == ("eq", 1) or (c0.fact[0] == "ne" and 0 in c0.fact[1] and 1 not in c0.fact[1])
                if is_err_edge:
                    okres = p.end[0] == "return" and (unwrap_err(p.end[1]) is not None or bool(find_calls(p.end[1], "from_residual")))
                    ctx.check(okres, rule, fn, "call=%s:err-arm" % e.path, "hand-written Err arm returns an error",
                              "the Err arm of the match on the result of %s does not return an error (path ends: %s)" % (e.path, p.end[0]),
                              body.span_of(c0.bb))
                continue
            if returned:
                continue
            if p.end[0] in ("back", "return") and not uses:
                # the path ends without the result ever being inspected
                ctx.violation(rule, fn, "call=%s" % e.path, "Result of %s is never inspected on a path (dropped)" % e.path, body.span_of(e.bb))
    ctx.floor(rule, fn, "result-producing call instances", n, floor)




def resolve_promoted(ctx, t):
    """value returned by a promoted constant body"""
    v = const_of(t)
    if isinstance(v, tuple) and v and v[0] == "promoted":
        key = "%s::promoted[%d]" % (v[1], v[2])
        ps = ctx.paths(key)
        if ps:
            return ps[0].end[1]
    return t




# ------------------------------------------------------------ string splitting

SPLIT_APIS = {
    # api name -> (searches from, bounded)
    "splitn": "first", "split_once": "first", "find": "first", "split": "all",
    "rsplitn": "last", "rsplit_once": "last", "rfind": "last", "rsplit": "all-rev",
    "split_terminator": "all", "split_whitespace": "all",
}


def _api_name(t):
    return mir.norm_path(t[1]).split("::")[-1]


def split_part(term):
    """Recognise `one part of a string split`.  Returns dict(api, subject, n, sep, index, split) or None.
       idioms: index(collect(S.splitn(n, sep)), i) ; S.split_once(sep)?.i ; same for rsplitn / rsplit_once."""
    t = strip_refs(term)
    # Vec index idiom
    if is_call(t, "ops::Index>::index", "Index<usize>>::index"):
        a = call_args(t)
        vec, idx = strip_refs(a[0]), const_int(a[1])
        if is_call(vec, "::collect"):
            src = strip_refs(call_args(vec)[0])
            if is_call(src) and "str>::" in mir.norm_path(src[1]) or is_call(src, "str>::splitn", "str>::rsplitn", "str>::split", "str>::rsplit"):
                api = _api_name(src)
                if api in ("splitn", "rsplitn"):
                    sa = call_args(src)
                    return dict(api=api, subject=strip_refs(sa[0]), n=const_int(sa[1]), sep=const_char(sa[2]) or const_str(sa[2]), index=idx, split=src, vec=vec)
                if api in ("split", "rsplit"):
                    sa = call_args(src)
                    return dict(api=api, subject=strip_refs(sa[0]), n=None, sep=const_char(sa[1]) or const_str(sa[1]), index=idx, split=src, vec=vec)
        return None
    # split_at(find-result) idiom: s.split_at(i).k with i = s.rfind(sep)? (+1)
    if isinstance(t, tuple) and t[0] == "field" and is_call(strip_refs(t[1]), "str>::split_at"):
        sa = call_args(strip_refs(t[1]))
        subj = strip_refs(sa[0])
        idx = sa[1]
        off = 0
        if isinstance(idx, tuple) and idx[0] == "binop" and idx[1] == "Add" and const_int(idx[3]) is not None:
            off = const_int(idx[3])
            idx = idx[2]
        if isinstance(idx, tuple) and idx[0] == "field" and isinstance(idx[1], tuple) and idx[1][0] == "downcast" and idx[1][2] == "Some":
            src = strip_refs(idx[1][1])
            if is_call(src, "str>::rfind", "str>::find"):
                fa = call_args(src)
                return dict(api=_api_name(src), subject=strip_refs(fa[0]), n=None, sep=const_char(fa[1]) or const_str(fa[1]),
                            index=t[2], split=src, vec=None, offset=off, at_subject=subj)
        return None
    # s.rsplit_once(sep).unwrap_or((whole, "")).i
    if isinstance(t, tuple) and t[0] == "field" and is_call(strip_refs(t[1]), "Option::unwrap_or", "Option::unwrap_or_default", "Option::unwrap_or_else"):
        u = strip_refs(t[1])
        src = strip_refs(call_args(u)[0])
        if is_call(src, "str>::split_once", "str>::rsplit_once"):
            sa = call_args(src)
            return dict(api=_api_name(src), subject=strip_refs(sa[0]), n=None, sep=const_char(sa[1]) or const_str(sa[1]), index=t[2], split=src, vec=None,
                        default=call_args(u)[1] if len(call_args(u)) > 1 else None)
        return None
    # tuple-of-Option idiom
    if isinstance(t, tuple) and t[0] == "field" and isinstance(t[1], tuple) and t[1][0] == "field" and t[1][2] == 0 \
            and isinstance(t[1][1], tuple) and t[1][1][0] == "downcast" and t[1][1][2] == "Some":
        src = strip_refs(t[1][1][1])
        if is_call(src, "str>::split_once", "str>::rsplit_once"):
            sa = call_args(src)
            return dict(api=_api_name(src), subject=strip_refs(sa[0]), n=None, sep=const_char(sa[1]) or const_str(sa[1]), index=t[2], split=src, vec=None)
    return None


def part_role(sp):
    """'prefix' or 'suffix' of the subject for a two-way split part"""
    api, i = sp["api"], sp["index"]
    if api in ("splitn", "split_once"):
        return "prefix" if i == 0 else "suffix"
    if api == "rsplit_once":
        return "prefix" if i == 0 else "suffix"
    if api == "rsplitn":
        return "suffix" if i == 0 else "prefix"
    if api in ("rfind", "find"):
        if sp.get("at_subject") != sp["subject"]:
            return "other"
        if i == 0 and sp.get("offset") == 0:
            return "prefix"
        if i == 1 and sp.get("offset") == len(sp["sep"] or ""):
            return "suffix"
        return "other"
    return None


def occurrence(sp):
    """'first' / 'last' / 'all' : which occurrence of the separator the split uses"""
    api = sp["api"]
    if api in ("splitn",):
        return "first" if sp["n"] == 2 else "other"
    if api in ("rsplitn",):
        return "last" if sp["n"] == 2 else "other"
    return {"split_once": "first", "find": "first", "rsplit_once": "last", "rfind": "last"}.get(api, "all")


def find_split_parts(term):
    """all recognisable split parts inside a term (outermost first)"""
    out = []
    for s in subterms(term):
        sp = split_part(s)
        if sp:
            out.append(sp)
    return out


def fmt_site_for_call(fx, body, bb):
    """the AST format-args site expanded at the same call site as the MIR call in block bb"""
    if isinstance(bb, int) and bb < 0:
        # a call site spliced in from an inlined helper / closure: look the block up in the body it came from
        org = mir.INLINED_SITES.get((body.key, bb))
        if org is None or fx.fn(org[0]) is None or not isinstance(org[1], int) or org[1] < 0:
            return None
        body = mir.Body(fx.fn(org[0]))
        bb = org[1]
    if not (0 <= bb < len(body.blocks)):
        return None
    sp = body.blocks[bb]["tspan"]
    for st in fx.fmt_sites:
        e = st["espan"]
        if (e["file"], e["line"], e["col"], e["eline"], e["ecol"]) == (sp["file"], sp["line"], sp["col"], sp["eline"], sp["ecol"]):
            return st
    return None


def fmt_call_args(t):
    """argument terms of an Arguments::new(...) call term, in array order (inside new_display/new_lower_hex/...)"""
    arr = [s for s in subterms(t) if s[0] == "agg" and s[1] == "array"]
    if not arr:
        return []
    out = []
    for o in arr[0][4]:
        if is_call(o) and "Argument" in o[1]:
            out.append((mir.norm_path(o[1]).split("::")[-1], call_args(o)[0]))
        else:
            out.append(("?", o))
    return out


def loop_chain(body, bb):
    """loop headers containing bb, outermost first"""
    hs = [h for h, blks in body.loops.items() if bb in blks]
    return sorted(hs, key=lambda h: -len(body.loops[h]))


def loop_source_fields(body, header, names):
    """which of the given field names the iterator driving a loop header was created from"""
    t = body.blocks[header]["term"]
    if t["k"] != "call":
        return None
    # find the iterator local and look at how it was initialised (statically, any path)
    return None


def is_index_call(t):
    """<X as Index<_>>::index(...) / impl Index for [T] / str ... (any indexing operator call)"""
    return is_call(t) and mir.norm_path(t[1]).endswith("::index") and "Index" in t[1]


def top_field(t):
    """name of the outermost struct field a borrowed/iterated value was taken from"""
    while isinstance(t, tuple) and t:
        k = t[0]
        if k == "field":
            return t[3]
        if k in ("ref", "refmut", "deref"):
            t = t[1]
        elif k == "loc" and len(t) > 2:
            t = t[2]
        elif k == "havoc" and len(t) > 3:
            t = t[3]
        elif k == "call" and t[3]:
            t = t[3][0]
        elif k == "downcast":
            t = t[1]
        else:
            return None
    return None


def mutators_of(paths, is_target):
    """names of the calls that receive a mutable borrow of the target collection (is_target: predicate on the borrowed place term)"""
    out = {}
    for p in paths:
        for e in p.events:
            if e.kind == "call" and e.args and isinstance(e.args[0], tuple) and e.args[0][0] == "refmut" and is_target(e.args[0][1]):
                out.setdefault(e.name.split("::")[-1], set()).add(e.bb)
    return out


def only_appended(ctx, rule, fn, what, is_target, allowed=("push",), floor=1):
    """the result collection is only ever appended to: no retain/remove/dedup/sort/clear/truncate/insert-at-front ..."""
    paths = ctx.paths(fn)
    body = ctx.body(fn)
    if not paths:
        return
    mu = mutators_of(paths, is_target)
    bad = sorted(k for k in mu if k not in allowed)
    n = sum(len(v) for k, v in mu.items() if k in allowed)
    ctx.check(not bad and n >= floor, rule, fn, "only-appended:" + what, "%s is only appended to (%s)" % (what, sorted(mu)),
              "%s is also modified through %s (or never appended to): results can be dropped, reordered or altered after they were produced" % (what, bad or "nothing"), fn_span(body))


# ---------------------------------------------------------------- faithful accessors

VIEW_CALLS = ("Deref>::deref", "::as_str", "::as_slice", "AsRef", "::as_ref", "Borrow", "::borrow", "Clone>::clone", "Clone for i64>::clone",
              "Index<std::ops::RangeFull>>::index", "::as_path", "::as_os_str", "Option::as_deref", "Option::as_ref", "::as_deref")


def carried_unchanged(t, leaf, extra_views=()):
    """t reaches a subterm satisfying leaf(.) through references, views (deref/as_str/as_slice/..) and re-wrapping of an Option's
    payload, and nothing else: no cast, arithmetic or other call sits between the result and the stored value."""
    t = strip_refs(t)
    for _ in range(12):
        if leaf(t):
            return True
        if is_call(t, *(VIEW_CALLS + tuple(extra_views))) and call_args(t):
            t = strip_refs(call_args(t)[0])
            continue
        if isinstance(t, tuple) and t and t[0] == "deref":
            t = strip_refs(t[1])
            continue
        sm = unwrap_some(t)
        if sm is not None:
            t = strip_refs(sm)
            continue
        if isinstance(t, tuple) and t and t[0] == "field" and t[2] == 0 and isinstance(t[1], tuple) and t[1][0] == "downcast" and t[1][2] == "Some":
            t = strip_refs(t[1][1])
            continue
        return False
    return False


def accessor_faithful(ctx, rule, fn, field, mode="field", key_param=2):
    """A public accessor through which a property is observed hands back what is stored, nothing else:
    mode 'field'  : returns self.<field> through references / views / Option re-wrapping only;
    mode 'values' : returns self.<field>.values().collect() (every stored entry, in map order);
    mode 'get'    : returns self.<field>.get(<its argument>)."""
    ps = ctx.paths(fn)
    body = ctx.body(fn)
    if not ps:
        return

    def is_field(t):
        return isinstance(t, tuple) and t and t[0] == "field" and t[3] == field and strip_refs(t[1]) in (("param", 1), ("deref", ("param", 1)))
    rets = ret_paths(ps)
    ok = bool(rets)
    why = "no returning path"
    for p in rets:
        t = p.end[1]
        if is_none(t):
            # only because the stored Option is None
            if not any(c.term[0] == "discr" and is_field(strip_refs(c.term[1])) and c.fact == ("eq", 0) for c in p.conds()):
                ok, why = False, "returns None although self.%s may hold a value" % field
            continue
        if mode == "field":
            good = carried_unchanged(t, is_field)
        elif mode == "values":
            tt = strip_refs(t)
            good = is_call(tt, "::collect") and is_call(strip_refs(call_args(tt)[0]), "::values") and is_field(strip_refs(call_args(strip_refs(call_args(tt)[0]))[0]))
        elif mode == "get":
            tt = strip_refs(t)
            good = is_call(tt, "::get") and is_field(strip_refs(call_args(tt)[0])) and carried_unchanged(call_args(tt)[1], lambda s: s == ("param", key_param))
        else:
            good = False
        if not good:
            ok, why = False, "returns %s" % term_str(t)[:160]
    want = {"field": "self.%s" % field, "values": "self.%s.values().collect()" % field, "get": "self.%s.get(arg)" % field}[mode]
    ctx.check(ok, rule, fn, "returns-%s" % field, "returns %s unchanged" % want,
              "%s %s; the property is observed through this accessor, which must return %s unchanged" % (fn, why, want), fn_span(body) if body else "")


# ---------------------------------------------------------------- substrings (split idioms in one normal form)

CONTENT_VIEWS = ("::to_string", "String as std::convert::From<&str>>::from", "::to_owned", "Deref>::deref", "::as_str", "AsRef", "::as_ref",
                 "Borrow", "::borrow", "Clone>::clone", "Into<", "::into", "String::as_str", "::as_mut_str", "From<&str>>::from", "From<&String>>::from")
ZERO, LEN = ("zero",), ("len",)


def content(t):
    """strip references and content-preserving conversions (&str <-> String, deref, clone ...)"""
    t = strip_refs(t)
    for _ in range(16):
        if is_call(t, *CONTENT_VIEWS) and call_args(t):
            t = strip_refs(call_args(t)[0])
            continue
        if isinstance(t, tuple) and t and t[0] == "deref":
            t = strip_refs(t[1])
            continue
        break
    return t


def is_empty_str(t):
    t0 = strip_refs(t)
    if is_call(t0, "String::new"):
        return True
    c = content(t)
    return const_str(c) == ""


def _sep(t):
    return const_char(t) if const_char(t) is not None else const_str(t)


def _search_pos(t, subject):
    """position term relative to `subject`: ZERO, LEN, ('const', n), ('find'|'rfind', sep, k)"""
    t = strip_refs(t)
    k = 0
    for _ in range(4):
        if isinstance(t, tuple) and t and t[0] == "binop" and t[1] == "Add" and const_int(t[3]) is not None:
            k += const_int(t[3])
            t = strip_refs(t[2])
        elif isinstance(t, tuple) and t and t[0] == "binop" and t[1] == "Add" and const_int(t[2]) is not None:
            k += const_int(t[2])
            t = strip_refs(t[3])
        else:
            break
    n = const_int(t)
    if n is not None:
        return ZERO if n + k == 0 else ("const", n + k)
    if is_call(t, "::len") and content(call_args(t)[0]) == subject and k == 0:
        return LEN
    if isinstance(t, tuple) and t and t[0] == "field" and t[2] == 0 and isinstance(t[1], tuple) and t[1][0] == "downcast" and t[1][2] in ("Some", "Continue"):
        src = strip_refs(t[1][1])
        if t[1][2] == "Continue":
            # `s.rfind(c)?` : the Continue payload of Try::branch is the Some payload
            if not (is_call(src, "Try>::branch") and "Option<" in src[1]):
                return None
            src = strip_refs(call_args(src)[0])
        if is_call(src, "str>::rfind", "str>::find") and content(call_args(src)[0]) == subject:
            return (_api_name(src), _sep(call_args(src)[1]), k)
    return None


def _addends(t):
    """flatten a sum into its terms"""
    t = strip_refs(t)
    if isinstance(t, tuple) and t and t[0] == "binop" and t[1] == "Add":
        return _addends(t[2]) + _addends(t[3])
    return [t]


def _rebase(sref, subj, rg, depth):
    """index(S, lo..hi) whose bounds are sums containing one position p found by searching S itself: rewritten as a slice of the remainder S[p..],
    with p subtracted from both bounds, and normalised again"""
    kind = rg[1]
    los = _addends(rg[2][0]) if kind in ("Range", "RangeFrom") else []
    his = _addends(rg[2][1 if kind == "Range" else 0]) if kind in ("Range", "RangeTo") else []

    def is_base(x):
        return _search_pos(x, subj) is not None and _search_pos(x, subj) not in (ZERO, LEN) and _search_pos(x, subj)[0] in ("find", "rfind") and _search_pos(x, subj)[2] == 0
    bases = [x for x in los + his if is_base(x)]
    if not bases:
        return None
    P = bases[0]
    if kind in ("Range", "RangeFrom") and P not in los:
        return None
    if kind in ("Range", "RangeTo") and his and P not in his:
        return None

    def minus(parts):
        rest = list(parts)
        rest.remove(P)
        if not rest:
            return ("const", "usize", 0)
        t = rest[0]
        for x in rest[1:]:
            t = ("binop", "Add", t, x)
        return t
    rem = ("call", "core::str::traits::<impl std::ops::Index<I> for str>::index", ("std::ops::RangeFrom<usize>",),
           (sref, ("agg", "adt", "std::ops::RangeFrom", "RangeFrom", (P,), ("start",))), None)
    if kind == "RangeFrom":
        new_rg = ("agg", "adt", "std::ops::RangeFrom", "RangeFrom", (minus(los),), ("start",))
    elif kind == "RangeTo":
        new_rg = ("agg", "adt", "std::ops::RangeTo", "RangeTo", (minus(his),), ("end",))
    else:
        new_rg = ("agg", "adt", "std::ops::Range", "Range", (minus(los), minus(his)), ("start", "end"))
    synth = ("call", "core::str::traits::<impl std::ops::Index<I> for str>::index", ("std::ops::Range<usize>",), (rem, new_rg), None)
    return substr(synth, depth + 1)


def _compose(inner, outer):
    """outer = (start, end) relative to the substring inner = (S, start, end)"""
    S, a, b = inner
    os_, oe = outer
    if a == ZERO and b == LEN:
        return (S, os_, oe)

    def shift(pos, by):
        if by == ZERO:
            return pos
        if by[0] == "const":
            if pos == ZERO:
                return by
            if pos[0] == "const":
                return ("const", pos[1] + by[1])
            if pos[0] in ("find", "rfind"):
                return (pos[0], pos[1], pos[2] + by[1])
        return None
    st = shift(a, os_) if os_ == ZERO or os_[0] == "const" else None
    if oe == LEN:
        en = b
    elif oe == ZERO or oe[0] == "const":
        en = shift(a, oe)
    else:
        en = None
    if st is None or en is None:
        return None
    return (S, st, en)


def substr(term, depth=0):
    """(subject, start, end): `term` denotes subject[start..end], positions relative to the subject; None if it is not a recognisable
    substring.  All the two-way split idioms normalise to this: rsplit_once / split_once parts, rfind|find + split_at, slicing with
    ranges built from a search result (+ constant), indexed rsplitn(2)/splitn(2) collections, and slices of such parts."""
    if depth > 6:
        return None
    t = content(term)
    if not isinstance(t, tuple) or not t:
        return None
    # (S.rsplit_once(sep) as Some).0.i
    if t[0] == "field" and isinstance(t[1], tuple) and t[1] and t[1][0] == "field" and t[1][2] == 0 and isinstance(t[1][1], tuple) and t[1][1][0] == "downcast" and t[1][1][2] == "Some":
        src = strip_refs(t[1][1][1])
        if is_call(src, "str>::split_once", "str>::rsplit_once"):
            S = content(call_args(src)[0])
            sep = _sep(call_args(src)[1])
            how = "rfind" if _api_name(src) == "rsplit_once" else "find"
            if sep is not None:
                inner = (S, ZERO, (how, sep, 0)) if t[2] == 0 else (S, (how, sep, len(sep.encode("utf-8"))), LEN)
                return inner
    # S.split_at(pos).i
    if t[0] == "field" and is_call(strip_refs(t[1]), "str>::split_at", "[T]>::split_at"):
        sa = call_args(strip_refs(t[1]))
        base = substr(sa[0], depth + 1) or (content(sa[0]), ZERO, LEN)
        pos = _search_pos(sa[1], content(sa[0]))
        if pos is not None:
            if pos == ZERO or pos[0] == "const":
                return _compose(base, (ZERO, pos) if t[2] == 0 else (pos, LEN))
            return (content(sa[0]), ZERO, pos) if t[2] == 0 else (content(sa[0]), pos, LEN)
        return None
    # S[a..b]
    if is_index_call(t):
        a = call_args(t)
        rg = agg_variant(a[1])
        if rg and rg[1] in ("Range", "RangeFrom", "RangeTo", "RangeFull"):
            subj = content(a[0])
            base = substr(a[0], depth + 1) or (subj, ZERO, LEN)
            lo = _search_pos(rg[2][0], subj) if rg[1] in ("Range", "RangeFrom") else ZERO
            hi = _search_pos(rg[2][1 if rg[1] == "Range" else 0], subj) if rg[1] in ("Range", "RangeTo") else LEN
            if (lo is None or hi is None) and depth < 5:
                # absolute positions computed by hand: S[p + a .. p + S[p..].find(sep) + b] is the part [a .. find(sep) + b] of the remainder S[p..]
                rb = _rebase(a[0], subj, rg, depth)
                if rb is not None:
                    return rb
            if lo is not None and hi is None and rg[1] in ("Range", "RangeTo") and (lo == ZERO or lo[0] == "const"):
                # part[c1 .. part.len() - c2] of a part that ends at a searched position: the end moves back by c2
                h = strip_refs(rg[2][1 if rg[1] == "Range" else 0])
                if isinstance(h, tuple) and h and h[0] == "binop" and h[1] == "Sub" and const_int(h[3]) is not None and is_call(strip_refs(h[2]), "::len") \
                        and content(call_args(strip_refs(h[2]))[0]) == subj and base[2] != LEN and isinstance(base[2], tuple) and base[2][0] in ("find", "rfind"):
                    S0, a0, b0 = base
                    st = a0 if lo == ZERO else (lo if a0 == ZERO else (("const", a0[1] + lo[1]) if a0[0] == "const" else ((a0[0], a0[1], a0[2] + lo[1]) if a0[0] in ("find", "rfind") else None)))
                    if st is not None:
                        return (S0, st, (b0[0], b0[1], b0[2] - const_int(h[3])))
            if lo is not None and hi is not None:
                if all(x in (ZERO, LEN) or x[0] == "const" for x in (lo, hi)):
                    return _compose(base, (lo, hi))      # a pure offset into a part: still a part of the outer subject
                return (subj, lo, hi)                    # positions found by searching the immediate subject
            return None
        # v[i] with v = S.rsplitn(2, sep).collect() / S.splitn(2, sep).collect()
        idx = const_int(a[1])
        vec = strip_refs(a[0])
        if idx is not None and is_call(vec, "::collect"):
            src = strip_refs(call_args(vec)[0])
            if is_call(src, "str>::splitn", "str>::rsplitn") and const_int(call_args(src)[1]) == 2:
                S = content(call_args(src)[0])
                sep = _sep(call_args(src)[2])
                if sep is not None and idx in (0, 1):
                    if _api_name(src) == "rsplitn":
                        return (S, ("rfind", sep, len(sep.encode("utf-8"))), LEN) if idx == 0 else (S, ZERO, ("rfind", sep, 0))
                    return (S, ZERO, ("find", sep, 0)) if idx == 0 else (S, ("find", sep, len(sep.encode("utf-8"))), LEN)
    return None


def substr_role(ss):
    """('prefix'|'suffix'|'whole'|'other', how, sep): which side of which occurrence of which separator"""
    if ss is None:
        return ("none", None, None)
    S, a, b = ss
    if a == ZERO and b == LEN:
        return ("whole", None, None)
    if a == ZERO and isinstance(b, tuple) and b[0] in ("find", "rfind") and b[2] == 0:
        return ("prefix", b[0], b[1])
    if b == LEN and isinstance(a, tuple) and a[0] in ("find", "rfind") and a[1] is not None and a[2] == len(a[1].encode("utf-8")):
        return ("suffix", a[0], a[1])
    return ("other", None, None)


def search_outcome(p, subject_pred, sep):
    """did the path assume that `sep` occurs in the subject?  True / False / None (no such condition on the path).
    Recognised tests: discr(S.rsplit_once|split_once|rfind|find(sep)), len(S.rsplitn|splitn(2, sep).collect()) == 2, S.contains(sep)."""
    res = None
    for c in p.conds():
        t = c.term
        if isinstance(t, tuple) and t and t[0] == "discr" and is_call(strip_refs(t[1]), "str>::rsplit_once", "str>::split_once", "str>::rfind", "str>::find"):
            src = strip_refs(t[1])
            if _sep(call_args(src)[1]) == sep and subject_pred(content(call_args(src)[0])):
                if c.fact[0] == "eq":
                    res = c.fact[1] == 1
                elif 1 in c.fact[1]:
                    res = False
                elif 0 in c.fact[1]:
                    res = True
        elif isinstance(t, tuple) and t and t[0] == "binop" and t[1] in ("Eq", "Ne") and const_int(t[3]) == 2 and is_call(strip_refs(t[2]), "::len"):
            v = strip_refs(call_args(strip_refs(t[2]))[0])
            if is_call(v, "::collect"):
                src = strip_refs(call_args(v)[0])
                if is_call(src, "str>::splitn", "str>::rsplitn") and const_int(call_args(src)[1]) == 2 and _sep(call_args(src)[2]) == sep and subject_pred(content(call_args(src)[0])):
                    res = (c.fact == ("eq", True)) == (t[1] == "Eq")
        elif is_call(t, "str>::contains") and _sep(call_args(t)[1]) == sep and subject_pred(content(call_args(t)[0])):
            res = c.fact == ("eq", True)
    return res


def substr_in_bounds(ss):
    """the slice subject[start..end] cannot be out of range or off a character boundary: each end is 0, len, or a position found by
    searching that same subject for a non-empty separator, moved by nothing or by exactly the separator's UTF-8 length; and not two
    different searched positions (their order is unknown)"""
    if ss is None:
        return False
    S, a, b = ss

    def ok(pos):
        if pos in (ZERO, LEN):
            return True
        return isinstance(pos, tuple) and pos[0] in ("find", "rfind") and bool(pos[1]) and pos[2] in (0, len(pos[1].encode("utf-8")))
    if not (ok(a) and ok(b)):
        return False
    searched = [x for x in (a, b) if x not in (ZERO, LEN)]
    return len(searched) <= 1


def split_bool_returns(paths):
    """returning paths of a bool function with every non-constant result split into its two outcomes: `a && b` written as an
    expression returns b itself on the path where a held; that path stands for (b true -> true) and (b false -> false)"""
    out = []
    for p in ret_paths(paths or []):
        v = p.end[1]
        if const_of(v) in (True, False):
            out.append(p)
            continue
        flip = False
        c = v
        while isinstance(c, tuple) and c and c[0] == "unop" and c[1] == "Not":
            c = c[2]
            flip = not flip
        for truth in (True, False):
            ev = mir.Event("cond", p.blocks[-1] if p.blocks else 0, term=c, fact=("eq", truth != flip))
            out.append(mir.Path(list(p.blocks), list(p.events) + [ev], ("return", ("const", "bool", truth)), p.env, p.facts))
    return out


def has_try(t):
    """the term contains the success payload of a fallible call: `x?` in MIR form ((Try::branch(x) as Continue).0) or in the evaluated
    form ((x as Ok).0 / (x as Some).0 on the path where x succeeded).  What happens on the failure path is ERRPROP's business."""
    if find_calls(t, "Try>::branch"):
        return True
    return mentions(t, lambda s: s[0] == "downcast" and s[2] in ("Ok", "Some") and is_call(strip_refs(s[1])))


def is_propagated_err(t):
    """the returned value re-raises a callee's failure: `callee(..)?` in MIR form (from_residual(..)) or evaluated
    (Err(.. (callee(..) as Err).0 ..)); as opposed to an error the function constructs itself"""
    if find_calls(t, "from_residual"):
        return True
    e = unwrap_err(t)
    return e is not None and mentions(e, lambda s: s[0] == "downcast" and s[2] == "Err" and is_call(strip_refs(s[1])))


# ---------------------------------------------------------------- collections: one form for v.len() / v[i] however they are written

COLL_VIEWS = ("::as_slice", "Deref>::deref", "AsRef", "::as_ref", "Borrow", "::borrow", "::as_mut_slice", "DerefMut>::deref_mut")


def coll(t):
    """the collection behind a slice view: strips references, derefs and as_slice()/deref() views"""
    t = strip_refs(t)
    for _ in range(8):
        if is_call(t, *COLL_VIEWS) and call_args(t):
            t = strip_refs(call_args(t)[0])
        elif isinstance(t, tuple) and t and t[0] == "deref":
            t = strip_refs(t[1])
        elif is_index_call(t) and len(call_args(t)) == 2 and agg_variant(call_args(t)[1]) and agg_variant(call_args(t)[1])[1] in ("Range", "RangeFrom", "RangeTo", "RangeFull") \
                and canon_range(call_args(t)[0], call_args(t)[1]) is not None and const_int(strip_refs(canon_range(call_args(t)[0], call_args(t)[1])[0])) == 0 \
                and canon_range(call_args(t)[0], call_args(t)[1])[1] == LEN:
            t = strip_refs(call_args(t)[0])          # x[0..x.len()], x[..]: the whole of x
        else:
            break
    return t


def length_of(t):
    """the collection whose length t is: v.len(), slice length metadata (PtrMetadata, from slice patterns); else None"""
    t = strip_refs(t)
    if is_call(t, "::len") and call_args(t):
        return coll(call_args(t)[0])
    if isinstance(t, tuple) and t and t[0] == "unop" and t[1] == "PtrMetadata":
        return coll(t[2])
    return None


def length_fact(c):
    """(collection, allowed) for a path condition that constrains a length: allowed(n) -> bool says whether length n is consistent with it.
    Forms: switch on v.len(); v.len() ==/!=/</<=/>/>= k (either operand order); slice-pattern length tests."""
    t = c.term
    lc = length_of(t)
    if lc is not None:
        if c.fact[0] == "eq":
            return lc, (lambda n, v=c.fact[1]: n == v)
        return lc, (lambda n, vs=c.fact[1]: n not in vs)
    if isinstance(t, tuple) and t and t[0] == "binop" and t[1] in ("Eq", "Ne", "Lt", "Le", "Gt", "Ge"):
        op, a, b = t[1], t[2], t[3]
        if length_of(a) is None and length_of(b) is not None and const_int(a) is not None:
            a, b = b, a
            op = {"Lt": "Gt", "Le": "Ge", "Gt": "Lt", "Ge": "Le"}.get(op, op)
        lc, k = length_of(a), const_int(b)
        if lc is not None and k is not None and c.fact[0] == "eq" and isinstance(c.fact[1], bool):
            f = {"Eq": lambda n: n == k, "Ne": lambda n: n != k, "Lt": lambda n: n < k, "Le": lambda n: n <= k, "Gt": lambda n: n > k, "Ge": lambda n: n >= k}[op]
            return lc, (f if c.fact[1] else (lambda n, f=f: not f(n)))
    return None


def element_of(t):
    """(collection, i) if t is element i of a collection: v[i] through Index::index, or a constant-index projection (slice pattern)"""
    t = strip_refs(t)
    while isinstance(t, tuple) and t and t[0] == "deref":
        t = strip_refs(t[1])
    r = None
    if is_index_call(t) and const_int(call_args(t)[1]) is not None:
        r = call_args(t)[0], const_int(call_args(t)[1])
    elif isinstance(t, tuple) and t and t[0] == "index" and const_int(t[2]) is not None and const_int(t[2]) >= 0:
        r = t[1], const_int(t[2])
    if r is None:
        return None
    base, i = r
    # element i of the tail x[a..] (or of x[a..b]) is element a + i of x
    for _ in range(4):
        b0 = strip_refs(base)
        while isinstance(b0, tuple) and b0 and b0[0] == "deref":
            b0 = strip_refs(b0[1])
        if is_index_call(b0) and len(call_args(b0)) == 2:
            cr = canon_range(call_args(b0)[0], call_args(b0)[1])
            if cr is not None and const_int(cr[0]) is not None and const_int(cr[0]) >= 0:
                base, i = call_args(b0)[0], i + const_int(cr[0])
                continue
        break
    return coll(base), i


def canon_range(subject, rg):
    """a[x..], a[..y], a[..], a[x..a.len()], a[0..y] all as (x, y) with y == ('len',) for the subject's length and x == 0 by default"""
    a = agg_variant(rg)
    if not a or a[1] not in ("Range", "RangeFrom", "RangeTo", "RangeFull"):
        return None
    lo = a[2][0] if a[1] in ("Range", "RangeFrom") else ("const", "usize", 0)
    hi = a[2][1] if a[1] == "Range" else (a[2][0] if a[1] == "RangeTo" else LEN)
    if hi != LEN and is_call(strip_refs(hi), "::len") and strip_refs(call_args(strip_refs(hi))[0]) == strip_refs(subject):
        hi = LEN
    return (lo, hi)


# ---------------------------------------------------------------- quantifiers: `for x in c { if !p(x) { return false } } true`  ==  `c.iter().all(p)`

ELEM = ("elem",)
ITER_VIEWS = ("::iter", "IntoIterator>::into_iter", "::into_iter", "Deref>::deref", "::as_slice", "::iter_mut", "::values", "::keys")


def _iter_source(t):
    t = strip_refs(t)
    for _ in range(8):
        if is_call(t, *ITER_VIEWS) and call_args(t):
            t = strip_refs(call_args(t)[0])
        elif isinstance(t, tuple) and t and t[0] in ("deref", "loc"):
            t = strip_refs(t[1] if t[0] == "deref" else t[2] if len(t) > 2 else t)
        elif isinstance(t, tuple) and t and t[0] == "havoc" and len(t) > 3 and isinstance(t[3], tuple):
            t = strip_refs(t[3])      # a loop-carried iterator: its value on loop entry
        else:
            break
    return t


def is_elem(t):
    """the term is (derived from) the element currently looked at: ELEM in the combinator form, the Some payload of next() in the loop form"""
    return mentions(t, lambda s: s == ELEM or (s[0] == "downcast" and s[2] == "Some" and is_call(strip_refs(s[1]), "::next")))


def quantifier(ctx, key, paths=None):
    """Normal form of a bool function whose answer quantifies over a collection, or None:
         dict(kind='all'|'any', coll=<collection term>, pred=<term of the per-element test>, neg=<bool: the test is negated>, form='loop'|'combinator',
              before=[conditions assumed before the quantifier is reached])
       all  : true iff every element passes pred (false at the first that does not);  any : true iff some element passes."""
    paths = paths if paths is not None else ctx.paths(key)
    body = ctx.body(key)
    if not paths or body is None:
        return None
    rets = ret_paths(paths)
    # combinator form: some returning path returns c.iter().all(closure) / .any(closure)
    for p in rets:
        t = strip_refs(p.end[1])
        neg_out = False
        while isinstance(t, tuple) and t and t[0] == "unop" and t[1] == "Not":
            t = strip_refs(t[2])
            neg_out = not neg_out
        if is_call(t, "Iterator>::all", "Iterator>::any", "::all", "::any") and len(call_args(t)) == 2 and not neg_out:
            kind = mir.norm_path(t[1]).rsplit("::", 1)[-1]
            clo = strip_refs(call_args(t)[1])
            pe = mir.PathEval(ctx.fx, body, inline=ctx.inline_set, desugar=True)
            alts = pe._apply(clo, (ELEM,), 0)
            vals = [(fs, v) for (_, fs, v) in alts if v is not None]
            if len(vals) != 1 or vals[0][0]:
                return None         # a predicate with internal branching: not normalised
            pred = vals[0][1]
            neg = False
            while isinstance(pred, tuple) and pred and pred[0] == "unop" and pred[1] == "Not":
                pred = pred[2]
                neg = not neg
            return dict(kind=kind, coll=_iter_source(call_args(t)[0]), pred=pred, neg=neg, form="combinator", before=list(p.conds()))
    # loop form: a loop driven by next(); inside it one test decides between `return <const>` and the back edge; after exhaustion the other constant
    for h in sorted(body.loops):
        drv = [c for p in paths for c in p.conds() if c.term[0] == "discr" and is_call(strip_refs(c.term[1]), "::next") and strip_refs(c.term[1])[4] == h]
        if not drv:
            continue
        nx = strip_refs(drv[0].term[1])
        inloop = [p for p in rets if any(c.term == drv[0].term and c.fact == ("eq", 1) for c in p.conds()) and const_of(p.end[1]) in (True, False)]
        after = [p for p in rets if any(c.term == drv[0].term and c.fact == ("eq", 0) for c in p.conds()) and const_of(p.end[1]) in (True, False)]
        backs = [p for p in paths if p.end[0] == "back" and p.end[1] == h]
        inloop = [p for p in inloop if p not in after]
        if not inloop or not after or not backs:
            continue
        early = {const_of(p.end[1]) for p in inloop}
        late = {const_of(p.end[1]) for p in after}
        if len(early) != 1 or len(late) != 1 or early == late:
            continue
        kind = "all" if early == {False} else "any"

        def body_conds(p):
            cs = p.conds()
            i = max(j for j, c in enumerate(cs) if c.term == drv[0].term)
            return cs[i + 1:]
        tests = {}
        ok = True
        for p in inloop + backs:
            bc = body_conds(p)
            if len(bc) != 1 or bc[0].fact[0] != "eq" or not isinstance(bc[0].fact[1], bool):
                ok = False
                break
            tests.setdefault(bc[0].term, {})[p in backs] = bc[0].fact[1]
        if not ok or len(tests) != 1:
            continue
        pred, tv = next(iter(tests.items()))
        if set(tv) != {True, False} or tv[True] == tv[False]:
            continue
        # all : continue (back) when the element passes;  any : continue when it does not
        passes_on_back = tv[True]
        neg = (not passes_on_back) if kind == "all" else passes_on_back
        before = [c for c in backs[0].conds() if c.bb != h][:]
        before = before[:[j for j, c in enumerate(backs[0].conds()) if c.term == drv[0].term][0]]
        return dict(kind=kind, coll=_iter_source(call_args(nx)[0]), pred=pred, neg=neg, form="loop", before=before)
    return None


class PathWith:
    """a path extended by assumed conditions (facts that hold on it although the code does not branch on them there: e.g. the predicate of a
    successful `find`, the value of a returned boolean expression)"""

    class _C:
        kind = "cond"

        def __init__(self, term, fact, bb):
            self.term, self.fact, self.bb = term, fact, bb
            self.data = {}

    def __init__(self, p, extra):
        self.p = p
        self.extra = [PathWith._C(t, f, (p.blocks[-1] if getattr(p, "blocks", None) else 0)) for t, f in extra]
        self.end, self.env, self.events, self.blocks, self.facts = p.end, p.env, p.events, getattr(p, "blocks", []), getattr(p, "facts", {})

    def conds(self):
        return list(self.p.conds()) + self.extra

    def calls(self, *names):
        return self.p.calls(*names)


def first_match(ctx, key, paths=None):
    """Normal form of `work on the FIRST element of a collection that satisfies a test, or do something else if there is none`:
         for x in coll { if !test(x) { continue }  ..work(x), leaves the loop.. }  fallback        (loop form)
         match coll.iter().find(|x| test(x)) { Some(x) => work(x), None => fallback }              (find form, also let-else / if-let)
       dict(form, coll, elem=<term of the element>, found=[returning paths on which an element passed, carrying the test as a condition],
            exhausted=[returning paths on which no element passed])   or None."""
    paths = paths if paths is not None else ctx.paths(key)
    body = ctx.body(key)
    if not paths or body is None:
        return None
    rets = ret_paths(paths)
    # find form
    finds = {}
    for p in rets:
        for c in p.conds():
            if c.term[0] == "discr" and is_call(strip_refs(c.term[1]), "Iterator>::find") and len(call_args(strip_refs(c.term[1]))) == 2:
                finds.setdefault(strip_refs(c.term[1]), []).append((p, c))
    if len(finds) == 1:
        F, occ = next(iter(finds.items()))
        clo = strip_refs(call_args(F)[1])
        payload = ("field", ("downcast", F, "Some"), 0, "0")
        pe = mir.PathEval(ctx.fx, body, inline=ctx.inline_set, desugar=True)
        alts = [(fs, v) for (_, fs, v) in pe._apply(clo, (("ref", payload),), 0) if v is not None]
        if len(alts) == 1 and not alts[0][0]:
            test = alts[0][1]
            neg = False
            while isinstance(test, tuple) and test and test[0] == "unop" and test[1] == "Not":
                test, neg = test[2], not neg
            found, exhausted = [], []
            for p in rets:
                f = [c.fact for c in p.conds() if c.term == ("discr", F) or (c.term[0] == "discr" and strip_refs(c.term[1]) == F)]
                if not f:
                    continue
                if f[-1] == ("eq", 1):
                    found.append(PathWith(p, [(test, ("eq", not neg))]))
                else:
                    exhausted.append(p)
            return dict(form="find", coll=_iter_source(call_args(F)[0]), elem=payload, found=found, exhausted=exhausted)
    # a `for` over a filtered iterator whose body always leaves: no loop is left in the MIR, only one next() on the Filter
    fnx = {}
    for p in rets:
        for c in p.conds():
            if c.term[0] == "discr" and is_call(strip_refs(c.term[1]), "Filter<I, P> as std::iter::Iterator>::next") and strip_refs(c.term[1])[4] not in body.loops:
                fnx.setdefault(strip_refs(c.term[1]), []).append((p, c))
    if len(fnx) == 1 and not finds:
        nx, occ = next(iter(fnx.items()))
        it = call_args(nx)[0]
        for _ in range(6):
            while isinstance(it, tuple) and it and it[0] in ("ref", "refmut"):
                it = it[1]
            if isinstance(it, tuple) and it and it[0] == "loc" and len(it) > 2:
                it = it[2]
            elif is_call(it, "IntoIterator>::into_iter") and call_args(it):
                it = call_args(it)[0]
            else:
                break
        if is_call(it, "Iterator::filter") and len(call_args(it)) == 2:
            clo = strip_refs(call_args(it)[1])
            payload = ("field", ("downcast", nx, "Some"), 0, "0")
            pe = mir.PathEval(ctx.fx, body, inline=ctx.inline_set, desugar=True)
            alts = [(fs, v) for (_, fs, v) in pe._apply(clo, (("ref", payload),), 0) if v is not None]
            if len(alts) == 1 and not alts[0][0]:
                test, neg = alts[0][1], False
                while isinstance(test, tuple) and test and test[0] == "unop" and test[1] == "Not":
                    test, neg = test[2], not neg
                found = [PathWith(p, [(test, ("eq", not neg))]) for (p, c) in occ if c.fact == ("eq", 1)]
                exhausted = [p for (p, c) in occ if c.fact == ("eq", 0)]
                if found and exhausted:
                    return dict(form="filtered-first", coll=_iter_source(call_args(it)[0]), elem=payload, found=found, exhausted=exhausted)
    # loop form
    for h in sorted(body.loops):
        drv = [c for p in paths for c in p.conds() if c.term[0] == "discr" and is_call(strip_refs(c.term[1]), "::next") and strip_refs(c.term[1])[4] == h]
        if not drv:
            continue
        nx = strip_refs(drv[0].term[1])
        found = [p for p in rets if any(c.term == drv[0].term and c.fact == ("eq", 1) for c in p.conds())]
        exhausted = [p for p in rets if any(c.term == drv[0].term and c.fact == ("eq", 0) for c in p.conds()) and p not in found]
        backs = [p for p in paths if p.end[0] == "back" and p.end[1] == h]
        if found and exhausted and not backs:
            # `for x in coll.iter().filter(|x| test(x)) { ..work(x), always leaves the loop.. } fallback`: the first element that passes the filter
            it = call_args(nx)[0]
            for _ in range(6):
                while isinstance(it, tuple) and it and it[0] in ("ref", "refmut"):
                    it = it[1]
                if isinstance(it, tuple) and it and it[0] == "loc" and len(it) > 2:
                    it = it[2]
                elif isinstance(it, tuple) and it and it[0] == "havoc" and len(it) > 3:
                    it = it[3]
                elif is_call(it, "IntoIterator>::into_iter") and call_args(it):
                    it = call_args(it)[0]
                else:
                    break
            if is_call(it, "Iterator::filter") and len(call_args(it)) == 2:
                clo = strip_refs(call_args(it)[1])
                payload = ("field", ("downcast", nx, "Some"), 0, "0")
                pe = mir.PathEval(ctx.fx, body, inline=ctx.inline_set, desugar=True)
                alts = [(fs, v) for (_, fs, v) in pe._apply(clo, (("ref", payload),), 0) if v is not None]
                if len(alts) == 1 and not alts[0][0]:
                    test, neg = alts[0][1], False
                    while isinstance(test, tuple) and test and test[0] == "unop" and test[1] == "Not":
                        test, neg = test[2], not neg
                    return dict(form="filtered-loop", coll=_iter_source(call_args(it)[0]), elem=payload,
                                found=[PathWith(p, [(test, ("eq", not neg))]) for p in found], exhausted=exhausted)
        if not found or not exhausted or not backs:
            continue
        # one test decides between `continue` and the work: every back edge took it one way, every found path the other way
        def body_conds(p):
            cs = p.conds()
            i = max(j for j, c in enumerate(cs) if c.term == drv[0].term)
            return cs[i + 1:]
        tb = {(bc[0].term, bc[0].fact) for p in backs for bc in [body_conds(p)] if bc}
        if len(tb) != 1 or any(len(body_conds(p)) != 1 for p in backs):
            continue
        (tt, tf) = next(iter(tb))
        if not all(body_conds(p) and body_conds(p)[0].term == tt and body_conds(p)[0].fact != tf for p in found):
            continue
        return dict(form="loop", coll=_iter_source(call_args(nx)[0]), elem=("field", ("downcast", nx, "Some"), 0, "0"), found=found, exhausted=exhausted)
    return None


def element_test(ctx, key, paths=None):
    """Like quantifier(), for a per-element test that branches (e.g. `compile the candidate; if that worked, match it`): the normal form is
         dict(kind='any'|'all', coll=<collection term>, form='loop'|'combinator', elem=<term of the element>, before=[conditions before the quantifier],
              alts=[dict(facts=[(term, fact)], value=True|False|<bool term>)])   one alternative per way of processing an element
       `value` is the element's verdict on that alternative (any: true = this element makes the answer true)."""
    paths = paths if paths is not None else ctx.paths(key)
    body = ctx.body(key)
    if not paths or body is None:
        return None
    rets = ret_paths(paths)
    for p in rets:
        t = strip_refs(p.end[1])
        if is_call(t, "Iterator>::all", "Iterator>::any", "::all", "::any") and len(call_args(t)) == 2:
            kind = mir.norm_path(t[1]).rsplit("::", 1)[-1]
            clo = strip_refs(call_args(t)[1])
            pe = mir.PathEval(ctx.fx, body, inline=ctx.inline_set, desugar=True)
            alts = []
            for (_ev, fs, v) in pe._apply(clo, (ELEM,), 0):
                if v is None:
                    return None
                cv = const_of(v)
                alts.append(dict(facts=list(fs), value=cv if isinstance(cv, bool) else v))
            raw = call_args(t)[0]
            return dict(kind=kind, coll=_iter_source(raw), form="combinator", elem=ELEM, before=list(p.conds()), alts=alts)
    for h in sorted(body.loops):
        drv = [c for p in paths for c in p.conds() if c.term[0] == "discr" and is_call(strip_refs(c.term[1]), "::next") and strip_refs(c.term[1])[4] == h]
        if not drv:
            continue
        nx = strip_refs(drv[0].term[1])
        inloop = [p for p in rets if any(c.term == drv[0].term and c.fact == ("eq", 1) for c in p.conds()) and const_of(p.end[1]) in (True, False)]
        after = [p for p in rets if any(c.term == drv[0].term and c.fact == ("eq", 0) for c in p.conds()) and const_of(p.end[1]) in (True, False)]
        backs = [p for p in paths if p.end[0] == "back" and p.end[1] == h]
        inloop = [p for p in inloop if p not in after]
        if not inloop or not after or not backs:
            continue
        early = {const_of(p.end[1]) for p in inloop}
        late = {const_of(p.end[1]) for p in after}
        if len(early) != 1 or len(late) != 1 or early == late:
            continue
        kind = "all" if early == {False} else "any"

        def body_conds(p):
            cs = p.conds()
            i = max(j for j, c in enumerate(cs) if c.term == drv[0].term)
            return cs[i + 1:]
        alts = []
        for p in inloop:
            alts.append(dict(facts=[(c.term, c.fact) for c in body_conds(p)], value=(kind == "any")))
        for p in backs:
            alts.append(dict(facts=[(c.term, c.fact) for c in body_conds(p)], value=(kind != "any")))
        cs0 = backs[0].conds()
        before = cs0[:[j for j, c in enumerate(cs0) if c.term == drv[0].term][0]]
        return dict(kind=kind, coll=_iter_source(call_args(nx)[0]), form="loop", elem=("field", ("downcast", nx, "Some"), 0, "0"), before=list(before), alts=alts)
    return None


# ---------------------------------------------------------------- accumulations: `for x in c { out.push(f(x)?) }`  ==  `c.into_iter().map(f).collect::<Result<Vec<_>>>()?`

def accumulation(ctx, key, result, paths=None):
    """Normal form of `a collection built from another, one item per element, in order`, or None:
         dict(src=<source collection term>, item=<term of the item produced for ELEM / the loop element>, fallible=<bool>, form='loop'|'collect', locals=<set of locals of src>)
       `result` is the term of the built collection (e.g. the `entries` field of the returned value)."""
    paths = paths if paths is not None else ctx.paths(key)
    body = ctx.body(key)
    if not paths or body is None or result is None:
        return None
    t = strip_refs(result)
    fallible = False
    # collect form: (collect(map(into_iter(SRC), closure)) [as Ok / ? payload])
    for _ in range(4):
        if isinstance(t, tuple) and t and t[0] == "field" and t[2] == 0 and isinstance(t[1], tuple) and t[1][0] == "downcast" and t[1][2] in ("Ok", "Continue"):
            fallible = True
            t = strip_refs(t[1][1])
        elif is_call(t, "Try>::branch"):
            t = strip_refs(call_args(t)[0])
        elif is_call(t, "Result::map_err", "Result<T, E>::map_err") and call_args(t):
            t = strip_refs(call_args(t)[0])       # only the error is converted
        else:
            break
    if is_call(t, "::collect") and call_args(t):
        it = strip_refs(call_args(t)[0])
        if is_call(it, "::map") and len(call_args(it)) == 2:
            clo = strip_refs(call_args(it)[1])
            pe = mir.PathEval(ctx.fx, body, inline=ctx.inline_set, desugar=True)
            alts = [(fs, v) for (_, fs, v) in pe._apply(clo, (ELEM,), 0) if v is not None]
            if len(alts) == 1 and not alts[0][0]:
                raw = call_args(it)[0]
                src = _iter_source(raw)
                if is_call(src) and ("iter::" in src[1] or "Iterator" in src[1]):
                    return None     # an adaptor (rev, skip, filter, take ..) sits between the collection and the map: not one item per element in order
                return dict(src=src, item=alts[0][1], fallible=fallible, form="collect",
                            locals={x[1] for x in subterms(raw) if x[0] in ("havoc", "mutated", "loc") and len(x) > 1 and isinstance(x[1], int)} if isinstance(raw, tuple) else set())
        return None
    # loop form: result is a local (or a field of one) that a loop pushes to once per iteration
    base = t
    fld = None
    if isinstance(base, tuple) and base and base[0] == "field":
        fld = base[3]
        base = strip_refs(base[1])
    if not (isinstance(base, tuple) and base and base[0] in ("havoc", "mutated")):
        return None
    loc_ = base[1]

    def is_target(a):
        a0 = a[1] if isinstance(a, tuple) and a and a[0] == "refmut" else None
        if a0 is None:
            return False
        if fld is not None:
            return isinstance(a0, tuple) and a0[0] == "field" and a0[3] == fld and mentions(a0, lambda u: u[0] in ("havoc", "mutated", "loc") and u[1] == loc_)
        return isinstance(a0, tuple) and a0[0] == "loc" and a0[1] == loc_
    for h in sorted(body.loops):
        backs = [p for p in paths if p.end[0] == "back" and p.end[1] == h]
        pushes = [[e for e in p.events if ev_is(e, "Vec::push") and e.bb in body.loops[h] and is_target(e.args[0])] for p in backs]
        if not backs or not all(len(x) == 1 for x in pushes):
            continue
        def skeleton(t):
            if isinstance(t, tuple) and t and t[0] in ("havoc", "mutated", "loc") and len(t) > 1 and isinstance(t[1], int):
                return ("L", t[1])
            if isinstance(t, tuple):
                return tuple(skeleton(x) for x in t)
            return t
        items = {skeleton(x[0].args[1]) for x in pushes}
        if len(items) != 1:
            continue
        item = pushes[0][0].args[1]
        drv = [c for p in backs for c in p.conds() if c.term[0] == "discr" and is_call(strip_refs(c.term[1]), "::next") and strip_refs(c.term[1])[4] == h]
        if not drv:
            continue
        srcarg = call_args(strip_refs(drv[0].term[1]))[0]
        src = _iter_source(srcarg)
        if is_call(src) and ("iter::" in src[1] or "Iterator" in src[1]):
            continue
        return dict(src=src, item=item, fallible=has_try(item), form="loop",
                    locals={x[1] for x in subterms(srcarg) if x[0] in ("havoc", "mutated", "loc") and isinstance(x[1], int)})
    return None


# ---------------------------------------------------------------- "exactly two parts": `v = s.split(c).collect(); v.len() == 2`  ==  `s.split_once(c)` and no further c in the tail

def nth_next(p, is_source):
    """{next-call term: k} for the successive `it.next()` calls on an iterator local whose initial value satisfies is_source (e.g. s.split(':')):
    the k-th call yields item k, provided nothing else touches the iterator in between (then positions are unknown from there on)"""
    seq = {}
    count = {}
    for e in p.events:
        if e.kind != "call" or not e.args:
            continue
        r = e.args[0]
        if not (isinstance(r, tuple) and r[0] == "refmut" and isinstance(r[1], tuple) and r[1][0] == "loc"):
            continue
        l = r[1][1]
        st = r[1][2] if len(r[1]) > 2 else None
        if not e.name.endswith("::next"):
            if l in count:
                count[l] = None
            continue
        first = is_source(strip_refs(st)) if l not in count else (isinstance(st, tuple) and st and st[0] == "mutated" and st[1] == l)
        if not first:
            if l in count:
                count[l] = None
            continue
        if count.get(l, 0) is None:
            continue
        seq[e.term] = count.get(l, 0)
        count[l] = count.get(l, 0) + 1
    return seq


def two_part_split(p, is_subject, sep):
    """What path p assumed about splitting the subject at `sep` into exactly two parts:
         ('two', is_part0, is_part1) | ('not-two', None, None) | (None, None, None) when the path does not decide it.
       Forms: the collected unbounded split with a length test against 2; split_once (first occurrence) plus a test that the tail holds no further separator."""
    # form 1: collect(split(S, sep)) with length facts
    for c in p.conds():
        lf = length_fact(c)
        if lf is None:
            continue
        v = lf[0]
        if is_call(v, "::collect") and is_call(strip_refs(call_args(v)[0]), "str>::split") and _sep(call_args(strip_refs(call_args(v)[0]))[1]) == sep \
                and is_subject(content(call_args(strip_refs(call_args(v)[0]))[0])):
            ok_n = [n for n in range(0, 6) if lf[1](n)]
            if ok_n == [2]:
                def part(i, v=v):
                    return lambda t: (element_of(content(t)) or element_of(t)) is not None and (element_of(content(t)) or element_of(t))[0] == v and (element_of(content(t)) or element_of(t))[1] == i
                return ("two", part(0), part(1))
            if 2 not in ok_n:
                return ("not-two", None, None)
    # form 3: the first three items pulled off s.split(sep) by hand: Some, Some, None  <=>  exactly two parts
    seq = nth_next(p, lambda t: is_call(t, "str>::split") and _sep(call_args(t)[1]) == sep and is_subject(content(call_args(t)[0])))
    if seq:
        got = {}
        for c in p.conds():
            if c.term[0] == "discr" and strip_refs(c.term[1]) in seq:
                got[seq[strip_refs(c.term[1])]] = c.fact == ("eq", 1) or (c.fact[0] == "ne" and 0 in c.fact[1] and 1 not in c.fact[1])
        if got.get(0) is True and got.get(1) is True and got.get(2) is False:
            inv = {k: t for t, k in seq.items()}

            def part(i):
                return lambda t, i=i: mentions(t, lambda s_: len(s_) > 2 and s_[0] == "field" and s_[2] == 0 and isinstance(s_[1], tuple) and s_[1][0] == "downcast" and s_[1][2] == "Some" and strip_refs(s_[1][1]) == inv[i]) \
                    and not any(mentions(t, lambda s_, j=j: len(s_) > 2 and s_[0] == "field" and isinstance(s_[1], tuple) and s_[1][0] == "downcast" and strip_refs(s_[1][1]) == inv[j]) for j in inv if j != i)
            return ("two", part(0), part(1))
        if got and (got.get(0) is False or got.get(1) is False or got.get(2) is True):
            return ("not-two", None, None)
        if got:
            return (None, None, None)
    # form 2: split_once + tail.contains(sep)
    found = None
    so = None
    for c in p.conds():
        t = c.term
        if isinstance(t, tuple) and t and t[0] == "discr" and is_call(strip_refs(t[1]), "str>::split_once", "str>::find") and _sep(call_args(strip_refs(t[1]))[1]) == sep \
                and is_subject(content(call_args(strip_refs(t[1]))[0])):
            so = strip_refs(t[1])        # the FIRST separator, found by split_once or by find (the parts are then slices at that position)
            found = c.fact == ("eq", 1) or (c.fact[0] == "ne" and 0 in c.fact[1])
    if so is None:
        return (None, None, None)
    if not found:
        return ("not-two", None, None)

    def role(t):
        ss = substr(t)
        r = substr_role(ss)
        return r if ss is not None and is_subject(ss[0]) and r[1] == "find" and r[2] == sep else ("none", None, None)
    more = None
    for c in p.conds():
        t = c.term
        if is_call(t, "str>::contains") and _sep(call_args(t)[1]) == sep and role(call_args(t)[0])[0] == "suffix":
            more = c.fact == ("eq", True)
        if isinstance(t, tuple) and t and t[0] == "discr" and is_call(strip_refs(t[1]), "str>::find", "str>::rfind", "str>::split_once") and _sep(call_args(strip_refs(t[1]))[1]) == sep \
                and role(call_args(strip_refs(t[1]))[0])[0] == "suffix":
            more = c.fact == ("eq", 1) or (c.fact[0] == "ne" and 0 in c.fact[1])
    if more is None:
        return (None, None, None)        # the tail is never examined: "a:b:c" would be taken as two parts
    if more:
        return ("not-two", None, None)
    return ("two", lambda t: role(t)[0] == "prefix", lambda t: role(t)[0] == "suffix")


# ---------------------------------------------------------------- character predicates as tables over a finite domain

CHAR_DOMAIN = [chr(i) for i in range(128)] + ["\u00e9", "\u00a0", "\u0085", "\u212a", "\u0130", "\u4e2d", "\u0660"]
_CHAR_FNS = {
    "is_ascii_alphanumeric": lambda c: c.isascii() and c.isalnum(),
    "is_ascii_alphabetic": lambda c: c.isascii() and c.isalpha(),
    "is_ascii_digit": lambda c: c.isascii() and c.isdigit(),
    "is_ascii_lowercase": lambda c: c.isascii() and c.islower(),
    "is_ascii_uppercase": lambda c: c.isascii() and c.isupper(),
    "is_ascii_punctuation": lambda c: c.isascii() and (33 <= ord(c) <= 47 or 58 <= ord(c) <= 64 or 91 <= ord(c) <= 96 or 123 <= ord(c) <= 126),
    "is_ascii_whitespace": lambda c: c in "\t\n\x0c\r ",
    "is_ascii_graphic": lambda c: 33 <= ord(c) <= 126,
    "is_ascii": lambda c: c.isascii(),
    "is_alphanumeric": lambda c: c.isalnum(),
    "is_alphabetic": lambda c: c.isalpha(),
    "is_numeric": lambda c: c.isnumeric(),
    "is_whitespace": lambda c: c.isspace(),
    "is_lowercase": lambda c: c.islower(),
    "is_uppercase": lambda c: c.isupper(),
    "is_digit": None,
}


def _char_eval(t, is_param, ch):
    """value of term t when the character parameter is ch: bool / int, or None when it cannot be evaluated"""
    t0 = strip_refs(t)
    if is_param(t0):
        return ord(ch)
    if isinstance(t0, tuple) and t0 and t0[0] == "const":
        v = t0[2]
        if isinstance(v, tuple) and v and v[0] == "char":
            return ord(v[1])
        if isinstance(v, (bool, int)):
            return v
        return None
    if isinstance(t0, tuple) and t0 and t0[0] == "cast":
        return _char_eval(t0[4], is_param, ch)
    if isinstance(t0, tuple) and t0 and t0[0] == "unop" and t0[1] == "Not":
        v = _char_eval(t0[2], is_param, ch)
        return (not v) if isinstance(v, bool) else None
    if isinstance(t0, tuple) and t0 and t0[0] == "binop":
        a, b = _char_eval(t0[2], is_param, ch), _char_eval(t0[3], is_param, ch)
        if a is None or b is None:
            return None
        f = {"Eq": lambda x, y: x == y, "Ne": lambda x, y: x != y, "Lt": lambda x, y: x < y, "Le": lambda x, y: x <= y, "Gt": lambda x, y: x > y, "Ge": lambda x, y: x >= y,
             "BitOr": lambda x, y: x | y, "BitAnd": lambda x, y: x & y, "Sub": lambda x, y: x - y, "Add": lambda x, y: x + y}.get(t0[1])
        return f(int(a), int(b)) if f else None
    if is_call(t0):
        nm = mir.norm_path(t0[1]).rsplit("::", 1)[-1]
        args = call_args(t0)
        if nm in _CHAR_FNS and _CHAR_FNS[nm] is not None and len(args) == 1 and is_param(strip_refs(args[0])) and ("char" in t0[1] or "u8" in t0[1]):
            return _CHAR_FNS[nm](ch)
        if nm == "contains" and len(args) == 2 and is_param(strip_refs(args[1])):
            rg = agg_variant(strip_refs(args[0]))
            if rg and rg[1] in ("RangeInclusive", "Range"):
                lo, hi = _char_eval(rg[2][0], is_param, ch), _char_eval(rg[2][1], is_param, ch)
                if lo is not None and hi is not None:
                    return lo <= ord(ch) <= hi if rg[1] == "RangeInclusive" else lo <= ord(ch) < hi
        if nm in ("eq", "ne") and len(args) == 2:
            a, b = _char_eval(args[0], is_param, ch), _char_eval(args[1], is_param, ch)
            if a is not None and b is not None:
                return (a == b) == (nm == "eq")
    return None


def char_table(paths, is_param=lambda t: t == ("param", 1), domain=None):
    """{character: True / False / None}: what a char -> bool function answers, read off its path conditions for each character of a finite
    domain (all of ASCII plus non-ASCII representatives); None where some condition cannot be evaluated.  No code is run: each condition
    is a comparison with constants, a std character-class test or a range test, evaluated on the constant."""
    out = {}
    rets = ret_paths(paths or [])
    for ch in (domain or CHAR_DOMAIN):
        res = set()
        unknown = False
        for p in rets:
            ok = True
            for c in p.conds():
                v = _char_eval(c.term, is_param, ch)
                if v is None:
                    unknown = True
                    ok = False
                    break
                if c.fact[0] == "eq":
                    if (bool(v) if isinstance(c.fact[1], bool) else int(v)) != c.fact[1]:
                        ok = False
                        break
                elif int(v) in c.fact[1]:
                    ok = False
                    break
            if not ok:
                continue
            r = _char_eval(p.end[1], is_param, ch)
            if r is None:
                unknown = True
            else:
                res.add(bool(r))
        out[ch] = (None if unknown or len(res) != 1 else next(iter(res)))
    return out


BYTE_DOMAIN = [chr(i) for i in range(256)]
ASCII_BLANKS = {" ", "\t", "\n", "\x0b", "\x0c", "\r"}


def blank_predicates(ctx, key):
    """Byte predicates in `key` (and its closures) that accept the space character: [(owner key, bb, subject term, accepted set, evaluable)].
    A predicate is a path condition / closure result built from u8 class tests and comparisons of ONE byte-valued term with constants; it is
    tabulated over all 256 byte values (no code is run).  A predicate that does not accept ' ' (a newline test, a '#' test ...) is not a blank test."""
    out = []
    keys = [key] + [k for k in ctx.fx.fns if k.startswith(key + "::{closure#")]
    # ... and the helper functions the item delegates to (functions that are not part of the analysed tree's known items), with their closures
    inl = getattr(ctx, "inline_set", None) or frozenset()
    frontier = [key]
    for _ in range(2):
        nxt_ = []
        for k in frontier:
            b_ = ctx.body(k)
            if b_ is None:
                continue
            for _bb, tt in b_.calls():
                hp = tt["func"]["path"]
                if tt["func"]["local"] and hp in inl and hp not in keys and ctx.fx.fns.get(hp, {}).get("kind") != "Closure":
                    keys.append(hp)
                    keys.extend(k2 for k2 in ctx.fx.fns if k2.startswith(hp + "::{closure#"))
                    nxt_.append(hp)
        frontier = nxt_
    for k in keys:
        ps = ctx.paths(k)
        if not ps:
            continue
        f = ctx.fx.fns.get(k)
        if f is not None and f["kind"] == "Closure" and f["arg_count"] == 2 and f["locals"][2]["ty"].lstrip("&").strip() == "u8" and f["ret_ty"] == "bool":
            # a closure |b| -> bool over one byte: tabulate it whole (covers `matches!`, which switches on the byte itself)
            tbl = char_table(ps, is_param=lambda t: strip_refs(t) == ("param", 2), domain=BYTE_DOMAIN)
            if all(v is not None for v in tbl.values()):
                acc = {c for c, v in tbl.items() if v}
                rej = {c for c, v in tbl.items() if not v}
                side = acc if " " in acc else rej
                if " " in side and len(side) < 128:
                    out.append((k, 0, ("param", 2), side, True))
                continue
        cands = {}
        for p in ps:
            terms = [(c.term, c.bb) for c in p.conds()]
            if p.end[0] == "return" and isinstance(p.end[1], tuple):
                terms.append((p.end[1], p.blocks[-1] if p.blocks else 0))
            for t, bb in terms:
                subs = set()
                for s_ in subterms(t):
                    if is_call(s_) and "u8" in s_[1] and mir.norm_path(s_[1]).rsplit("::", 1)[-1] in _CHAR_FNS and len(call_args(s_)) == 1:
                        subs.add(strip_refs(call_args(s_)[0]))
                    if s_[0] == "binop" and s_[1] in ("Eq", "Ne", "Lt", "Le", "Gt", "Ge"):
                        for x, y in ((s_[2], s_[3]), (s_[3], s_[2])):
                            if isinstance(y, tuple) and y and y[0] == "const" and y[1] == "u8" and not (isinstance(x, tuple) and x and x[0] == "const"):
                                subs.add(strip_refs(x))
                for x in subs:
                    cands.setdefault((t, x), bb)
        for (t, x), bb in cands.items():
            tbl = {}
            ok = True
            for ch in BYTE_DOMAIN:
                v = _char_eval(t, lambda s_, x=x: s_ == x, ch)
                if v is None or not isinstance(v, (bool, int)):
                    ok = False
                    break
                tbl[ch] = bool(v)
            if not ok:
                continue
            acc = {c for c, v in tbl.items() if v}
            rej = {c for c, v in tbl.items() if not v}
            # the condition may be the predicate or its negation: the blank test is whichever side holds for ' '
            side = acc if " " in acc else rej
            if " " in side and len(side) < 128:
                out.append((k, bb, x, side, True))
    return out


def check_blank_sets(ctx, rule, key, floor=1, ignore=None):
    """every blank test made on the bytes of the input accepts at least space and tab, and nothing but ASCII white space (so a byte >= 0x80,
    or a letter, never separates fields / is skipped, and a tab always does)"""
    body = ctx.body(key)
    preds = blank_predicates(ctx, key)
    seen = set()
    n = 0
    for (k, bb, x, acc, _) in preds:
        sig = (k, bb, tuple(sorted(acc)))
        if sig in seen or (ignore is not None and ignore(acc)):
            continue
        seen.add(sig)
        n += 1
        missing = sorted(repr(c) for c in (" ", "\t") if c not in acc)
        extra = sorted(repr(c) for c in acc - ASCII_BLANKS)
        b = ctx.body(k)
        ctx.check(not missing and not extra, rule, k, "blank-test@%d" % n, "accepts %s" % sorted(repr(c) for c in acc),
                  "a blank test accepts %s%s: fields are separated (and leading blanks skipped) by spaces AND tabs, and by nothing outside ASCII white space"
                  % (sorted(repr(c) for c in acc)[:8], (", not %s" % missing) if missing else ""), b.span_of(bb) if b else "", nontrivial=(n <= 2))
    ctx.floor(rule, key, "blank tests tabulated", n, floor)


# ---------------------------------------------------------------- rule verdicts shared between properties

_SHARE_CACHE = {}


def share_rules(ctx, prop, rules, as_rule, item, floor, exclude=()):
    """Evaluate another property's rule module on the same facts and add the verdicts of the named rules to this check as instances of
    `as_rule` (instance = '<rule>:<instance>').  Used where one property's statement includes a clause that another property's rules decide
    (the writer prints a digest name the reader must parse back; best_match ranks by the order the tokeniser and dewey_cmp define ...).
    A module that cannot be evaluated, or fewer than `floor` shared instances, is a violation (fail closed)."""
    import importlib
    from check import Ctx, Record
    if getattr(ctx, "no_share", False):
        return          # this module is itself being evaluated for another property's shared rules: one level of sharing only (no cycles)
    ck = (id(ctx.fx), prop, ctx.tier)
    if ck not in _SHARE_CACHE:
        mod = importlib.import_module("rules." + prop.lower())
        sub = Ctx(prop, ctx.tier, ctx.fx)
        sub.no_share = True
        sub.inline_set = ctx.inline_set
        sub.desugar = bool(getattr(mod, "DESUGAR", False))
        sub.splice = getattr(mod, "SPLICE_LOOP_HELPERS", False)
        try:
            mod.run(sub)
            _SHARE_CACHE[ck] = list(sub.records)
        except Exception:
            _SHARE_CACHE[ck] = None
    recs = _SHARE_CACHE[ck]
    shared = None if recs is None else [r for r in recs if any(r.rule == x or r.rule.startswith(x + "#") for x in rules) and not r.instance.startswith("floor:")
                                        and not any(x in r.key for x in exclude)]
    if not shared:
        ctx.violation(as_rule, item, "shared-rules", "the %s rules %s could not be evaluated on this tree" % (prop, list(rules)), "")
    else:
        for r in shared:
            ctx.records.append(Record(as_rule, r.item, "%s:%s" % (r.rule, r.instance), r.verdict, r.detail, r.span, False))
    ctx.floor(as_rule, item, "shared %s rule instances" % prop, len(shared or []), floor)

