"""CFG utilities and the path-sensitive evaluator over MIR facts.

Everything here is static: bodies are never executed and no program input is
constructed.  `Body` gives the CFG (unwind/cleanup edges removed), dominators,
post-dominators, natural loops and control dependence.  `PathEval` enumerates
the acyclic paths of a body (loop-carried state is havocked at loop headers, a
path stops at a back edge) and evaluates each path over a small term language
("origin terms"): no solver is involved, only term rewriting and a
consistency check of branch conditions over equal terms.
"""
import re

# --------------------------------------------------------------------- consts

_ESC = {"n": "\n", "r": "\r", "t": "\t", "\\": "\\", "0": "\0", "'": "'", '"': '"'}


def rust_unescape(s):
    out = []
    i = 0
    while i < len(s):
        c = s[i]
        if c == "\\" and i + 1 < len(s):
            n = s[i + 1]
            if n == "x":
                out.append(chr(int(s[i + 2:i + 4], 16)))
                i += 4
                continue
            if n == "u":
                j = s.index("}", i)
                out.append(chr(int(s[i + 3:j], 16)))
                i = j + 1
                continue
            out.append(_ESC.get(n, n))
            i += 2
            continue
        out.append(c)
        i += 1
    return "".join(out)


def const_value(o):
    """Decode a constant operand into a python value.
    ints/bools/chars -> int (chars as ('char', c)); &str -> str;
    byte strings -> ('bytes', str-of-latin1); fn items -> ('fn', path, full);
    promoted -> ('promoted', owner, idx); unit -> ('unit',); else ('raw', s)."""
    ty = o["ty"]
    s = o.get("value") or o["s"]      # a named const item carries its evaluated value
    if s.startswith("const "):
        s = s[6:]
    if "fn" in o:
        return ("fn", o["fn"]["path"], o["fn"]["full"])
    if "promoted" in o:
        return ("promoted", o["promoted_of"], o["promoted"])
    if "int" in o:
        if ty == "char":
            return ("char", chr(o["int"]))
        if ty == "bool":
            return bool(o["int"])
        return o["int"]
    if ty == "()":
        return ("unit",)
    if s.startswith('b"') and s.endswith('"'):
        return ("bytes", rust_unescape(s[2:-1]))
    if s.startswith('"') and s.endswith('"'):
        return rust_unescape(s[1:-1])
    return ("raw", s)


def parse_const_table(text, ty):
    """The elements of a constant array whose evaluated value rustc printed as `[elem, elem, ..]`, as terms, or None: elements may be string /
    integer / bool / char literals, unit enum variants written as a path, and tuples of those.  (`const T: [(&str, i64); 5] = [("alpha", -3), ..]`)"""
    pos = [0]
    n = len(text)

    def ws():
        while pos[0] < n and text[pos[0]] in " \n\t":
            pos[0] += 1

    def elem(ety):
        ws()
        if pos[0] >= n:
            raise ValueError
        ch = text[pos[0]]
        if ch == "(":
            pos[0] += 1
            parts = []
            ws()
            while text[pos[0]] != ")":
                parts.append(elem(None))
                ws()
                if text[pos[0]] == ",":
                    pos[0] += 1
                    ws()
            pos[0] += 1
            return ("agg", "tuple", None, None, tuple(parts), ())
        if ch == '"':
            j = pos[0] + 1
            while text[j] != '"':
                j += 2 if text[j] == "\\" else 1
            v = rust_unescape(text[pos[0] + 1:j])
            pos[0] = j + 1
            return ("const", "&str", v)
        if ch == "'":
            j = text.index("'", pos[0] + 2 if text[pos[0] + 1] == "\\" else pos[0] + 1)
            v = rust_unescape(text[pos[0] + 1:j])
            pos[0] = j + 1
            return ("const", "char", ("char", v))
        m = re.match(r"-?\d+(?:_([iu](?:8|16|32|64|128|size)))?", text[pos[0]:])
        if m:
            pos[0] += m.end()
            return ("const", m.group(1) or "i32", int(m.group(0).split("_")[0]))
        m = re.match(r"(true|false)\b", text[pos[0]:])
        if m:
            pos[0] += m.end()
            return ("const", "bool", m.group(1) == "true")
        m = re.match(r"[A-Za-z_][A-Za-z0-9_]*(?:::[A-Za-z_][A-Za-z0-9_]*)+", text[pos[0]:])
        if m:
            pos[0] += m.end()
            path = m.group(0)
            adt, var = path.rsplit("::", 1)
            return ("agg", "adt", adt, var, (), ())
        raise ValueError
    try:
        ws()
        if text[pos[0]] != "[":
            return None
        pos[0] += 1
        out = []
        ws()
        while text[pos[0]] != "]":
            out.append(elem(None))
            ws()
            if text[pos[0]] == ",":
                pos[0] += 1
                ws()
        return tuple(out)
    except (ValueError, IndexError):
        return None


_NORM_CACHE = {}


def norm_path(p):
    """callee path with generic argument lists removed:
    std::collections::HashMap::<K, V, S, A>::entry -> std::collections::HashMap::entry
    <std::str::Chars<'a> as std::iter::Iterator>::next -> <std::str::Chars as std::iter::Iterator>::next"""
    r = _NORM_CACHE.get(p)
    if r is not None:
        return r
    out = []
    i = 0
    n = len(p)
    while i < n:
        c = p[i]
        if c == "<":
            prev = out[-1] if out else ""
            # generic list if it follows an identifier char or '::'
            is_impl = p.startswith("<impl ", i)
            if prev and not is_impl and (prev.isalnum() or prev == "_" or (prev == ":" and len(out) >= 2 and out[-2] == ":")):
                depth = 0
                j = i
                while j < n:
                    if p[j] == "<":
                        depth += 1
                    elif p[j] == ">" and (j == 0 or p[j - 1] != "-"):
                        depth -= 1
                        if depth == 0:
                            break
                    j += 1
                # drop a trailing '::' before the list (turbofish)
                if len(out) >= 2 and out[-1] == ":" and out[-2] == ":":
                    out.pop()
                    out.pop()
                i = j + 1
                continue
        out.append(c)
        i += 1
    r = "".join(out)
    _NORM_CACHE[p] = r
    return r


# ------------------------------------------------------------------- CFG core

class Body:
    def __init__(self, f):
        self.f = f
        self.key = f["key"]
        self.blocks = f["blocks"]
        self.n = len(self.blocks)
        self.arg_count = f["arg_count"]
        self.names = {}
        for d in f["debug"]:
            v = d["value"]
            if "l" in v and not v["p"]:
                self.names.setdefault(v["l"], d["name"])
        self._succ = [self._compute_succ(i) for i in range(self.n)]
        self._pred = [[] for _ in range(self.n)]
        for i, ss in enumerate(self._succ):
            for (lab, t) in ss:
                self._pred[t].append(i)
        self.reach = self._reachable()
        self.idom = self._dominators()
        self.ipdom = self._postdominators()
        self.back_edges = [(u, v) for u in self.reach for (_, v) in self._succ[u] if self.dominates(v, u)]
        self.loops = {}
        for (u, v) in self.back_edges:
            self.loops.setdefault(v, set()).update(self._natural_loop(u, v))

    # successors: list of (label, target); label is
    #   ('goto',) ('sw', value) ('swo', (excluded values)) ('ret',) ('ok',) ('drop',)
    def _compute_succ(self, i):
        b = self.blocks[i]
        if b["cleanup"]:
            return []
        t = b["term"]
        k = t["k"]
        if k == "goto":
            return [(("goto",), t["t"])]
        if k == "switch":
            out = [(("sw", v), bb) for v, bb in t["targets"]]
            out.append((("swo", tuple(v for v, _ in t["targets"])), t["otherwise"]))
            return out
        if k == "call":
            return [(("ret",), t["target"])] if t["target"] is not None else []
        if k == "assert":
            return [(("ok",), t["target"])]
        if k == "drop":
            return [(("drop",), t["target"])]
        return []

    def succ(self, i):
        return self._succ[i]

    def succ_blocks(self, i):
        return [t for _, t in self._succ[i]]

    def pred(self, i):
        return self._pred[i]

    def _reachable(self):
        seen = {0}
        st = [0]
        while st:
            u = st.pop()
            for _, v in self._succ[u]:
                if v not in seen:
                    seen.add(v)
                    st.append(v)
        return seen

    def _rpo(self, succ_fn, root):
        seen = set()
        order = []

        def dfs(u):
            stack = [(u, iter(succ_fn(u)))]
            seen.add(u)
            while stack:
                node, it = stack[-1]
                adv = False
                for v in it:
                    if v not in seen:
                        seen.add(v)
                        stack.append((v, iter(succ_fn(v))))
                        adv = True
                        break
                if not adv:
                    order.append(node)
                    stack.pop()
        dfs(root)
        order.reverse()
        return order

    def _idoms(self, succ_fn, pred_fn, root):
        order = self._rpo(succ_fn, root)
        idx = {b: i for i, b in enumerate(order)}
        idom = {root: root}
        changed = True

        def inter(a, b):
            while a != b:
                while idx[a] > idx[b]:
                    a = idom[a]
                while idx[b] > idx[a]:
                    b = idom[b]
            return a
        while changed:
            changed = False
            for b in order[1:]:
                ps = [p for p in pred_fn(b) if p in idom]
                if not ps:
                    continue
                new = ps[0]
                for p in ps[1:]:
                    new = inter(new, p)
                if idom.get(b) != new:
                    idom[b] = new
                    changed = True
        return idom

    def _dominators(self):
        return self._idoms(self.succ_blocks, lambda b: self._pred[b], 0)

    def _postdominators(self):
        # virtual exit node = n ; exits are blocks without successors
        n = self.n
        exits = [b for b in self.reach if not self._succ[b]]

        def rs(b):
            if b == n:
                return exits
            return [p for p in self._pred[b] if p in self.reach]

        def rp(b):
            if b == n:
                return []
            s = self.succ_blocks(b)
            return s if s else [n]
        return self._idoms(rs, rp, n)

    def dominates(self, a, b):
        """a dominates b"""
        if b not in self.idom:
            return False
        while True:
            if a == b:
                return True
            p = self.idom.get(b)
            if p is None or p == b:
                return False
            b = p

    def postdominates(self, a, b):
        if b not in self.ipdom:
            return False
        while True:
            if a == b:
                return True
            p = self.ipdom.get(b)
            if p is None or p == b:
                return False
            b = p

    def _natural_loop(self, u, v):
        body = {v, u}
        st = [u]
        while st:
            x = st.pop()
            if x == v:
                continue
            for p in self._pred[x]:
                if p not in body and p in self.reach:
                    body.add(p)
                    st.append(p)
        return body

    def loop_of(self, b):
        """innermost loop header containing block b, or None"""
        best = None
        for h, body in self.loops.items():
            if b in body and (best is None or len(body) < len(self.loops[best])):
                best = h
        return best

    def in_any_loop(self, b):
        return any(b in body for body in self.loops.values())

    def can_reach(self, a, b, avoid=()):
        seen = {a}
        st = [a]
        while st:
            x = st.pop()
            if x == b:
                return True
            for _, y in self._succ[x]:
                if y not in seen and y not in avoid:
                    seen.add(y)
                    st.append(y)
        return False

    def calls(self):
        """yield (bb, terminator) for every call terminator in reachable non-cleanup blocks"""
        for i in sorted(self.reach):
            t = self.blocks[i]["term"]
            if t["k"] == "call":
                yield i, t

    def local_name(self, l):
        return self.names.get(l)

    def assigned_locals(self, blocks):
        """locals (whole or partial) assigned, or mutably borrowed, or call dests, in a block set"""
        out = set()
        for b in blocks:
            blk = self.blocks[b]
            for s in blk["stmts"]:
                if s["k"] == "assign":
                    out.add(s["place"]["l"]) if not _through_deref(s["place"]) else None
                    rv = s["rv"]
                    if rv["k"] == "ref" and rv["bk"] == "mut" and not _through_deref(rv["place"]):
                        out.add(rv["place"]["l"])
                    if rv["k"] == "rawptr" and not _through_deref(rv["place"]):
                        out.add(rv["place"]["l"])
                elif s["k"] == "setdiscr":
                    out.add(s["place"]["l"])
            t = blk["term"]
            if t["k"] == "call" and not _through_deref(t["dest"]):
                out.add(t["dest"]["l"])
        return out

    def span_of(self, b, si=None):
        blk = self.blocks[b]
        sp = blk["tspan"] if si is None else blk["stmts"][si]["span"]
        return "%s:%d:%d" % (sp["file"], sp["line"], sp["col"])


def _through_deref(place):
    return any(e["k"] == "deref" for e in place["p"])


# ------------------------------------------------------------ term utilities
#
# Terms are nested tuples:
#   ('param', i)                      i-th local (1-based argument)
#   ('const', ty, value)
#   ('havoc', local, header, init)    loop-carried unknown at a loop header (init = value on loop entry)
#   ('undef', local)
#   ('call', path, gargs, args, site) site = bb index for impure callees, None for pure ones
#   ('ref', t) ('refmut', t)          borrow of the value/place t
#   ('deref', t)
#   ('field', t, idx, name)
#   ('downcast', t, variant)
#   ('index', t, i)
#   ('binop', op, a, b) ('unop', op, a) ('cast', kind, from_ty, to_ty, a)
#   ('discr', t)
#   ('agg', kind, adt, variant, ops, fieldnames)
#   ('tuple', ops...)  is ('agg','tuple',None,None,ops,())
#   ('mutated', local, site, old)     value of a local after a call received &mut to it

PURE_PREFIXES = (
    "core::str::<impl str>::",
    "core::slice::<impl [T]>::",
    "std::char::methods::<impl char>::",
    "core::char::methods::<impl char>::",
    "std::string::String::len", "std::string::String::is_empty", "std::string::String::as_str",
    "std::string::String::as_bytes",
    "std::vec::Vec::<T, A>::len", "std::vec::Vec::<T, A>::is_empty", "std::vec::Vec::<T, A>::as_slice",
    "std::option::Option::<T>::is_none", "std::option::Option::<T>::is_some",
    "std::option::Option::<T>::as_ref", "std::option::Option::<T>::as_deref",
    "std::result::Result::<T, E>::is_ok", "std::result::Result::<T, E>::is_err",
    "std::result::Result::<T, E>::as_ref",
    "std::path::Path::", "std::ffi::OsStr::", "std::path::PathBuf::as_path",
    "<std::string::String as std::ops::Deref>::deref",
    "<std::vec::Vec<T, A> as std::ops::Deref>::deref",
    "<std::path::PathBuf as std::ops::Deref>::deref",
    "<std::ffi::OsString as std::ops::Deref>::deref",
    "std::cmp::PartialEq::", "std::cmp::PartialOrd::",
    "<std::vec::Vec<T, A> as std::ops::Index", "core::slice::index::<impl std::ops::Index", "core::str::traits::<impl std::ops::Index",
    "std::cmp::Ord::cmp", "std::cmp::Ord::min", "std::cmp::Ord::max",
    "std::cmp::impls::<impl std::cmp::PartialEq",
    "std::cmp::impls::<impl std::cmp::PartialOrd",
    "core::str::traits::<impl std::cmp::PartialEq",
    "core::str::traits::<impl std::cmp::PartialOrd",
    "<std::string::String as std::cmp::PartialEq",
    "<str as std::cmp::PartialEq",
    "std::cmp::min", "std::cmp::max", "std::cmp::impls::<impl std::cmp::Ord for usize>::cmp",
    "<std::path::Path as std::convert::AsRef", "<std::path::PathBuf as std::convert::AsRef",
    "<str as std::convert::AsRef", "<std::string::String as std::convert::AsRef",
    "<std::ffi::OsStr as std::convert::AsRef", "<std::ffi::OsString as std::convert::AsRef",
    "<&T as std::convert::AsRef", "<P as std::convert::AsRef",
    "std::os::unix::ffi::os_str::<impl std::os::unix::ffi::OsStrExt for std::ffi::OsStr>::",
    "std::collections::HashMap::<K, V, S>::get", "std::collections::HashMap::<K, V, S>::contains_key",
    "indexmap::IndexMap::<K, V, S>::get", "indexmap::map::IndexMap::<K, V, S>::get",
)

IMPURE_EXACT = (
    "core::str::<impl str>::chars", "core::str::<impl str>::lines", "core::str::<impl str>::split",
    "core::slice::<impl [T]>::iter", "core::slice::<impl [T]>::split",
    "std::collections::HashMap::<K, V, S>::get_mut", "indexmap::map::IndexMap::<K, V, S>::get_mut",
)


def is_pure(path):
    if path in IMPURE_EXACT:
        return False
    return path.startswith(PURE_PREFIXES)


def strip_refs(t):
    """remove borrows / derefs / Deref::deref / as_str / as_ref wrappers (value identity up to borrowing)"""
    while True:
        if not isinstance(t, tuple):
            return t
        k = t[0]
        if k in ("ref", "refmut", "deref"):
            t = t[1]
            continue
        if k == "loc" and len(t) > 2:
            t = t[2]
            continue
        if k == "call" and len(t[3]) == 1 and (
                t[1].endswith("::deref") or t[1].endswith("::as_str") or t[1].endswith("::as_ref")
                or t[1].endswith("::as_path") or t[1].endswith("::as_os_str") or t[1].endswith("::as_slice")
                or t[1].endswith("::borrow") or t[1].endswith("::as_bytes") and False):
            t = t[3][0]
            continue
        if k == "cast" and t[1] in ("PointerCoercion", "Transmute") and False:
            t = t[4]
            continue
        return t


def mentions(t, pred):
    """does any sub-term satisfy pred?"""
    if isinstance(t, tuple) and t and isinstance(t[0], str) and pred(t):
        return True
    if isinstance(t, tuple):
        for x in t:
            if isinstance(x, tuple) and mentions(x, pred):
                return True
    return False


def subterms(t):
    """all non-empty tuple sub-terms (argument tuples are traversed but only headed terms are yielded)"""
    if isinstance(t, tuple) and t and isinstance(t[0], str):
        yield t
    if isinstance(t, tuple):
        for x in t:
            if isinstance(x, tuple):
                yield from subterms(x)


def term_str(t, depth=0):
    if not isinstance(t, tuple):
        return repr(t)
    if depth > 8:
        return "…"
    k = t[0]
    r = lambda x: term_str(x, depth + 1)
    if k == "param":
        return "p%d" % t[1]
    if k == "const":
        v = t[2]
        if isinstance(v, tuple) and v[0] == "char":
            return repr(v[1])
        if isinstance(v, tuple) and v[0] == "fn":
            return "fn:" + v[1]
        return repr(v)
    if k == "havoc":
        return "loopvar(_%d@bb%d)" % (t[1], t[2]) if depth > 2 or len(t) < 4 else "loopvar(_%d@bb%d init=%s)" % (t[1], t[2], r(t[3]))
    if k == "undef":
        return "undef(_%d)" % t[1]
    if k == "call":
        return "%s(%s)%s" % (t[1].split("::")[-1] if not t[1].startswith("<") else t[1], ", ".join(r(a) for a in t[3]),
                             "" if t[4] is None else "@bb%s" % (t[4],))
    if k in ("ref", "refmut", "deref", "discr"):
        return "%s(%s)" % ({"ref": "&", "refmut": "&mut ", "deref": "*", "discr": "discr"}[k], r(t[1]))
    if k == "field":
        return "%s.%s" % (r(t[1]), t[3] or t[2])
    if k == "downcast":
        return "(%s as %s)" % (r(t[1]), t[2])
    if k == "index":
        return "%s[%s]" % (r(t[1]), r(t[2]))
    if k == "binop":
        return "%s(%s, %s)" % (t[1], r(t[2]), r(t[3]))
    if k == "unop":
        return "%s(%s)" % (t[1], r(t[2]))
    if k == "cast":
        return "(%s as %s)" % (r(t[4]), t[3])
    if k == "agg":
        nm = (t[2] + ("::" + t[3] if t[3] else "")) if t[2] else t[1]
        return "%s{%s}" % (nm, ", ".join(r(a) for a in t[4]))
    if k == "mutated":
        return "mutated(_%d@%s)" % (t[1], t[2])
    return "(" + " ".join(r(x) if isinstance(x, tuple) else repr(x) for x in t) + ")"


STD_VARIANTS = {
    # adt path -> {variant name: discriminant}
    "std::option::Option": {"None": 0, "Some": 1},
    "std::result::Result": {"Ok": 0, "Err": 1},
    "std::ops::ControlFlow": {"Continue": 0, "Break": 1},
    "std::cmp::Ordering": {"Less": 255, "Equal": 0, "Greater": 1},
    "std::path::Component": {"Prefix": 0, "RootDir": 1, "CurDir": 2, "ParentDir": 3, "Normal": 4},
    "std::collections::hash_map::Entry": {"Occupied": 0, "Vacant": 1},
}


class Event:
    __slots__ = ("kind", "bb", "data")

    def __init__(self, kind, bb, **data):
        self.kind = kind
        self.bb = bb
        self.data = data

    def __getattr__(self, k):
        try:
            return self.data[k]
        except KeyError:
            raise AttributeError(k)

    def __repr__(self):
        return "Event(%s@bb%d %s)" % (self.kind, self.bb, {k: (term_str(v) if isinstance(v, tuple) else v) for k, v in self.data.items() if k != "term"})


class Path:
    def __init__(self, blocks, events, end, env, facts):
        self.blocks = blocks      # list of bb indices
        self.events = events      # list of Event
        self.end = end            # ('return', term) | ('back', header) | ('diverge', bb) | ('unreachable', bb)
        self.env = env
        self.facts = facts        # cond term -> value / ('not', excluded)

    def conds(self):
        return [e for e in self.events if e.kind == "cond"]

    def calls(self, *suffixes):
        return [e for e in self.events if e.kind == "call" and (not suffixes or any(
            e.path.endswith(x) or e.name.endswith(x) for x in suffixes))]


class PathLimit(Exception):
    pass


class PathEval:
    """Enumerate and evaluate acyclic paths of a body."""

    def __init__(self, fx, body, max_paths=20000, adt_discr=None, inline=None, _stack=(), desugar=False):
        self.fx = fx
        self.body = body
        self.max_paths = max_paths
        # inline: set of crate-local function keys that may be inlined at their call sites (helpers that did not exist when the
        # rules were written); None / empty = no inlining.  inlined: keys actually inlined (for the evidence).
        self.inline = inline or frozenset()
        self._stack = _stack
        self.inlined = set()
        # desugar: evaluate Option/Result combinators (map, and_then, unwrap_or, ok, or, ok_or, map_or, filter, is_some_and ...) as the
        # match they abbreviate, applying closure arguments by splicing the closure body in: `x.map(f)`, `match x {..}` and `if let` then
        # give the same paths.  Opt-in per rule module (DESUGAR = True): it changes which call events a path carries.
        self.desugar = desugar
        self._loop_defs = {h: body.assigned_locals(blks) for h, blks in body.loops.items()}
        self._loop_stores = {}
        self.npaths = 0

    # ---- discriminant helpers
    def variant_discr(self, adt, variant):
        base = adt.split("<")[0]
        if base in STD_VARIANTS:
            return STD_VARIANTS[base].get(variant)
        a = self.fx.adts.get(base)
        if a:
            for v in a["variants"]:
                if v["name"] == variant:
                    return v["discr"]
        return None

    # ---- evaluation of operands / places
    def read_local(self, st, l):
        env = st["env"]
        if l in env:
            return env[l]
        if 1 <= l <= self.body.arg_count:
            return ("param", l)
        return ("undef", l)

    def place_term(self, st, p):
        t = self.read_local(st, p["l"])
        for e in p["p"]:
            t = self.project(st, t, e)
        return t

    def project(self, st, t, e):
        k = e["k"]
        if k == "deref":
            if isinstance(t, tuple) and t[0] in ("ref", "refmut"):
                inner = t[1]
                if isinstance(inner, tuple) and inner[0] == "loc":
                    return self.read_local(st, inner[1])
                return inner
            r = ("deref", t)
        elif k == "field":
            if isinstance(t, tuple) and t[0] == "agg" and e["i"] < len(t[4]) and t[1] != "closure":
                return t[4][e["i"]]
            if isinstance(t, tuple) and t[0] == "downcast" and isinstance(t[1], tuple) and t[1][0] == "agg" \
                    and t[1][3] == t[2] and e["i"] < len(t[1][4]):
                return t[1][4][e["i"]]
            if isinstance(t, tuple) and t[0] == "binop" and t[1].endswith("WithOverflow"):
                if e["i"] == 0:
                    return ("binop", t[1][:-len("WithOverflow")], t[2], t[3])
                return ("overflow", t)
            r = ("field", t, e["i"], e.get("name") or "")
        elif k == "downcast":
            r = ("downcast", t, e["v"])
        elif k == "index":
            r = ("index", t, self.read_local(st, e["l"]))
        elif k == "constindex":
            r = ("index", t, ("const", "usize", (-e["offset"] if e["from_end"] else e["offset"])))
        elif k == "subslice":
            # the part of a slice pattern bound by `name @ ..`: [from : len - to] (from_end) or [from : to]
            r = ("proj", t, "subslice[%d:%s%d]" % (e["from"], "-" if e["from_end"] else "", e["to"]))
        else:
            r = ("proj", t, e.get("s", k))
        mem = st["mem"]
        if r in mem:
            return mem[r]
        return r

    def operand(self, st, o):
        k = o["k"]
        if k in ("copy", "move"):
            return self.place_term(st, o["place"])
        if k == "const":
            v = const_value(o)
            if isinstance(v, tuple) and v and v[0] == "promoted":
                r = self._promoted(v[1], v[2])
                if r is not None:
                    return r
            return ("const", o["ty"], v)
        return ("unknown", o.get("s", ""))

    _PROMOTED_CACHE = {}

    def _promoted(self, owner, idx):
        """value of a promoted constant: evaluate its (straight-line) body"""
        key = "%s::promoted[%d]" % (owner, idx)
        ck = (id(self.fx), key)
        if ck in PathEval._PROMOTED_CACHE:
            return PathEval._PROMOTED_CACHE[ck]
        f = self.fx.fns.get(key)
        r = None
        if f is not None:
            try:
                ps = PathEval(self.fx, Body(f), max_paths=8).paths()
                rets = [p for p in ps if p.end[0] == "return"]
                if len(rets) == 1:
                    r = rets[0].end[1]
            except Exception:
                r = None
        PathEval._PROMOTED_CACHE[ck] = r
        return r

    def rvalue(self, st, rv, bb):
        k = rv["k"]
        if k == "use":
            return self.operand(st, rv["op"])
        if k in ("ref", "rawptr"):
            p = rv["place"]
            mut = rv.get("bk") == "mut" or (k == "rawptr" and "Mut" in rv.get("bk", ""))
            if not p["p"]:
                # borrow of a whole local: keep the local identity so a later
                # write through the reference can be attributed
                return ("refmut", ("loc", p["l"], self.read_local(st, p["l"]))) if mut else ("ref", self.read_local(st, p["l"]))
            inner = self.place_term(st, p)
            # reborrow &*x == x
            if p["p"][-1]["k"] == "deref":
                base = dict(p)
                base = {"l": p["l"], "p": p["p"][:-1]}
                bt = self.place_term(st, base)
                if isinstance(bt, tuple) and bt[0] in ("ref", "refmut", "param", "call", "field", "havoc", "deref", "downcast", "index"):
                    if mut and isinstance(bt, tuple) and bt[0] == "ref":
                        return ("refmut", bt[1])
                    return bt
            return ("refmut" if mut else "ref", inner)
        if k == "cast":
            a = self.operand(st, rv["op"])
            if rv["ck"] in ("PointerCoercion",) and "Unsize" in rv.get("ckfull", ""):
                return a
            return ("cast", rv["ck"], rv["from"], rv["ty"], a)
        if k == "binop":
            a = self.operand(st, rv["l"])
            b = self.operand(st, rv["r"])
            return self.fold_binop(rv["op"], a, b)
        if k == "unop":
            a = self.operand(st, rv["o"])
            if rv["op"] == "Not" and isinstance(a, tuple) and a[0] == "const" and isinstance(a[2], bool):
                return ("const", "bool", not a[2])
            return ("unop", rv["op"], a)
        if k == "discr":
            t = self.place_term(st, rv["place"])
            if isinstance(t, tuple) and t[0] == "agg" and t[1] == "adt":
                d = self.variant_discr(t[2], t[3])
                if d is not None:
                    return ("const", "isize", d)
            return ("discr", t)
        if k == "aggregate":
            ops = tuple(self.operand(st, o) for o in rv["ops"])
            ak = rv["ak"]
            if ak == "adt":
                return ("agg", "adt", rv["adt"], rv["variant"], ops, tuple(rv.get("fields", ())))
            if ak == "closure":
                return ("agg", "closure", rv["closure"], None, ops, ())
            return ("agg", ak, None, None, ops, ())
        if k == "copyforderef":
            return self.place_term(st, rv["place"])
        if k == "repeat":
            return ("repeat", self.operand(st, rv["op"]), rv["n"])
        return ("unknown", rv.get("s", k))

    def fold_binop(self, op, a, b):
        if isinstance(a, tuple) and isinstance(b, tuple) and a[0] == "const" and b[0] == "const" \
                and isinstance(a[2], int) and isinstance(b[2], int) and not isinstance(a[2], bool):
            x, y = a[2], b[2]
            r = {"Eq": x == y, "Ne": x != y, "Lt": x < y, "Le": x <= y, "Gt": x > y, "Ge": x >= y}.get(op)
            if r is not None:
                return ("const", "bool", r)
            if op in ("Add", "Sub", "Mul"):
                return ("const", a[1], {"Add": x + y, "Sub": x - y, "Mul": x * y}[op])
        return ("binop", op, a, b)

    # ---- assignment
    def assign(self, st, place, val, bb, events):
        if not place["p"]:
            st["env"][place["l"]] = val
            return
        # projection write
        if not _through_deref(place):
            base = self.read_local(st, place["l"])
            # write into a field of an aggregate held in a local: rebuild if possible
            if len(place["p"]) == 1 and place["p"][0]["k"] == "field" and isinstance(base, tuple) and base[0] == "agg":
                i = place["p"][0]["i"]
                ops = list(base[4])
                if i < len(ops):
                    ops[i] = val
                    st["env"][place["l"]] = base[:4] + (tuple(ops),) + base[5:]
                    events.append(Event("store", bb, place=self._place_key(st, place), value=val, local=place["l"], raw=place))
                    return
            st["mem"][self._place_key(st, place)] = val
            events.append(Event("store", bb, place=self._place_key(st, place), value=val, local=place["l"], raw=place))
            return
        # write through a reference
        key = self._place_key(st, place)
        # (*r) = v where r = &mut local
        if len(place["p"]) == 1:
            r = self.read_local(st, place["l"])
            if isinstance(r, tuple) and r[0] == "refmut" and isinstance(r[1], tuple) and r[1][0] == "loc":
                st["env"][r[1][1]] = val
                events.append(Event("store", bb, place=("loc", r[1][1]), value=val, local=r[1][1], raw=place))
                return
        st["mem"][key] = val
        events.append(Event("store", bb, place=key, value=val, local=None, raw=place))

    def _place_key(self, st, place):
        # term for the place itself, bypassing mem lookups for the final element
        t = self.read_local(st, place["l"]) if place["p"] else ("loc", place["l"])
        if not place["p"]:
            return t
        saved = st["mem"]
        for i, e in enumerate(place["p"]):
            if i == len(place["p"]) - 1:
                st["mem"] = {}
                try:
                    t = self.project(st, t, e)
                finally:
                    st["mem"] = saved
            else:
                t = self.project(st, t, e)
        return t

    # ---- driving
    def paths(self, start=0, stop_at=None, init_env=None):
        """Enumerate paths from `start`.  A path ends at return, at a back edge,
        at a diverging call/unreachable, or on entering a block in stop_at."""
        self.npaths = 0
        out = []
        st = {"env": dict(init_env or {}), "mem": {}, "facts": {}}
        self._walk(start, st, [], [], set(), out, stop_at or set())
        return out

    def _clone(self, st):
        c = {"env": dict(st["env"]), "mem": dict(st["mem"]), "facts": dict(st["facts"])}
        if "unroll" in st:
            c["unroll"] = {k: (list(v) if v else None) for k, v in st["unroll"].items()}
        return c

    def _array_loop(self, h, st):
        """(iterator local, elements) when the loop at header h is `for x in [e0, .., eN-1]` over an array literal (by-value array iterator whose
        current value is into_iter of an array aggregate with at most 8 elements): such a loop is walked element by element instead of once
        with its variables havocked -- it is N copies of its body, exactly"""
        for b in sorted(self.body.loops[h]):
            t = self.body.blocks[b]["term"]
            if t["k"] == "call" and ("array::IntoIter<" in t["func"]["full"] or "slice::Iter<" in t["func"]["full"]) and t["func"]["path"].endswith("Iterator>::next") and t["args"]:
                byref = "slice::Iter<" in t["func"]["full"]
                a = t["args"][0]
                l = None
                if a["k"] in ("move", "copy") and not a["place"]["p"]:
                    # `&mut it`, possibly re-borrowed (`_r1 = &mut it; _r2 = &mut *_r1; next(move _r2)`)
                    cur = a["place"]["l"]
                    for _ in range(3):
                        src = [s_ for s_ in self.body.blocks[b]["stmts"] if s_["k"] == "assign" and s_["place"]["l"] == cur and not s_["place"]["p"] and s_["rv"]["k"] == "ref"]
                        if not src:
                            break
                        pl = src[-1]["rv"]["place"]
                        if not pl["p"]:
                            l = pl["l"]
                            break
                        if [e["k"] for e in pl["p"]] == ["deref"]:
                            cur = pl["l"]
                        else:
                            break
                if l is None:
                    return None
                v = self.read_local(st, l)
                while isinstance(v, tuple) and v and v[0] in ("ref", "refmut"):
                    v = v[1]
                if isinstance(v, tuple) and v and v[0] == "call" and ((v[1].endswith("::into_iter") and "IntoIterator" in v[1]) or v[1].endswith("[T]>::iter")) and v[3]:
                    # an array literal, or a constant table (`for x in TABLE` / `for x in &TABLE` / `for x in TABLE.iter()`)
                    elems = self._const_elems(v[3][0])
                    if elems is not None and len(elems) <= 16:
                        return l, tuple(("ref", e) for e in elems) if byref else tuple(elems)
                return None
        return None

    def _finish(self, out, blocks, events, end, st):
        self.npaths += 1
        if self.npaths > self.max_paths:
            raise PathLimit("%s: more than %d paths" % (self.body.key, self.max_paths))
        out.append(Path(list(blocks), list(events), end, st["env"], st["facts"]))

    def _walk(self, bb, st, blocks, events, onpath, out, stop_at):
        body = self.body
        while True:
            if bb in onpath:
                un = st.get("unroll", {}).get(bb)
                if un and un[2] <= len(un[1]):
                    # the next element of a loop over an array literal: walk its body again
                    onpath = onpath - self.body.loops[bb]
                else:
                    # back edge (or re-entry): stop here
                    self._finish(out, blocks, events, ("back", bb), st)
                    return
            if bb in stop_at and blocks:
                self._finish(out, blocks, events, ("stop", bb), st)
                return
            if bb in body.loops and "unroll" not in st:
                st["unroll"] = {}
            if bb in body.loops and bb not in st["unroll"]:
                al = self._array_loop(bb, st)
                st["unroll"][bb] = [al[0], al[1], 0] if al else None
            if bb in body.loops and st["unroll"][bb]:
                pass
            elif bb in body.loops:
                for l in self._loop_defs[bb]:
                    st["env"][l] = ("havoc", l, bb, self.read_local(st, l))
                # forget memory facts that may be overwritten in the loop
                for key in list(st["mem"].keys()):
                    del st["mem"][key]
                for key in [k for k in st["facts"] if mentions(k, lambda x: isinstance(x, tuple) and x and x[0] == "havoc" and x[2] == bb)]:
                    del st["facts"][key]
            onpath = onpath | {bb}
            blocks = blocks + [bb]
            blk = body.blocks[bb]
            for si, s in enumerate(blk["stmts"]):
                if s["k"] == "assign":
                    val = self.rvalue(st, s["rv"], bb)
                    self.assign(st, s["place"], val, bb, events)
                elif s["k"] == "setdiscr":
                    events.append(Event("setdiscr", bb, place=self._place_key(st, s["place"]), vi=s["vi"]))
            t = blk["term"]
            k = t["k"]
            if k == "goto":
                bb = t["t"]
                continue
            if k == "drop":
                bb = t["target"]
                continue
            if k == "return":
                self._finish(out, blocks, events, ("return", self.read_local(st, 0)), st)
                return
            if k in ("unreachable", "resume"):
                self._finish(out, blocks, events, ("unreachable", bb), st)
                return
            if k == "assert":
                c = self.operand(st, t["cond"])
                events = events + [Event("assert", bb, cond=c, expected=t["expected"], msg=t["msg"],
                                         mops=tuple(self.operand(st, o) for o in t["mops"]))]
                bb = t["target"]
                continue
            if k == "call":
                f = t["func"]
                args = tuple(self.operand(st, a) for a in t["args"])
                path = f["path"]
                if norm_path(path) in ("std::mem::take", "core::mem::take", "std::mem::replace", "core::mem::replace") and args and t["target"] is not None \
                        and isinstance(args[0], tuple) and args[0]:
                    # mem::take(&mut x) / mem::replace(&mut x, v): evaluates to the old value of x and stores the type's default / v into x
                    # (the argument is `&mut x` itself, or a `&mut` reference held in a variable / captured by a closure: the place is what it points to)
                    plc = args[0][1] if args[0][0] == "refmut" and isinstance(args[0][1], tuple) else ("deref", args[0])
                    is_take = norm_path(path).endswith("::take")
                    ty = (f.get("gargs") or ["?"])[0]
                    if is_take:
                        newv = ("const", "bool", False) if ty == "bool" else (("const", ty, 0) if ty in ("usize", "u8", "u16", "u32", "u64", "i8", "i16", "i32", "i64", "isize") else
                                                                              ("call", "<T as std::default::Default>::default", (ty,), (), None))
                    else:
                        newv = args[1] if len(args) > 1 else None
                    if newv is not None:
                        if plc[0] == "loc":
                            old = plc[2] if len(plc) > 2 else self.read_local(st, plc[1])
                            st["env"][plc[1]] = newv
                            events = events + [Event("store", bb, place=("loc", plc[1]), value=newv, local=plc[1], raw=None)]
                        else:
                            old = st["mem"].get(plc, plc)
                            st["mem"][plc] = newv
                            events = events + [Event("store", bb, place=plc, value=newv, local=None, raw=None)]
                        self.assign(st, t["dest"], old, bb, events)
                        bb = t["target"]
                        continue
                if ("array::IntoIter<" in f["full"] or "slice::Iter<" in f["full"]) and path.endswith("Iterator>::next") and args and st.get("unroll"):
                    r = args[0]
                    rl = r[1][1] if isinstance(r, tuple) and r[0] == "refmut" and isinstance(r[1], tuple) and r[1][0] == "loc" else None
                    hit = [u for u in st["unroll"].values() if u and u[0] == rl]
                    if hit and t["target"] is not None:
                        u = hit[0]
                        OPT = "std::option::Option"
                        item = ("agg", "adt", OPT, "Some", (u[1][u[2]],), ("0",)) if u[2] < len(u[1]) else ("agg", "adt", OPT, "None", (), ())
                        u[2] += 1
                        self.assign(st, t["dest"], item, bb, events)
                        bb = t["target"]
                        continue
                if self.desugar and len(args) == 2 and t["target"] is not None and norm_path(path).endswith("<impl [T]>::split_at") and "str" not in path:
                    # slice.split_at(i) evaluated as the pair (&slice[..i], &slice[i..]) it is defined as (either half panics exactly when
                    # i > len, like split_at itself), so that every rule that understands slicing understands this spelling too
                    IDX = "core::slice::index::<impl std::ops::Index<I> for [T]>::index"
                    ety = (tuple(f.get("gargs", ())) or ("?",))[0]
                    parts = []
                    for rname, fld in (("RangeTo", "end"), ("RangeFrom", "start")):
                        rg = ("agg", "adt", "std::ops::" + rname, rname, (args[1],), (fld,))
                        ga = (ety, "std::ops::%s<usize>" % rname)
                        iv = ("call", IDX, ga, (args[0], rg), None if is_pure(IDX) else bb)
                        fd = dict(f, path=IDX, gargs=list(ga), full="core::slice::index::<impl std::ops::Index<std::ops::%s<usize>> for [%s]>::index" % (rname, ety))
                        events = events + [Event("call", bb, path=IDX, name=norm_path(IDX), full=fd["full"], func=fd, args=(args[0], rg), dest=None, term=iv, diverges=False)]
                        parts.append(("ref", iv))
                    self.assign(st, t["dest"], ("agg", "tuple", None, None, tuple(parts), ()), bb, events)
                    bb = t["target"]
                    continue
                if path.endswith("box_assume_init_into_vec_unsafe"):
                    # `vec![a, b]` (current expansion: the array is written into an uninitialised box, which is then turned into a Vec):
                    # evaluated as the older expansion `<[_]>::into_vec(Box::new([a, b]))`, i.e. into_vec([a, b])
                    arr = [e.value for e in events if e.kind == "store" and e.bb == bb and isinstance(e.value, tuple) and e.value[:2] == ("agg", "array")]
                    if arr:
                        path = "alloc::slice::<impl [T]>::into_vec"
                        args = (arr[-1],)
                site = None if is_pure(path) else bb
                val = ("call", path, tuple(f.get("gargs", ())), args, site)
                folded = _fold_try(path, args, tuple(f.get("gargs", ())))
                if folded is None and len(args) == 1 and norm_path(path).rsplit("::", 1)[-1] in ("is_some", "is_none", "is_ok", "is_err") and ("Option" in path or "Result" in path):
                    # is_some() & co. of a literal Some(..)/None/Ok(..)/Err(..) (arises when a helper returning a literal was inlined)
                    a0 = args[0]
                    while isinstance(a0, tuple) and a0 and a0[0] in ("ref", "refmut"):
                        a0 = a0[1]
                    if isinstance(a0, tuple) and a0[:2] == ("agg", "adt") and a0[3] in ("Some", "None", "Ok", "Err"):
                        meth = norm_path(path).rsplit("::", 1)[-1]
                        folded = ("const", "bool", {"is_some": a0[3] == "Some", "is_none": a0[3] == "None", "is_ok": a0[3] == "Ok", "is_err": a0[3] == "Err"}[meth])
                if folded is None and len(args) == 1 and path.endswith("::len") and ("[T]>::len" in path or "[u8]>::len" in path or "str>::len" in path):
                    a0 = args[0]
                    while isinstance(a0, tuple) and a0 and a0[0] in ("ref", "deref"):
                        a0 = a0[1]
                    if isinstance(a0, tuple) and a0 and a0[0] == "const":
                        if isinstance(a0[2], tuple) and a0[2] and a0[2][0] == "bytes":
                            folded = ("const", "usize", len(a0[2][1]))          # the length of a constant byte string
                        elif isinstance(a0[2], str):
                            folded = ("const", "usize", len(a0[2].encode("utf-8")))
                if folded is not None and t["target"] is not None:
                    # `?` applied to a literal Ok/Err/Some/None (arises when a fallible helper was inlined): no call, no event
                    self.assign(st, t["dest"], folded, bb, events)
                    bb = t["target"]
                    continue
                ev = Event("call", bb, path=path, name=norm_path(path), full=f["full"], func=f, args=args, dest=t["dest"], term=val,
                           diverges=t["target"] is None)
                events = events + [ev]
                # &mut arguments to whole locals: the local is mutated
                for a in args:
                    if isinstance(a, tuple) and a[0] == "refmut" and isinstance(a[1], tuple) and a[1][0] == "loc":
                        l = a[1][1]
                        st["env"][l] = ("mutated", l, bb, None)
                if t["target"] is None:
                    self._finish(out, blocks, events, ("diverge", bb), st)
                    return
                alts = self._desugar(path, args, tuple(f.get("gargs", ())), bb) if self.desugar else None
                if alts is None and self.desugar and len(args) == 2 and path.rsplit("::", 1)[-1] in ("find", "any", "all", "position") and "Iterator" in path:
                    alts = self._find_in_const_table(args, bb, path.rsplit("::", 1)[-1])
                if alts is None and len(args) == 2 and ((path.rsplit("::", 1)[-1] in ("call", "call_mut", "call_once") and ("ops::Fn" in path or "function::Fn" in path))
                                                        or (self.fx.fns.get(path) or {}).get("kind") == "Closure"):
                    # a local closure called directly is a local helper: splice its body in (none exists in the tree the rules were written against)
                    tup = args[1]
                    if isinstance(tup, tuple) and tup and tup[0] == "agg" and tup[1] == "tuple":
                        cand = self._apply(args[0], tup[4], bb)
                        if not (len(cand) == 1 and isinstance(cand[0][2], tuple) and cand[0][2][:2] == ("call", "closure-apply")):
                            alts = cand
                if alts is not None:
                    events = events[:-1]
                    for (aevents, afacts, aval) in alts:
                        st2 = self._clone(st)
                        if not self._assume(st2, afacts):
                            continue
                        evs = events + [Event("cond", bb, term=c, fact=fact) for (c, fact) in afacts if not (isinstance(c, tuple) and c and c[0] == "const")] + list(aevents)
                        for e in aevents:
                            if e.kind == "store":
                                st2["mem"][e.place] = e.value
                        if aval is None:
                            self._finish(out, blocks, evs, ("diverge", bb), st2)
                            continue
                        evs2 = list(evs)
                        self.assign(st2, t["dest"], aval, bb, evs2)
                        self._walk(t["target"], st2, blocks, evs2, onpath, out, stop_at)
                    return
                summ = self._inline_summary(path) if self.inline else None
                if summ is not None and (self.fx.fns.get(path) or {}).get("kind") == "Closure" and len(args) == 2 and isinstance(args[1], tuple) and args[1][:2] == ("agg", "tuple"):
                    # a closure is called with its arguments packed in one tuple; its body names them one by one
                    args = (args[0],) + tuple(args[1][4])
                if summ is not None:
                    # a helper introduced after the rules were written: splice its paths in instead of an opaque call
                    events = events[:-1]
                    for (cevents, cfacts, cend) in summ:
                        sub = _Subst(args, bb, path if path in self.fx.fns else norm_path(path), self.body.key)
                        st2 = self._clone(st)
                        feasible = True
                        for c, fact in cfacts:
                            c2 = sub(c)
                            known = self._known(st2, c2)
                            if known is not None and fact[0] == "eq" and ((known[0] == "eq" and known[1] != fact[1]) or (known[0] == "ne" and fact[1] in known[1])):
                                feasible = False
                                break
                            if known is not None and fact[0] == "ne" and known[0] == "eq" and known[1] in fact[1]:
                                feasible = False
                                break
                            if not (isinstance(c2, tuple) and c2 and c2[0] == "const"):
                                st2["facts"][c2] = fact
                        if not feasible:
                            continue
                        evs = events + [sub.event(e) for e in cevents]
                        # a caller local handed on as &mut is mutated by the calls the helper makes with it; stores through it land in the caller's memory
                        for e in evs[len(events):]:
                            if e.kind == "store":
                                st2["mem"][e.place] = e.value
                            if e.kind == "call":
                                for a in e.args:
                                    if isinstance(a, tuple) and a[0] == "refmut" and isinstance(a[1], tuple) and a[1][0] == "loc":
                                        st2["env"][a[1][1]] = ("mutated", a[1][1], bb, None)
                        if cend[0] == "return":
                            evs2 = list(evs)
                            self.assign(st2, t["dest"], sub(cend[1]), bb, evs2)
                            self._walk(t["target"], st2, blocks, evs2, onpath, out, stop_at)
                        else:
                            self._finish(out, blocks, evs, ("diverge", bb), st2)
                    return
                self.assign(st, t["dest"], val, bb, events)
                bb = t["target"]
                continue
            if k == "switch":
                c = self.operand(st, t["op"])
                c, flip = self._norm_cond(c)
                known = self._known(st, c)
                succs = []
                for v, tb in t["targets"]:
                    succs.append((v, tb))
                allvals = tuple(v for v, _ in t["targets"])
                branches = []
                for v, tb in succs:
                    vv = self._unflip(v, flip, t["ty"])
                    if known is not None:
                        if known[0] == "eq" and known[1] != vv:
                            continue
                        if known[0] == "ne" and vv in known[1]:
                            continue
                    branches.append((("eq", vv), tb))
                # otherwise edge
                excl = tuple(self._unflip(v, flip, t["ty"]) for v in allvals)
                take_other = True
                if known is not None and known[0] == "eq" and known[1] in excl:
                    take_other = False
                if t["ty"] == "bool" and len(excl) == 1:
                    ov = (not excl[0]) if isinstance(excl[0], bool) else (1 - excl[0])
                    if known is not None and known[0] == "eq" and known[1] != ov:
                        take_other = False
                    if take_other:
                        branches.append((("eq", ov), t["otherwise"]))
                elif take_other:
                    # is `otherwise` reachable at all?  (enum switches end in unreachable)
                    branches.append((("ne", excl), t["otherwise"]))
                for (fact, tb) in branches:
                    st2 = self._clone(st)
                    if not (isinstance(c, tuple) and c[0] == "const"):
                        if fact[0] == "eq":
                            st2["facts"][c] = fact
                        else:
                            old = st2["facts"].get(c)
                            if old and old[0] == "ne":
                                fact = ("ne", tuple(sorted(set(old[1]) | set(fact[1]), key=repr)))
                            st2["facts"][c] = fact
                    if isinstance(c, tuple) and c[0] == "const":
                        evs = events  # drop-flag / constant switches carry no information
                    else:
                        evs = events + [Event("cond", bb, term=c, fact=fact)]
                    self._walk(tb, st2, blocks, evs, onpath, out, stop_at)
                return
            # anything else: treat as end
            self._finish(out, blocks, events, ("other", bb), st)
            return

    def _assume(self, st, facts):
        """add (cond, fact) pairs to st['facts']; False if they contradict what the path already assumes"""
        for c, fact in facts:
            known = self._known(st, c)
            if known is not None:
                if fact[0] == "eq" and ((known[0] == "eq" and known[1] != fact[1]) or (known[0] == "ne" and fact[1] in known[1])):
                    return False
                if fact[0] == "ne" and known[0] == "eq" and known[1] in fact[1]:
                    return False
            if not (isinstance(c, tuple) and c and c[0] == "const"):
                st["facts"][c] = fact
        return True

    # ---- Option / Result combinators as the matches they abbreviate
    def _payload(self, o, variant):
        if isinstance(o, tuple) and o and o[0] == "agg" and o[1] == "adt" and o[3] == variant and o[4]:
            return o[4][0]
        return ("field", ("downcast", o, variant), 0, "")

    def _discr(self, o):
        if isinstance(o, tuple) and o and o[0] == "agg" and o[1] == "adt":
            d = self.variant_discr(o[2], o[3])
            if d is not None:
                return ("const", "isize", d)
        return ("discr", o)

    def _const_elems(self, tab, depth=0):
        while isinstance(tab, tuple) and tab and tab[0] in ("ref", "refmut", "deref"):
            tab = tab[1]
        if depth < 4 and isinstance(tab, tuple) and tab and tab[0] == "call" and tab[3] and (tab[1].endswith("[T]>::iter") or (tab[1].endswith("::into_iter") and "IntoIterator" in tab[1])):
            return self._const_elems(tab[3][0], depth + 1)       # into_iter() of an iterator is that iterator; iter() of a table walks the table
        if depth < 4 and isinstance(tab, tuple) and tab and tab[0] == "cast" and len(tab) > 2:
            return self._const_elems(tab[-1], depth + 1)
        if isinstance(tab, tuple) and tab[:1] == ("const",) and isinstance(tab[2], tuple) and tab[2] and tab[2][0] == "promoted" and depth < 4:
            # a promoted constant: the value its body returns
            key = "%s::promoted[%d]" % (tab[2][1], tab[2][2])
            f = self.fx.fns.get(key)
            if f is not None:
                try:
                    ps = PathEval(self.fx, Body(f)).paths()
                except Exception:
                    ps = []
                rets = [p.end[1] for p in ps if p.end[0] == "return"]
                if len(rets) == 1:
                    return self._const_elems(rets[0], depth + 1)
            return None
        if isinstance(tab, tuple) and tab[:1] == ("const",) and isinstance(tab[2], tuple) and tab[2] and tab[2][0] == "raw":
            return parse_const_table(tab[2][1], tab[1])
        if isinstance(tab, tuple) and tab[:2] == ("agg", "array"):
            return tab[4]
        return None

    def _find_in_const_table(self, args, bb, how="find"):
        """TABLE.iter().find(pred) / .any(pred) / .all(pred) / .position(pred) over a constant array of at most 16 known elements, evaluated as
        the if-chain it abbreviates: element 0 if pred holds for it, else element 1 if .., else None (find); true at the first element that passes
        (any) / false at the first that fails (all).  (A table of (name, value) pairs searched by name is a `match` on the name.)"""
        it = args[0]
        while isinstance(it, tuple) and it and it[0] in ("refmut", "ref"):
            it = it[1]
        if isinstance(it, tuple) and it and it[0] == "loc" and len(it) > 2:
            it = it[2]
        if not (isinstance(it, tuple) and it and it[0] == "call" and it[3]):
            return None
        byval = False
        if it[1].endswith("[T]>::iter") or (it[1].endswith("::into_iter") and "IntoIterator for &" in it[1] and "[T; N]" in it[1]):
            pass
        elif it[1].endswith("::into_iter") and "IntoIterator for [T; N]" in it[1]:
            byval = True        # the array itself is consumed: the items are the elements, not references to them
        else:
            return None
        elems = self._const_elems(it[3][0])
        if not elems or len(elems) > 16:
            return None
        OPT = "std::option::Option"
        T, F = ("const", "bool", True), ("const", "bool", False)
        out = []
        prefix = []          # facts: the predicate failed (all: passed) on every earlier element
        stop_on = how != "all"      # the truth value of the predicate that ends the scan

        def hit(i, e):
            return {"find": ("agg", "adt", OPT, "Some", ((e if byval else ("ref", e)),), ("0",)), "position": ("agg", "adt", OPT, "Some", (("const", "usize", i),), ("0",)), "any": T, "all": F}[how]
        miss = {"find": ("agg", "adt", OPT, "None", (), ()), "position": ("agg", "adt", OPT, "None", (), ()), "any": F, "all": T}[how]
        for i, e in enumerate(elems):
            item = e if byval else ("ref", e)
            r = self._apply(args[1], (("ref", item),) if how == "find" else (item,), bb)
            if len(r) != 1 or r[0][1] or r[0][2] is None or (isinstance(r[0][2], tuple) and r[0][2][:2] == ("call", "closure-apply")):
                return None
            v = r[0][2]
            if isinstance(v, tuple) and v[0] == "const" and isinstance(v[2], bool):
                if v[2] == stop_on:
                    out.append(([], list(prefix), hit(i, e)))
                    return out
                continue
            out.append(([], list(prefix) + [(v, ("eq", stop_on))], hit(i, e)))
            prefix.append((v, ("eq", not stop_on)))
        out.append(([], list(prefix), miss))
        return out

    def _apply(self, f, args, bb):
        """[(events, facts, value-or-None)] for applying a closure / fn item to argument terms"""
        if isinstance(f, tuple) and f and f[0] in ("ref", "refmut"):
            f = f[1]
        if isinstance(f, tuple) and f and f[0] == "agg" and f[1] == "closure":
            key = f[2]
            fn = self.fx.fns.get(key)
            summ = self._inline_summary(key, force=True) if fn is not None else None
            if summ is not None:
                byref = fn["locals"][1]["ty"].startswith("&") if len(fn["locals"]) > 1 else False
                env = ("ref", f) if byref else f
                out = []
                for (cevents, cfacts, cend) in summ:
                    sub = _Subst((env,) + tuple(args), bb, key, self.body.key)
                    out.append(([sub.event(e) for e in cevents if e.kind != "cond"], [(sub(c), fact) for c, fact in cfacts], sub(cend[1]) if cend[0] == "return" else None))
                return out
            return [([], [], ("call", "closure-apply", (), (f,) + tuple(args), bb))]
        if isinstance(f, tuple) and f and f[0] == "const" and isinstance(f[2], tuple) and f[2] and f[2][0] == "fn":
            path = f[2][1]
            summ = self._inline_summary(path) if self.inline else None
            if summ is not None:
                out = []
                for (cevents, cfacts, cend) in summ:
                    sub = _Subst(tuple(args), bb, path if path in self.fx.fns else norm_path(path), self.body.key)
                    out.append(([sub.event(e) for e in cevents if e.kind != "cond"], [(sub(c), fact) for c, fact in cfacts], sub(cend[1]) if cend[0] == "return" else None))
                return out
            return [([], [], ("call", path, (), tuple(args), None if is_pure(path) else bb))]
        return [([], [], ("call", "closure-apply", (), (f,) + tuple(args), bb))]

    def _desugar(self, path, args, gargs, bb):
        q = norm_path(path)
        if path.endswith("Try>::branch") and len(args) == 1 and ("std::option::Option<" in path or "std::result::Result<" in path):
            # `x?` is `match x { Some(v)/Ok(v) => v, None/Err(e) => return ..from_residual(..) }`
            o = args[0]
            CF = "std::ops::ControlFlow"
            d = self._discr(o)
            if "std::option::Option<" in path.split(" as ")[0]:
                return [([], [(d, ("eq", 1))], ("agg", "adt", CF, "Continue", (self._payload(o, "Some"),), ())),
                        ([], [(d, ("eq", 0))], ("agg", "adt", CF, "Break", (("agg", "adt", "std::option::Option", "None", (), ()),), ()))]
            return [([], [(d, ("eq", 0))], ("agg", "adt", CF, "Continue", (self._payload(o, "Ok"),), ())),
                    ([], [(d, ("eq", 1))], ("agg", "adt", CF, "Break", (("agg", "adt", "std::result::Result", "Err", (self._payload(o, "Err"),), ()),), ()))]
        if q.startswith("std::option::Option::") or q.startswith("core::option::Option::"):
            ty, m = "O", q.rsplit("::", 1)[1]
        elif q.startswith("std::result::Result::") or q.startswith("core::result::Result::"):
            ty, m = "R", q.rsplit("::", 1)[1]
        else:
            return None
        if not args:
            return None
        o = args[0]
        if isinstance(o, tuple) and o and o[0] in ("ref",) and m in ("is_some_and", "is_ok_and"):
            o = o[1]
        OPT, RES = "std::option::Option", "std::result::Result"

        def some(x):
            return ("agg", "adt", OPT, "Some", (x,), ())

        def none():
            return ("agg", "adt", OPT, "None", (), ())

        def okv(x):
            return ("agg", "adt", RES, "Ok", (x,), ())

        def errv(x):
            return ("agg", "adt", RES, "Err", (x,), ())
        d = self._discr(o)
        if ty == "O":
            yes, no = (d, ("eq", 1)), (d, ("eq", 0))
            pv = self._payload(o, "Some")
        else:
            yes, no = (d, ("eq", 0)), (d, ("eq", 1))
            pv = self._payload(o, "Ok")
            ev = self._payload(o, "Err")

        def lift(alts, fact, wrap=lambda v: v):
            return [(e, [fact] + fs, (wrap(v) if v is not None else None)) for (e, fs, v) in alts]
        T, F = ("const", "bool", True), ("const", "bool", False)
        if ty == "O":
            if m == "map" and len(args) == 2:
                return lift(self._apply(args[1], (pv,), bb), yes, some) + [([], [no], none())]
            if m == "and_then" and len(args) == 2:
                return lift(self._apply(args[1], (pv,), bb), yes) + [([], [no], none())]
            if m == "unwrap_or" and len(args) == 2:
                return [([], [yes], pv), ([], [no], args[1])]
            if m == "unwrap_or_else" and len(args) == 2:
                return [([], [yes], pv)] + lift(self._apply(args[1], (), bb), no)
            if m == "unwrap_or_default" and len(args) == 1:
                return [([], [yes], pv), ([], [no], ("call", "std::default::Default::default", gargs, (), None))]
            if m == "or" and len(args) == 2:
                return [([], [yes], some(pv)), ([], [no], args[1])]
            if m == "or_else" and len(args) == 2:
                return [([], [yes], some(pv))] + lift(self._apply(args[1], (), bb), no)
            if m == "ok_or" and len(args) == 2:
                return [([], [yes], okv(pv)), ([], [no], errv(args[1]))]
            if m == "ok_or_else" and len(args) == 2:
                return [([], [yes], okv(pv))] + lift(self._apply(args[1], (), bb), no, errv)
            if m == "map_or" and len(args) == 3:
                return lift(self._apply(args[2], (pv,), bb), yes) + [([], [no], args[1])]
            if m == "map_or_else" and len(args) == 3:
                return lift(self._apply(args[2], (pv,), bb), yes) + lift(self._apply(args[1], (), bb), no)
            if m == "is_some_and" and len(args) == 2:
                return lift(self._apply(args[1], (pv,), bb), yes) + [([], [no], F)]
            if m == "is_none_or" and len(args) == 2:
                return lift(self._apply(args[1], (pv,), bb), yes) + [([], [no], T)]
            if m == "filter" and len(args) == 2:
                out = [([], [no], none())]
                for (e, fs, v) in self._apply(args[1], (("ref", pv),), bb):
                    if v is None:
                        out.append((e, [yes] + fs, None))
                    elif isinstance(v, tuple) and v[0] == "const" and isinstance(v[2], bool):
                        out.append((e, [yes] + fs, some(pv) if v[2] else none()))
                    else:
                        out.append((e, [yes] + fs + [(v, ("eq", True))], some(pv)))
                        out.append((e, [yes] + fs + [(v, ("eq", False))], none()))
                return out
            return None
        # Result
        if m == "ok" and len(args) == 1:
            return [([], [yes], some(pv)), ([], [no], none())]
        if m == "err" and len(args) == 1:
            return [([], [yes], none()), ([], [no], some(ev))]
        if m == "map" and len(args) == 2:
            return lift(self._apply(args[1], (pv,), bb), yes, okv) + [([], [no], errv(ev))]
        if m == "map_err" and len(args) == 2:
            return [([], [yes], okv(pv))] + lift(self._apply(args[1], (ev,), bb), no, errv)
        if m == "and_then" and len(args) == 2:
            return lift(self._apply(args[1], (pv,), bb), yes) + [([], [no], errv(ev))]
        if m == "or_else" and len(args) == 2:
            return [([], [yes], okv(pv))] + lift(self._apply(args[1], (ev,), bb), no)
        if m == "unwrap_or" and len(args) == 2:
            return [([], [yes], pv), ([], [no], args[1])]
        if m == "unwrap_or_else" and len(args) == 2:
            return [([], [yes], pv)] + lift(self._apply(args[1], (ev,), bb), no)
        if m == "unwrap_or_default" and len(args) == 1:
            return [([], [yes], pv), ([], [no], ("call", "std::default::Default::default", gargs, (), None))]
        if m == "is_ok_and" and len(args) == 2:
            return lift(self._apply(args[1], (pv,), bb), yes) + [([], [no], F)]
        if m == "is_err_and" and len(args) == 2:
            return [([], [yes], F)] + lift(self._apply(args[1], (ev,), bb), no)
        return None

    _INLINE_CACHE = {}

    def _inline_summary(self, path, force=False):
        """[(events, [(cond, fact)...], end)] for an inlinable callee, else None.  Inlinable: listed in self.inline, not on the
        current inlining stack, no loops, at most 12 paths, every path returns or diverges, and no term refers to a callee local
        by identity (no &mut-to-local, havoc, mutated, undef): the callee is a pure function of its arguments as far as the terms go."""
        key = path if path in self.fx.fns else norm_path(path)
        if (key not in self.inline and not force) or key in self._stack or len(self._stack) >= 3 or key not in self.fx.fns:
            return None
        ck = (id(self.fx), key, self.inline if isinstance(self.inline, frozenset) else frozenset(self.inline), self.desugar)
        if ck in PathEval._INLINE_CACHE:
            r = PathEval._INLINE_CACHE[ck]
        else:
            r = None
            f = self.fx.fns.get(key)
            try:
                b = Body(f)
                if not b.loops:
                    pe = PathEval(self.fx, b, max_paths=12, inline=self.inline, _stack=self._stack + (key,), desugar=self.desugar)
                    ps = pe.paths()
                    ok = all(p.end[0] in ("return", "diverge", "unreachable") for p in ps)
                    bad_heads = ("havoc", "undef")      # callee-local `loc` / `mutated` identities are renamed apart on substitution (_Subst)
                    summ = []
                    for p in ps:
                        if p.end[0] == "unreachable":
                            continue
                        terms = [p.end[1]] if p.end[0] == "return" else []
                        for e in p.events:
                            terms += [v for v in e.data.values() if isinstance(v, tuple)]
                            if e.kind == "store" and isinstance(e.place, tuple) and mentions(e.place, lambda x: x[0] == "call" and x[1].endswith("::new_uninit") and "Box" in x[1]) \
                                    and not mentions(e.place, lambda x: x[0] in ("loc", "havoc", "mutated", "param")):
                                continue        # the element store of `vec![..]` into its fresh allocation (the vector itself is modelled as into_vec([..]))
                            if e.kind == "store" and not (isinstance(e.place, tuple) and mentions(e.place, lambda x: x[0] == "param")):
                                ok = False      # a store that is not through a parameter (a callee-local aggregate being patched)
                        if any(mentions(t_, lambda x: x[0] in bad_heads) for t_ in terms if isinstance(t_, tuple)):
                            ok = False
                        summ.append(([e for e in p.events], [(e.term, e.fact) for e in p.events if e.kind == "cond"], p.end))
                    if ok and summ:
                        r = summ
            except Exception:
                r = None
            PathEval._INLINE_CACHE[ck] = r
        if r is not None:
            self.inlined.add(key)
        return r

    def _norm_cond(self, c):
        flip = False
        while isinstance(c, tuple) and c[0] == "unop" and c[1] == "Not":
            c = c[2]
            flip = not flip
        return c, flip

    def _unflip(self, v, flip, ty):
        if ty == "bool":
            b = bool(v)
            return (not b) if flip else b
        return v

    @staticmethod
    def _eq_atom(c):
        """(scrutinee, constant) if c is an equality test of something against a constant"""
        if not isinstance(c, tuple):
            return None
        if c[0] == "binop" and c[1] == "Eq":
            a, b = c[2], c[3]
        elif c[0] == "call" and "PartialEq" in c[1] and c[1].endswith("::eq") and len(c[3]) == 2:
            a, b = strip_refs(c[3][0]), strip_refs(c[3][1])
        else:
            return None
        if isinstance(b, tuple) and b[0] == "const" and not (isinstance(a, tuple) and a[0] == "const"):
            return (a, b[2])
        if isinstance(a, tuple) and a[0] == "const" and not (isinstance(b, tuple) and b[0] == "const"):
            return (b, a[2])
        return None

    def _known(self, st, c):
        if isinstance(c, tuple) and c[0] == "const":
            v = c[2]
            return ("eq", v)
        if isinstance(c, tuple) and len(c) == 4 and c[0] == "binop":
            # a comparison of two constants (a helper's `idx == 0` once the caller's literal argument is substituted)
            f = self.fold_binop(c[1], c[2], c[3])
            if isinstance(f, tuple) and f[0] == "const":
                return ("eq", f[2])
        k = st["facts"].get(c)
        if k is not None:
            return k
        # mutual exclusion: x == c1 already assumed true  =>  x == c2 is false for c2 != c1
        at = self._eq_atom(c)
        if at is not None:
            for fc, fv in st["facts"].items():
                if fv == ("eq", True):
                    fa = self._eq_atom(fc)
                    if fa is not None and fa[0] == at[0] and fa[1] != at[1]:
                        return ("eq", False)
        return None


def _fold_try(path, args, gargs=()):
    """Try::branch / FromResidual::from_residual applied to a literal Option/Result aggregate, evaluated"""
    if len(args) == 1 and path.endswith("Try>::branch") and isinstance(args[0], tuple) and args[0] and args[0][0] == "call" \
            and "FromResidual" in args[0][1] and args[0][1].endswith("::from_residual"):
        # from_residual never yields Ok/Some: re-raising it is always the Break edge
        return ("agg", "adt", "std::ops::ControlFlow", "Break", (args[0],), ())
    if len(args) != 1 or not (isinstance(args[0], tuple) and args[0] and args[0][0] == "agg" and args[0][1] == "adt"):
        return None
    a = args[0]
    base = str(a[2]).split("<")[0]
    if base not in ("std::result::Result", "std::option::Option"):
        return None
    if path.endswith("Try>::branch"):
        if a[3] in ("Ok", "Some"):
            return ("agg", "adt", "std::ops::ControlFlow", "Continue", (a[4][0],), ())
        if a[3] in ("Err", "None"):
            return ("agg", "adt", "std::ops::ControlFlow", "Break", (a,), ())
    if "FromResidual" in path and path.endswith("::from_residual"):
        if a[3] == "Err":
            if len(gargs) == 3 and gargs[1] == gargs[2]:
                return ("agg", "adt", "std::result::Result", "Err", (a[4][0],), ())   # From<T> for T is the identity
            return ("agg", "adt", "std::result::Result", "Err", (("call", "<F as std::convert::From<E>>::from", tuple(gargs[1:]), (a[4][0],), None),), ())
        if a[3] == "None":
            return ("agg", "adt", "std::option::Option", "None", (), ())
    return None


INLINED_SITES = {}      # (caller key, renamed call-site id) -> (callee key, call-site block in the callee): lets format-site lookups follow inlined calls


class _Subst:
    """substitute a callee's parameters by the argument terms of one call site; callee call-site ids are made unique per caller site;
    events are re-homed to the caller's call block so that spans / loop membership refer to the caller"""

    def __init__(self, args, bb, callee=None, caller=None):
        self.args = args
        self.bb = bb
        self.callee = callee
        self.caller = caller
        self.memo = {}

    def __call__(self, t):
        if not isinstance(t, tuple) or not t:
            return t
        try:
            if t in self.memo:
                return self.memo[t]
        except TypeError:
            return t
        if t[0] == "param" and len(t) == 2 and isinstance(t[1], int):
            r = self.args[t[1] - 1] if 1 <= t[1] <= len(self.args) else t
        elif t[0] in ("loc", "mutated") and len(t) > 1 and isinstance(t[1], int) and t[1] >= 0:
            # a local of the inlined callee: keep its identity apart from the caller's locals (argument terms are spliced in whole, never visited here)
            r = (t[0], -(t[1] + 1) - 1000 * (self.bb + 1)) + tuple(self(x) if isinstance(x, tuple) else x for x in t[2:])
        elif t[0] == "call" and len(t) == 5:
            site = t[4]
            nsite = None if site is None else -(self.bb * 10000 + site + 1)
            if nsite is not None and self.caller is not None:
                origin = INLINED_SITES.get((self.callee, site), (self.callee, site)) if isinstance(site, int) and site < 0 else (self.callee, site)
                INLINED_SITES[(self.caller, nsite)] = origin
            r = ("call", t[1], t[2], tuple(self(a) for a in t[3]), nsite)
        elif t[0] == "const":
            r = t
        else:
            r = tuple(self(x) if isinstance(x, tuple) else x for x in t)
            r = self.simplify(r)
        self.memo[t] = r
        return r

    @staticmethod
    def simplify(r):
        """the projections PathEval.project would have folded had the argument been known when the callee was evaluated"""
        h = r[0]
        if h == "deref" and len(r) == 2 and isinstance(r[1], tuple) and r[1] and r[1][0] in ("ref", "refmut"):
            inner = r[1][1]
            if isinstance(inner, tuple) and inner and inner[0] == "loc" and len(inner) > 2:
                return inner[2]
            return inner
        if h == "field" and len(r) >= 3 and isinstance(r[1], tuple) and r[1]:
            b = r[1]
            if b[0] == "agg" and isinstance(r[2], int) and r[2] < len(b[4]):
                return b[4][r[2]]
            if b[0] == "downcast" and isinstance(b[1], tuple) and b[1] and b[1][0] == "agg" and b[1][3] == b[2] and isinstance(r[2], int) and r[2] < len(b[1][4]):
                return b[1][4][r[2]]
        if h == "discr" and len(r) == 2 and isinstance(r[1], tuple) and r[1] and r[1][0] == "agg" and r[1][1] == "adt":
            base = str(r[1][2]).split("<")[0]
            if base in STD_VARIANTS and r[1][3] in STD_VARIANTS[base]:
                return ("const", "isize", STD_VARIANTS[base][r[1][3]])
        return r

    def event(self, e):
        d = {}
        for k, v in e.data.items():
            d[k] = self(v) if isinstance(v, tuple) else v
        if e.kind == "store":
            d["local"] = None
        if "inlined_from" not in d:
            # innermost origin: the helper whose body contains this statement, and the block there
            d["inlined_from"] = self.callee
            d["inlined_from_bb"] = e.bb
        return Event(e.kind, self.bb, **d)


def _shift_locals(o, off_l):
    """deep copy of a MIR fragment with every local id moved up by off_l (a place is {"l": int, "p": [..]}, an index projection
    {"k": "index", "l": int}; the "l" of a binop is an operand, not a local)"""
    if isinstance(o, dict):
        return {k: (v + off_l if k == "l" and isinstance(v, int) and not isinstance(v, bool) else _shift_locals(v, off_l)) for k, v in o.items()}
    if isinstance(o, list):
        return [_shift_locals(x, off_l) for x in o]
    return o


def _shift_targets(t, off_b):
    k = t["k"]
    if k == "goto":
        t["t"] += off_b
    elif k == "switch":
        t["targets"] = [[v, bb + off_b] for v, bb in t["targets"]]
        t["otherwise"] += off_b
    elif k in ("call", "assert", "drop"):
        if t.get("target") is not None:
            t["target"] += off_b


def splice_loop_helpers(fx, f, inline_set):
    """The function with every call to a *looping* helper that did not exist when the rules were written replaced by the helper's own blocks
    (classic inlining on the control-flow graph: parameters assigned from the arguments, `return` turned into an assignment of the call's
    destination and a jump to the call's continuation).  Loop-free helpers are spliced in path by path (PathEval._inline_summary); a helper
    with a loop has no finite set of paths, but as part of its caller's graph its loop is simply one more loop of the caller, and the rules
    judge the merged function exactly as if the code had been written in place."""
    import copy
    blocks = None
    for bi, b in enumerate(f["blocks"]):
        t = b["term"]
        if t["k"] != "call" or t.get("target") is None or b.get("cleanup"):
            continue
        hk = t["func"]["path"] if t["func"]["path"] in fx.fns else norm_path(t["func"]["path"])
        if hk not in inline_set or hk == f["key"]:
            continue
        h = fx.fns.get(hk)
        if not h or h.get("kind") not in ("Fn", "AssocFn") or not h.get("blocks") or h.get("reachable") or len(t["args"]) != h["arg_count"]:
            continue
        if not Body(h).loops:
            continue
        if any(hb["term"]["k"] == "call" and (hb["term"]["func"]["path"] in (hk, f["key"]) or norm_path(hb["term"]["func"]["path"]) in (hk, f["key"])) for hb in h["blocks"]):
            continue        # recursive
        if blocks is None:
            f = dict(f)
            blocks = f["blocks"] = copy.deepcopy(f["blocks"])
            f["locals"] = list(f["locals"])
            f["debug"] = list(f["debug"])
            b = blocks[bi]
            t = b["term"]
        off_l, off_b = len(f["locals"]), len(blocks)
        f["locals"].extend(copy.deepcopy(h["locals"]))
        for d in h["debug"]:
            d2 = _shift_locals(d, off_l)
            d2["arg"] = None
            f["debug"].append(d2)
        sp = b.get("tspan") or t.get("fn_span")
        for i, a in enumerate(t["args"]):
            b["stmts"].append({"k": "assign", "place": {"l": off_l + 1 + i, "p": [], "ty": h["locals"][1 + i]["ty"]}, "rv": {"k": "use", "op": a}, "span": sp})
        dest, cont = t["dest"], t["target"]
        b["term"] = {"k": "goto", "t": off_b}
        for hb in h["blocks"]:
            nb = _shift_locals(hb, off_l)
            if nb["term"]["k"] == "return":
                nb["stmts"].append({"k": "assign", "place": copy.deepcopy(dest), "rv": {"k": "use", "op": {"k": "move", "place": {"l": off_l, "p": [], "ty": h["locals"][0]["ty"]}}},
                                    "span": nb.get("tspan") or sp})
                nb["term"] = {"k": "goto", "t": cont}
            else:
                _shift_targets(nb["term"], off_b)
            blocks.append(nb)
    return f


def body_of(fx, key):
    f = fx.fn(key)
    if f is None:
        return None
    return Body(f)
