#!/usr/bin/env python3
"""Self-validation of the rules: apply seeded edits to a scratch copy of /repo,
re-extract facts and require that the property's rules fire on exactly the
seeded instance (kind=break) or stay silent (kind=benign).

Usage: python3 sa/mutants.py [Cxx ...] [--jobs N] [--only ID] [--keep]

A mutant is a dict:
  id, kind ('break'|'benign'), edits: [(file, old, new[, count])] (literal text,
  or regex when old starts with 're:'), expect: [substring of violation key, ...]
Scratch copies live under $TMPDIR (never under /repo or /verif) and are removed
immediately after use.
"""
import argparse
import importlib
import json
import os
import re
import shutil
import subprocess
import sys
import tempfile
from concurrent.futures import ThreadPoolExecutor

HERE = os.path.dirname(os.path.abspath(__file__))
VERIF = os.path.dirname(HERE)
sys.path.insert(0, HERE)


ARGV = os.path.join(VERIF, ".cache", "argv-default.json")


def capture_argv(repo):
    """one real cargo invocation on the unmodified tree records the rustc command line"""
    env = dict(os.environ)
    env["PKGSRC_FACTS_ARGV_OUT"] = ARGV
    out = os.path.join(VERIF, ".cache", "facts-argv-capture.json")
    r = subprocess.run([os.path.join(HERE, "extract.sh"), repo, "default", out], env=env)
    return r.returncode == 0 and os.path.exists(ARGV)


def baseline_keys(prop, repo):
    """violation keys on the unmodified tree (these are not attributed to a mutant)"""
    return set(run_on(prop, repo, None)[0])


def apply_edits(root, edits):
    if isinstance(edits, dict) and "patch" in edits:
        r = subprocess.run(["patch", "-p1", "-s", "--no-backup-if-mismatch", "-i", edits["patch"]], cwd=root, stdout=subprocess.PIPE, stderr=subprocess.STDOUT, text=True)
        return None if r.returncode == 0 else "edit does not apply: patch %s: %s" % (edits["patch"], r.stdout[:200])
    for ed in edits:
        if isinstance(ed, dict) and "patch" in ed:
            # a patch first, textual edits on top of it: "this refactoring, with one thing broken"
            err = apply_edits(root, ed)
            if err:
                return err
            continue
        fn, old, new = ed[0], ed[1], ed[2]
        cnt = ed[3] if len(ed) > 3 else 1
        p = os.path.join(root, fn)
        s = open(p).read()
        if old.startswith("re:"):
            rx = re.compile(old[3:], re.S)
            n = len(rx.findall(s))
            if n != cnt:
                return "edit does not apply: %r matches %d times (want %d) in %s" % (old, n, cnt, fn)
            s = rx.sub(new, s)
        else:
            n = s.count(old)
            if n != cnt:
                return "edit does not apply: %r occurs %d times (want %d) in %s" % (old, n, cnt, fn)
            s = s.replace(old, new)
        open(p, "w").write(s)
    return None


def run_on(prop, repo, edits):
    """returns (violation keys, error string or None)"""
    tmp = tempfile.mkdtemp(prefix="pkgsrc-sv-")
    try:
        work = repo
        if edits is not None:
            work = os.path.join(tmp, "repo")
            shutil.copytree(repo, work, ignore=shutil.ignore_patterns("target", ".git"))
            err = apply_edits(work, edits)
            if err:
                return [], "skipped: " + err
        out = os.path.join(tmp, "facts.json")
        r = subprocess.run([os.path.join(HERE, "extract_direct.sh"), work, ARGV, out],
                           stdout=subprocess.PIPE, stderr=subprocess.PIPE, text=True)
        if r.returncode != 0:
            return [], "does-not-compile: " + r.stderr[-400:]
        r = subprocess.run([sys.executable, os.path.join(HERE, "check.py"), prop, "--facts", out, "--json", "--no-evidence"],
                           stdout=subprocess.PIPE, stderr=subprocess.PIPE, text=True)
        for line in r.stdout.splitlines():
            if line.startswith('{"violations"'):
                return json.loads(line)["violations"], None
        return [], "checker failed: " + (r.stdout + r.stderr)[-400:]
    finally:
        shutil.rmtree(tmp, ignore_errors=True)


def evaluate(prop, m, repo, base):
    if m.get("property") and m["property"] != prop:
        prop = m["property"]
        base = baseline_keys(prop, repo)
        m = dict(m, expect=[x.split(":", 1)[1] if x.startswith(prop + ":") else x for x in m.get("expect", [])])
    keys, err = run_on(prop, repo, m["edits"])
    res = {"id": m["id"], "kind": m["kind"], "property": prop}
    if err:
        res["status"] = "skipped" if err.startswith("skipped") else "error"
        res["detail"] = err
        return res
    new = [k for k in keys if k not in base]
    gone = [k for k in base if k not in keys]
    res["new_violations"] = new
    if m["kind"] == "break":
        exp = m.get("expect", [])
        hit = all(any(x in k for k in new) for x in exp) and bool(new)
        res["status"] = "caught" if hit else "MISSED"
        if not hit:
            res["detail"] = "expected keys containing %s, got %s" % (exp, new)
    elif m["kind"] == "repair":
        exp = m.get("expect_gone", [])
        hit = all(any(x in k for k in gone) for x in exp) and not new
        res["status"] = "silent-after-repair" if hit else "FALSE-ALARM"
        res["gone"] = gone
        if not hit:
            res["detail"] = "expected %s to disappear and nothing new; gone=%s new=%s" % (exp, gone, new)
    else:
        res["status"] = "silent" if not new else "FALSE-ALARM"
        if new:
            res["detail"] = "benign variant raised %s" % new
    return res


def seeded_for(prop):
    """the independently written seeded changes filed under this property, as `break` variants (any new violation counts)"""
    out = []
    sd = os.path.join(VERIF, "seeded")
    if os.path.isdir(sd):
        for d in sorted(os.listdir(sd)):
            mp = os.path.join(sd, d, "meta.json")
            if os.path.exists(mp) and json.load(open(mp)).get("property") == prop:
                out.append({"id": "seeded:" + d, "kind": "break", "edits": {"patch": os.path.join(sd, d, "patch.diff")}, "expect": []})
    return out


def benign_for(prop):
    """the independently written behaviour-preserving patches (/verif/benign), as `benign` variants for this property; the ones recorded by
    `sa/benign.py detect` as raising an alarm under this property (measured limits, DESIGN.md 7b) are left out: they are not regressions"""
    out = []
    bd = os.path.join(VERIF, "benign")
    if os.path.isdir(bd):
        for d in sorted(os.listdir(bd)):
            mp = os.path.join(bd, d, "meta.json")
            pp = os.path.join(bd, d, "patch.diff")
            if not (os.path.exists(mp) and os.path.exists(pp)):
                continue
            if prop in (json.load(open(mp)).get("alarms") or {}):
                continue
            out.append({"id": "benign:" + d, "kind": "benign", "edits": {"patch": pp}})
    return out


def mutants_for(prop, with_seeded=False, with_benign=False):
    mod = importlib.import_module("selfcheck." + prop.lower())
    return list(mod.MUTANTS) + (seeded_for(prop) if with_seeded else []) + (benign_for(prop) if with_benign else [])


def main():
    ap = argparse.ArgumentParser()
    ap.add_argument("props", nargs="*")
    ap.add_argument("--repo", default="/repo")
    ap.add_argument("--jobs", type=int, default=8)
    ap.add_argument("--only", default=None)
    ap.add_argument("--out", default=None)
    ap.add_argument("--all-props", action="store_true", help="also run the cross-cutting benign variants against all 20 checks")
    args = ap.parse_args()
    props = [p.upper() for p in args.props] or ["C%02d" % i for i in range(1, 21)]
    results = []
    bad = 0
    if not capture_argv(args.repo):
        print("selfcheck: cannot capture rustc command line (tree does not compile?)")
        return 2
    if args.all_props:
        # cross-cutting benign variants: every check must stay silent
        gm = importlib.import_module("selfcheck.glob").MUTANTS
        allp = ["C%02d" % i for i in range(1, 21)]
        bases = {p_: baseline_keys(p_, args.repo) for p_ in allp}
        for m in gm:
            newv = []
            status = "silent"
            for p_ in allp:
                r = evaluate(p_, dict(m), args.repo, bases[p_])
                if r["status"] not in ("silent",):
                    status = r["status"]
                    newv.append((p_, r.get("new_violations", r.get("detail"))))
            if status != "silent":
                bad += 1
            results.append({"id": m["id"], "kind": "benign", "status": status, "detail": newv})
            print("ALL  %-38s %-8s %-20s %s" % (m["id"], "benign", status, str(newv)[:300]))
    for prop in props:
        try:
            ms = mutants_for(prop, with_seeded=True)
        except ModuleNotFoundError:
            continue
        if args.only:
            ms = [m for m in ms if m["id"] == args.only]
        if not ms:
            continue
        base = baseline_keys(prop, args.repo)
        with ThreadPoolExecutor(max_workers=args.jobs) as ex:
            rs = list(ex.map(lambda m: evaluate(prop, m, args.repo, base), ms))
        for r in rs:
            results.append(r)
            flag = r["status"]
            if flag in ("MISSED", "FALSE-ALARM", "error", "skipped"):
                # on the unchanged tree every variant must apply; a skipped one means the corpus went stale
                bad += 1
            print("%-4s %-38s %-8s %-20s %s" % (prop, r["id"], r["kind"], flag, r.get("detail", "") if flag not in ("caught", "silent") else ",".join(r.get("new_violations", []))[:150]))
    if args.out:
        with open(args.out, "w") as f:
            json.dump(results, f, indent=1)
    print("selfcheck: %d variants, %d problems" % (len(results), bad))
    return 1 if bad else 0


if __name__ == "__main__":
    sys.exit(main())
