"""C01 — version comparison follows pkg_install's dewey ordering (structural clauses)."""
import string
from lib import *

EXPLANATION = (
    "D1 tokeniser table: every back-edge path of the scanning loop in DeweyVersion::new is summarised as (guard, values pushed, revision write, cursor advance) and compared with the spec: "
    "digit run -> push its i64 value, advance its length; '.' '_' -> 0; pl -> 0, alpha -> -3, beta -> -2, rc/pre -> -1 (advance = literal length); nb -> revision := following digit run or 0, nothing pushed; "
    "ASCII letter -> 0 then its rank; anything else -> nothing pushed, advance len_utf8; literal arms precede the letter arm; "
    "D2 the literal guards are ASCII-case-insensitive and the letter value is the same for both cases (value-set propagation over A-Z, a-z); D3 letter rank a..z = 1..26; "
    "D4-COMPARE the comparison discipline (zero padding, operand provenance, revision last, operator table) = C03's CMP-2..5/CMP-RET verdicts on dewey_cmp/dewey_test, shared as instances of this check; D5 best_match compares with dewey::dewey_cmp on DeweyVersion::new(PkgName::new(pkgN).pkgversion()) (C06); the literal arms may equally be a constant table of (literal, weight) searched with find (entries = spec, weight pushed and literal length advanced from the matched entry, no literal empty or a prefix of another), the digit run a helper that cuts at the first non-digit; every literal test must be made on s[idx..]")
NOT_DECIDED = [
    "that take_while(is_ascii_digit) + parse::<i64> yields the numeric value (std; digit runs <= 18 by the quantifier)",
    "agreement with pkg_install on inputs outside the stated rule",
]
CONFIG_SENSITIVE = False
DESUGAR = True

DV = "dewey::DeweyVersion::new"


def addends(t, base_pred):
    """the other leaves of a sum one of whose leaves satisfies base_pred, in written order: Add(Add(base, a), b) -> [a, b], and
    Add(base, Add(a, b)) -> [a, b] alike (`idx += 2; idx += n` and `idx += 2 + n`)"""
    leaves = []

    def walk(x):
        if isinstance(x, tuple) and x and x[0] == "binop" and x[1] == "Add":
            walk(x[2])
            walk(x[3])
        else:
            leaves.append(x)
    walk(t)
    base = [x for x in leaves if base_pred(x)]
    if len(base) != 1:
        return None
    return [x for x in leaves if x is not base[0]]


def eval_letter(t, cvar, ch):
    """concrete value of a pushed term for character ch (value-set propagation; not execution of the program)"""
    t0 = t
    if t == cvar:
        return ord(ch)
    if is_const(t):
        v = const_of(t)
        if isinstance(v, tuple) and v[0] == "char":
            return ord(v[1])
        return v if isinstance(v, int) else None
    if isinstance(t, tuple) and t[0] == "cast":
        return eval_letter(t[4], cvar, ch)
    if isinstance(t, tuple) and t[0] in ("ref", "deref"):
        return eval_letter(t[1], cvar, ch)
    if isinstance(t, tuple) and t[0] == "binop" and t[1] in ("Add", "Sub", "BitOr", "BitAnd"):
        a, b = eval_letter(t[2], cvar, ch), eval_letter(t[3], cvar, ch)
        if a is None or b is None:
            return None
        return {"Add": a + b, "Sub": a - b, "BitOr": a | b, "BitAnd": a & b}[t[1]]
    if is_call(t, "char>::to_ascii_lowercase", "u8>::to_ascii_lowercase"):
        a = eval_letter(call_args(t)[0], cvar, ch)
        return ord(chr(a).lower()) if a is not None and a < 128 else a
    if is_call(t, "char>::to_ascii_uppercase", "u8>::to_ascii_uppercase"):
        a = eval_letter(call_args(t)[0], cvar, ch)
        return ord(chr(a).upper()) if a is not None and a < 128 else a
    return None


def literal_guard(ctx, t):
    """(literal, case_insensitive) if cond term t tests whether the remaining text starts with a literal"""
    if not is_call(t):
        return None
    lits = [const_str(a) for a in call_args(t) if const_str(a) is not None]
    if len(lits) != 1:
        return None
    lit = lits[0]
    subj = [a for a in call_args(t) if const_str(a) is None]
    if is_call(t, "str>::starts_with"):
        ci = bool(subj) and mentions(subj[0], lambda s: is_call(s, "to_ascii_lowercase", "to_lowercase"))
        return lit, ci
    if mentions(t, lambda s: is_call(s, "eq_ignore_ascii_case")):
        return lit, True
    f = ctx.fx.fn(t[1])
    if f is not None:
        # crate-local helper: its verdict must come from eq_ignore_ascii_case and it must not use a case-sensitive comparison
        ps = ctx.paths(t[1])
        names = {mir.norm_path(tt["func"]["path"]).split("::")[-1] for _, tt in ctx.body(t[1]).calls()}
        clos = [k for k in ctx.fx.fns if k.startswith(t[1] + "::{closure")]
        for ck in clos:
            names |= {mir.norm_path(tt["func"]["path"]).split("::")[-1] for _, tt in ctx.body(ck).calls()}
        ci = "eq_ignore_ascii_case" in names and not (names & {"starts_with", "eq", "ne", "strip_prefix", "find"})
        return lit, ci
    return None


def _replace(t, pred, new, depth=0):
    if not isinstance(t, tuple) or depth > 40:
        return t
    if pred(t):
        return new
    return tuple(_replace(x, pred, new, depth + 1) if isinstance(x, tuple) else x for x in t)


def table_guard(ctx, t):
    """the table-driven spelling of the literal arms: TABLE.iter().find(|(name, _)| <remaining text starts with name>) over a constant
    [(literal, weight); N].  Returns dict(entries=[(literal, weight)], ci=<bool>, find=<the find call>) or None."""
    import re
    if not (isinstance(t, tuple) and t and t[0] == "discr"):
        return None
    f = strip_refs(t[1])
    if not is_call(f, "Iterator>::find") or len(call_args(f)) != 2:
        return None
    it = strip_refs(call_args(f)[0])
    while isinstance(it, tuple) and it and it[0] == "loc" and len(it) > 2:
        it = strip_refs(it[2])
    if not is_call(it, "::iter", "IntoIterator>::into_iter"):
        return None
    tab = strip_refs(call_args(it)[0])
    if not (is_const(tab) and isinstance(tab[2], tuple) and tab[2] and tab[2][0] == "raw"):
        return None
    m = re.match(r"^\[\(&str, i64\); (\d+)\]$", tab[1])
    ents = re.findall(r'\("([A-Za-z0-9_.]*)", (-?\d+)_i64\)', tab[2][1])
    if not m or len(ents) != int(m.group(1)):
        return None
    clo = strip_refs(call_args(f)[1])
    if not (isinstance(clo, tuple) and clo and clo[0] == "agg" and clo[1] == "closure"):
        return None
    rets = [p.end[1] for p in ret_paths(ctx.paths(clo[2]) or [])]
    if len(rets) != 1:
        return None

    def entry_name(x):
        # (*entry).0 of the closure's argument
        if not (isinstance(x, tuple) and x and x[0] == "field" and x[2] == 0):
            return False
        b = x[1]
        while isinstance(b, tuple) and b and b[0] in ("deref", "ref"):
            b = b[1]
        return b == ("param", 2)
    test = _replace(rets[0], entry_name, ("const", "&str", "\0entry"))
    for i, cap in enumerate(clo[4]):
        test = _replace(test, lambda x, i=i: len(x) > 2 and x[0] == "field" and x[2] == i and isinstance(x[1], tuple) and x[1] in (("deref", ("param", 1)), ("param", 1)), cap)
    g = literal_guard(ctx, test)
    if g is None or g[0] != "\0entry":
        return None
    return dict(entries=[(a, int(b)) for a, b in ents], ci=g[1], find=f, test=test)


def tokeniser_state(body, paths):
    """the three state variables by ROLE (not by name): the vector and the revision that end up in the returned
    DeweyVersion{version, pkgrevision}, and the cursor that the loop-exit test compares with the input's length"""
    loc = {}
    for p in ret_paths(paths):
        a = agg_variant(p.end[1])
        if not a:
            continue
        flds = dict(zip(p.end[1][5], a[2]))
        for role in ("version", "pkgrevision"):
            t = flds.get(role)
            if isinstance(t, tuple) and t[0] in ("havoc", "mutated"):
                loc[role] = t[1]
        for c in p.conds():
            t = c.term
            if isinstance(t, tuple) and t[0] == "binop" and t[1] in ("Eq", "Ge", "Lt", "Ne") and isinstance(t[2], tuple) and t[2][0] == "havoc" and is_call(t[3], "str>::len", "String::len"):
                loc["idx"] = t[2][1]
    return loc


_NOT_DIGIT_CACHE = {}


def _not_digit_closure(ctx, clo):
    """the closure accepts exactly the characters / bytes that are NOT ASCII digits (tabulated over ASCII + non-ASCII representatives)"""
    clo = strip_refs(clo)
    if not (isinstance(clo, tuple) and clo and clo[0] == "agg" and clo[1] == "closure"):
        return False
    k = clo[2]
    if k not in _NOT_DIGIT_CACHE:
        ps = ctx.paths(k)
        tbl = char_table(ps, is_param=lambda t: strip_refs(t) == ("param", 2)) if ps else {}
        _NOT_DIGIT_CACHE[k] = bool(tbl) and all(v is not None for v in tbl.values()) and all(v == (not (c.isascii() and c.isdigit())) for c, v in tbl.items())
    return _NOT_DIGIT_CACHE[k]


def digit_run_of(ctx, t, p=None):
    """X when t denotes the maximal leading run of ASCII digits of X, in any of the written forms:
       X.chars().take_while(char::is_ascii_digit).collect::<String>();  &X[..end] with end = the position of the first non-digit
       (X.bytes().position(..) / X.find(..) with a not-a-digit predicate) or X.len() when there is none"""
    t0 = content(t)
    if is_call(t0, "::collect") and call_args(t0):
        tw = strip_refs(call_args(t0)[0])
        if is_call(tw, "::take_while") and len(call_args(tw)) == 2 and is_call(strip_refs(call_args(tw)[0]), "str>::chars"):
            f = call_args(tw)[1]
            if isinstance(f, tuple) and f and f[0] == "const" and isinstance(f[2], tuple) and f[2][0] == "fn" and f[2][1].endswith("is_ascii_digit"):
                return content(call_args(strip_refs(call_args(tw)[0]))[0])
        return None
    if is_index_call(t0):
        X = content(call_args(t0)[0])
        rg = canon_range(call_args(t0)[0], call_args(t0)[1])
        if rg is None or const_int(rg[0]) != 0:
            return None
        hi = rg[1]

        def first_non_digit(src):
            src = strip_refs(src)
            if is_call(src, "Iterator>::position", "::position") and len(call_args(src)) == 2:
                it = strip_refs(call_args(src)[0])
                while isinstance(it, tuple) and it and it[0] in ("loc", "refmut", "ref"):
                    it = strip_refs(it[2] if it[0] == "loc" and len(it) > 2 else it[1])
                return is_call(it, "str>::bytes", "str>::chars") and content(call_args(it)[0]) == X and _not_digit_closure(ctx, call_args(src)[1]) and \
                    (is_call(it, "str>::bytes") or True)
            if is_call(src, "str>::find") and len(call_args(src)) == 2:
                return content(call_args(src)[0]) == X and _not_digit_closure(ctx, call_args(src)[1])
            return False
        if hi == LEN:
            # the whole string: only on the path where no non-digit was found
            if p is None:
                return None
            for c in p.conds():
                if c.term[0] == "discr" and first_non_digit(c.term[1]) and (c.fact == ("eq", 0) or (c.fact[0] == "ne" and 1 in c.fact[1])):
                    return X
            return None
        h0 = strip_refs(hi)
        if isinstance(h0, tuple) and h0 and h0[0] == "field" and h0[2] == 0 and isinstance(h0[1], tuple) and h0[1][0] == "downcast" and h0[1][2] == "Some" and first_non_digit(h0[1][1]):
            return X
        # ... or end = the number of leading bytes / chars that are digits: X.bytes().take_while(u8::is_ascii_digit).count() (a digit is one byte)
        if is_call(h0, "Iterator::count", "::count") and call_args(h0):
            tw = strip_refs(call_args(h0)[0])
            if is_call(tw, "::take_while") and len(call_args(tw)) == 2:
                it = strip_refs(call_args(tw)[0])
                f = strip_refs(call_args(tw)[1])
                isdig = isinstance(f, tuple) and f and f[0] == "const" and isinstance(f[2], tuple) and f[2][0] == "fn" and f[2][1].endswith("is_ascii_digit")
                if not isdig and isinstance(f, tuple) and f[:2] == ("agg", "closure"):
                    ps_ = ctx.paths(f[2])
                    tbl = char_table(ps_, is_param=lambda t_: strip_refs(t_) == ("param", 2)) if ps_ else {}
                    isdig = bool(tbl) and all(v is not None for v in tbl.values()) and all(v == (c.isascii() and c.isdigit()) for c, v in tbl.items())
                if isdig and is_call(it, "str>::bytes", "str>::chars") and content(call_args(it)[0]) == X:
                    return X
    return None


def run(ctx):
    fx = ctx.fx
    sp = spec("dewey_tokens.json")
    paths = ctx.paths(DV)
    body = ctx.body(DV)
    if not paths:
        return
    loc = tokeniser_state(body, paths)
    ctx.floor("D1-TOK-TABLE", DV, "tokeniser state locals (version, pkgrevision, cursor)", len(loc), 3)
    if len(loc) < 3:
        return
    backs = [p for p in paths if p.end[0] == "back"]
    ctx.floor("D1-TOK-TABLE", DV, "scan-loop back-edge paths", len(backs), 5)

    def cur_char(t):
        return is_call(t, "Option::unwrap") and mentions(t, lambda s: is_call(s, "Chars as std::iter::Iterator>::next")) or \
            (isinstance(t, tuple) and t[0] == "field" and mentions(t, lambda s: is_call(s, "Chars as std::iter::Iterator>::next")))

    rows = {}
    lit_subjects = []
    order_ok = True
    for p in backs:
        pushes = [e.args[1] for e in p.events if ev_is(e, "Vec::push") and isinstance(e.args[0], tuple) and e.args[0][0] == "refmut" and e.args[0][1][1] == loc["version"]]
        rev = p.env.get(loc["pkgrevision"])
        rev_written = not (isinstance(rev, tuple) and rev[0] == "havoc")
        adv = addends(p.env.get(loc["idx"]), lambda t: isinstance(t, tuple) and t[0] == "havoc" and t[1] == loc["idx"])
        guard = None
        case_ok = None
        lit_tests_false = []
        letter_seen_at = None
        for ci, c in enumerate(p.conds()):
            t = c.term
            truth = c.fact == ("eq", True)
            if table_guard(ctx, t) is not None:
                lit_subjects.append(table_guard(ctx, t)["test"])
            elif literal_guard(ctx, t) is not None:
                lit_subjects.append(t)
            if is_call(t, "String::is_empty", "str>::is_empty") and digit_run_of(ctx, call_args(t)[0], p) is not None and guard is None:
                if not truth:
                    guard = ("digits", t)
            elif isinstance(t, tuple) and t[0] == "binop" and t[1] == "Eq" and const_char(t[3]) is not None and cur_char(t[2]):
                if truth and guard is None:
                    guard = ("sep", const_char(t[3]))
            elif table_guard(ctx, t) is not None:
                tg = table_guard(ctx, t)
                if c.fact == ("eq", 1) and guard is None:
                    guard = ("table", tg)
                    case_ok = tg["ci"]
                elif c.fact == ("eq", 0) or (c.fact[0] == "ne" and 1 in c.fact[1]):
                    lit_tests_false.extend(l for l, _ in tg["entries"])
            elif literal_guard(ctx, t) is not None:
                lit, cins = literal_guard(ctx, t)
                if truth and guard is None:
                    guard = ("lit", lit)
                    case_ok = cins
                elif not truth:
                    lit_tests_false.append(lit)
            elif is_call(t, "char>::is_ascii_alphabetic", "char>::is_ascii_lowercase", "char>::is_ascii_uppercase", "char>::is_alphabetic") and guard is None \
                    and not (is_call(t, "char>::is_ascii_alphabetic") and cur_char(strip_refs(call_args(t)[0]))):
                guard = ("letter-test-not-on-current-char", None)
            elif is_call(t, "char>::is_ascii_alphabetic") and guard is None:
                if truth:
                    guard = ("letter", None)
                    letter_seen_at = set(lit_tests_false)
                else:
                    guard = ("other", None)
        if guard is None:
            guard = ("other", None)
        if guard[0] == "table":
            # one row per table entry: the matched entry's weight is pushed and its literal's length is the advance (first match wins: the order of
            # the table only matters where one literal is a prefix of another)
            tg = guard[1]
            ent = ("deref", ("field", ("downcast", tg["find"], "Some"), 0, "0"))

            def entry_field(x, i):
                x = strip_refs(x)
                while isinstance(x, tuple) and x and x[0] == "deref" and not (x == ent):
                    x = strip_refs(x[1])
                return isinstance(x, tuple) and x and x[0] == "field" and x[2] == i and strip_refs(x[1]) in (ent, strip_refs(ent[1])) or \
                    (isinstance(x, tuple) and x and x[0] == "field" and x[2] == i and isinstance(x[1], tuple) and x[1][0] == "deref" and strip_refs(x[1][1]) == strip_refs(ent[1]))
            sym = len(pushes) == 1 and entry_field(pushes[0], 1) and adv is not None and len(adv) == 1 and is_call(strip_refs(adv[0]), "str>::len") and entry_field(call_args(strip_refs(adv[0]))[0], 0)
            lits = [l.lower() for l, _ in tg["entries"]]
            shadow = [(a, b) for i, a in enumerate(lits) for b in lits[i + 1:] if b.startswith(a) or a.startswith(b)]
            for l, w in tg["entries"]:
                rows.setdefault(("lit", l), []).append(dict(p=p, pushes=[("const", "i64", w)] if sym and not shadow else pushes, rev=rev if rev_written else None,
                                                           adv=[("const", "usize", len(l))] if sym and not shadow else adv, case_ok=case_ok, letter_before=letter_seen_at))
            continue
        rows.setdefault(guard[:1] + ((guard[1],) if guard[0] in ("sep", "lit") else ()), []).append(dict(p=p, pushes=pushes, rev=rev if rev_written else None, adv=adv, case_ok=case_ok, letter_before=letter_seen_at))

    # (the table-driven spelling has one path for all its literals: what must not shrink is the number of token classes handled)
    ctx.floor("D1-TOK-TABLE", DV, "token classes handled (rows)", len(rows), 11)

    def pushed_consts(r):
        return [const_int(x) for x in r["pushes"]]

    def one(key):
        rs = rows.get(key, [])
        return rs

    def parse_failed(r):
        """the row's path assumed that parse::<i64>() of the digit run failed (only possible on overflow: outside the quantifier's 18 digits)"""
        for c in r["p"].conds():
            if c.term[0] == "discr" and is_call(strip_refs(c.term[1]), "str>::parse"):
                return c.fact == ("eq", 1) or (c.fact[0] == "ne" and 0 in c.fact[1])
        return False

    def run_parsed(t, r):
        """X if t contains parse::<i64>(digit run of X)"""
        for s_ in subterms(t) if isinstance(t, tuple) else []:
            if is_call(s_, "str>::parse") and "i64" in str(s_[2]):
                x = digit_run_of(ctx, call_args(s_)[0], r["p"])
                if x is not None:
                    return x
        return None

    def run_len(t, r):
        """X if t is len(digit run of X)"""
        t0 = strip_refs(t)
        if is_call(t0, "String::len", "str>::len"):
            return digit_run_of(ctx, call_args(t0)[0], r["p"])
        return None

    def at_cursor(x, off=0):
        """x is the input from the cursor (+ off) on: s[idx + off ..]"""
        x = content(x)
        # s[idx..][k..] is s[idx + k..]: the lower bounds of nested tails add up
        los = []
        for _ in range(4):
            if not is_index_call(x):
                break
            rg = canon_range(call_args(x)[0], call_args(x)[1])
            if rg is None or rg[1] != LEN:
                return False
            los.append(rg[0])
            x = content(call_args(x)[0])
        if not los or x != ("param", 1):
            return False
        total = los[0]
        for l_ in los[1:]:
            total = ("binop", "Add", total, l_)
        ad = addends(total, lambda t: isinstance(t, tuple) and t[0] == "havoc" and t[1] == loc["idx"])
        return ad is not None and sum(const_int(a) or 0 for a in ad) == off and all(const_int(a) is not None for a in ad)

    # digits (with Option/Result combinators evaluated, `parse().unwrap_or(k)` is two rows: parsed / overflowed; a digit run taken by a
    # helper that slices at the first non-digit adds the found / not-found alternatives)
    rs = one(("digits",))
    ok = 1 <= len(rs) and sum(1 for r in rs if not parse_failed(r)) >= 1
    for r in rs if ok else []:
        pv = r["pushes"]
        okadv = r["rev"] is None and r["adv"] is not None and len(r["adv"]) == 1 and run_len(r["adv"][0], r) is not None and at_cursor(run_len(r["adv"][0], r))
        if parse_failed(r):
            ok = ok and okadv and len(pv) == 1 and const_int(pv[0]) is not None
            continue
        ok = ok and len(pv) == 1 and run_parsed(pv[0], r) is not None and at_cursor(run_parsed(pv[0], r)) and okadv
    ctx.check(ok, "D1-TOK-TABLE", DV, "row=digits", "digit run -> push parse::<i64>(run), advance len(run)", "the digit-run row is not `push the run's i64 value, advance by the run's length`", fn_span(body))
    # separators
    for s_ in sp["separators"]:
        rs = one(("sep", s_))
        ok = len(rs) >= 1 and all(pushed_consts(r_) == [0] and r_["rev"] is None and r_["adv"] is not None and [const_int(a) for a in r_["adv"]] == [1] for r_ in rs)
        ctx.check(ok, "D1-TOK-TABLE", DV, "row=%r" % s_, "%r -> push 0, advance 1" % s_, "separator %r is tokenised as pushes=%s advance=%s; expected push 0, advance 1" % (s_, [pushed_consts(r) for r in rs], [r["adv"] and [const_int(a) for a in r["adv"]] for r in rs]), fn_span(body))
    extra_sep = sorted(k[1] for k in rows if k[0] == "sep" and k[1] not in sp["separators"])
    ctx.check(not extra_sep, "D1-TOK-TABLE", DV, "no-extra-separators", "only '.' and '_' are separators", "extra separator characters %s" % extra_sep, fn_span(body), nontrivial=False)
    # modifiers
    for lit, w in sp["modifiers"].items():
        rs = one(("lit", lit))
        if not rs:
            ctx.violation("D1-TOK-TABLE", DV, "literal=%s" % lit, "the modifier %r has no arm in the tokeniser: it is read as single letters, so e.g. 1.0%s1 sorts after 1.0 instead of before/at it (spec weight %d)" % (lit, lit, w), fn_span(body))
            continue
        r = rs[0]
        ok = len(rs) >= 1 and all(pushed_consts(r_) == [w] and r_["rev"] is None and r_["adv"] is not None and [const_int(a) for a in r_["adv"]] == [len(lit)] for r_ in rs)
        ctx.check(ok, "D1-TOK-TABLE", DV, "literal=%s" % lit, "%s -> push %d, advance %d" % (lit, w, len(lit)),
                  "modifier %r is tokenised as pushes=%s advance=%s; expected push %d, advance %d (its own length: a different advance mis-tokenises the rest)" % (lit, pushed_consts(r), r["adv"] and [const_int(a) for a in r["adv"]], w, len(lit)), fn_span(body))
        ctx.check(all(r_["case_ok"] is True for r_ in rs), "D2-TOK-CASE", DV, "literal=%s" % lit, "%r matched ASCII-case-insensitively" % lit,
                  "modifier %r is matched case-sensitively: %s is read as letters (pkg_install uses strncasecmp)" % (lit, lit.upper()), fn_span(body))
    # nb
    nb = sp["revision_marker"]
    rs = one(("lit", nb))
    ok = 1 <= len(rs) and sum(1 for r in rs if not parse_failed(r)) >= 1
    rs_all = rs
    rs = [r for r in rs if not parse_failed(r)] if ok else rs
    for r in [r for r in rs_all if parse_failed(r)] if ok else []:
        # no digits after nb (or an overflowing run): revision 0, same advance
        ok = ok and not r["pushes"] and r["rev"] is not None and const_int(r["rev"]) == 0 and r["adv"] is not None and len(r["adv"]) == 2 and const_int(r["adv"][0]) == len(nb)
    for r in rs if ok else []:
        rv = r["rev"]
        src = run_parsed(rv, r) if rv is not None else None
        # revision := parse::<i64>(digit run right after the marker), 0 when it does not parse (the unevaluated `.unwrap_or(0)` or the evaluated Ok payload)
        okrev = src is not None and at_cursor(src, len(nb)) and \
            ((is_call(rv, "Result::unwrap_or", "Result::unwrap_or_default") and (len(call_args(rv)) < 2 or const_int(call_args(rv)[1]) == 0))
             or (any(parse_failed(x) for x in rs_all) and isinstance(strip_refs(rv), tuple) and strip_refs(rv)[0] == "field" and strip_refs(rv)[1][0] == "downcast" and strip_refs(rv)[1][2] == "Ok"))
        okadv = r["adv"] is not None and len(r["adv"]) == 2 and const_int(r["adv"][0]) == len(nb) and run_len(r["adv"][1], r) is not None and at_cursor(run_len(r["adv"][1], r), len(nb))
        ok = ok and not r["pushes"] and okrev and okadv
    ctx.check(ok, "D1-TOK-TABLE", DV, "literal=nb", "nb -> revision := following digits or 0, nothing pushed, advance 2 + digits",
              "the nb row is not `revision := i64 of the digit run right after it (0 if none), push nothing, advance 2 + run length`", fn_span(body))
    if rs:
        ctx.check(rs[0]["case_ok"] is True, "D2-TOK-CASE", DV, "literal=nb", "nb matched ASCII-case-insensitively", "the revision marker is matched case-sensitively: 1.0NB2 has no revision", fn_span(body))
    # who writes pkgrevision
    writers = [k for k, rl in rows.items() for r in rl if r["rev"] is not None]
    ctx.check(set(writers) == {("lit", nb)}, "D1-REVISION", DV, "only-nb-writes-revision", "only the nb arm assigns the revision (so the last nb wins)",
              "the revision is assigned in rows %s; only the nb row may assign it" % sorted(set(writers)), fn_span(body))
    extra_lit = sorted(k[1] for k in rows if k[0] == "lit" and k[1] not in list(sp["modifiers"]) + [nb])
    ctx.check(not extra_lit, "D1-TOK-TABLE", DV, "no-extra-literals", "no literal outside the spec", "extra literal arms %s" % extra_lit, fn_span(body), nontrivial=False)
    # letter
    rs = one(("letter",))
    ok = len(rs) >= 1 and len({tuple(r_["pushes"]) for r_ in rs}) == 1
    if ok:
        r = rs[0]
        pv = r["pushes"]
        ok = all(len(r_["pushes"]) == 2 and const_int(r_["pushes"][0]) == 0 and r_["rev"] is None and r_["adv"] is not None and [const_int(a) for a in r_["adv"]] == [1] for r_ in rs)
        ctx.check(ok, "D1-TOK-TABLE", DV, "row=letter", "letter -> push 0, f(letter); advance 1", "the letter row is not `push 0, push a value of the letter, advance 1`", fn_span(body))
        allm = set(sp["modifiers"]) | {nb}
        ctx.check(all(r_["letter_before"] is not None and allm <= r_["letter_before"] for r_ in rs), "D1-TOK-ORDER", DV, "literals-before-letters", "all literal arms are tested before the letter arm",
                  "the letter arm is reached without testing %s first: those modifiers would be read as letters" % sorted(allm - (r["letter_before"] or set())), fn_span(body))
        if ok:
            cv = [s for s in subterms(pv[1]) if cur_char(s)]
            cvar = cv[0] if cv else None
            vals = {ch: eval_letter(pv[1], cvar, ch) for ch in string.ascii_letters} if cvar is not None else {}
            known = bool(vals) and all(v is not None for v in vals.values())
            ctx.check(known, "D2-LETTER", DV, "value-set", "letter value is a computable function of the character", "the value pushed for a letter (%s) is not understood by the value-set propagation" % term_str(pv[1])[:100], fn_span(body), nontrivial=False)
            if known:
                ci = all(vals[c] == vals[c.lower()] for c in string.ascii_uppercase)
                ctx.check(ci, "D2-TOK-CASE", DV, "letters", "f(X) = f(x) for all 26 letters", "letters are case-sensitive: e.g. 'A' -> %s but 'a' -> %s (pkg_install folds with tolower)" % (vals["A"], vals["a"]), fn_span(body))
                rank = all(vals[c] == i + 1 for i, c in enumerate(string.ascii_lowercase))
                ctx.check(rank, "D3-TOK-RANK", DV, "letter-rank", "a..z -> 1..26",
                          "a letter pushes %s..%s for a..z (its character code), not its alphabet rank 1..26: e.g. 1.0a (0,%s) sorts above 1.0.5 although pkg_install orders it below" % (vals["a"], vals["z"], vals["a"]), fn_span(body))
    else:
        ctx.violation("D1-TOK-TABLE", DV, "row=letter", "expected exactly one letter row, found %d" % len(rs), fn_span(body))
    bad_rows = [k for k in rows if k[0] == "letter-test-not-on-current-char"]
    ctx.check(not bad_rows, "D1-TOK-TABLE", DV, "letter-test-on-current-char", "the letter test is is_ascii_alphabetic(current char)",
              "the letter/other decision is not made by is_ascii_alphabetic on the character at the cursor (e.g. on a case-folded copy): the cursor can then advance by a length that is not the current character's", fn_span(body))
    # other
    rs = one(("other",))
    ok = len(rs) >= 1 and all(not r["pushes"] and r["rev"] is None and r["adv"] is not None and len(r["adv"]) == 1 and is_call(r["adv"][0], "char>::len_utf8")
                              and cur_char(strip_refs(call_args(r["adv"][0])[0])) for r in rs)
    ctx.check(ok, "D1-TOK-TABLE", DV, "row=other", "other characters: nothing pushed, advance len_utf8", "characters outside the rule are not skipped as `push nothing, advance by the character's UTF-8 length`", fn_span(body))
    # D1-ADVANCE: on every back-edge path the cursor moves by exactly the byte length of what that row matched at the cursor
    # (this alone keeps the cursor on a character boundary <= len: C17's exemptions for the slicing in this loop rest on it, not on the values pushed)
    for key, rl in sorted(rows.items(), key=repr):
        for r in rl:
            adv = r["adv"]
            kind = key[0]
            if adv is None:
                oka = False
            elif kind == "digits":
                oka = len(adv) == 1 and run_len(adv[0], r) is not None
            elif kind == "sep" or kind == "letter":
                oka = [const_int(a) for a in adv] == [1]
            elif kind == "lit" and key[1] == nb:
                oka = len(adv) == 2 and const_int(adv[0]) == len(nb) and run_len(adv[1], r) is not None
            elif kind == "lit":
                oka = [const_int(a) for a in adv] == [len(key[1])] and key[1].isascii()
            elif kind == "other":
                oka = len(adv) == 1 and is_call(adv[0], "char>::len_utf8") and cur_char(strip_refs(call_args(adv[0])[0]))
            else:
                oka = False
            ctx.check(oka, "D1-ADVANCE", DV, "row=%s" % (key[1] if len(key) > 1 else kind), "cursor += byte length of the matched text",
                      "in the %s row the cursor advances by %s, which is not the byte length of what was matched at the cursor (the next slice may start off a character boundary or past the end)"
                      % (key[1] if len(key) > 1 else kind, [term_str(a) for a in adv] if adv is not None else None), fn_span(body), nontrivial=False)
    # the cursor char is the first char of s[idx..]
    cc = [e for p in backs for e in p.calls("Chars as std::iter::Iterator>::next")]
    okc = bool(cc) and all(mentions(e.args[0], lambda s: is_index_call(s) and strip_refs(call_args(s)[0]) == ("param", 1) and mentions(call_args(s)[1], lambda u: u[0] == "havoc" and u[1] == loc["idx"])) for e in cc)
    # ... and every literal test is made on s[idx..] (a test on any other text decides the row from what is not at the cursor)
    for t in lit_subjects:
        sl = [x for x in subterms(t) if is_index_call(x) and content(call_args(x)[0]) == ("param", 1)]
        okc = okc and bool(sl) and all(at_cursor(x, 0) for x in sl) and not any(content(a) == ("param", 1) for a in call_args(t))
    ctx.check(okc, "D1-CURSOR", DV, "scans-from-cursor", "each step looks at input[idx..]",
              "the scanning step does not examine the INPUT string starting at the cursor (it scans a converted copy, e.g. a Unicode case-folded one, or another position): characters outside the rule can then become components", fn_span(body))
    # result
    rets = ret_paths(paths)
    okr = bool(rets)
    for p in rets:
        a = agg_variant(p.end[1])
        if not a:
            okr = False
            continue
        flds = dict(zip(p.end[1][5], a[2]))
        okr = okr and isinstance(flds.get("version"), tuple) and flds["version"][0] in ("havoc", "mutated") and flds["version"][1] == loc["version"] \
            and isinstance(flds.get("pkgrevision"), tuple) and flds["pkgrevision"][0] == "havoc" and flds["pkgrevision"][1] == loc["pkgrevision"]
        # the loop is left when cursor == len, however the test is spelled (==, !=, <, >=)
        endc = [c for c in p.conds() if isinstance(c.term, tuple) and c.term[0] == "binop" and c.term[1] in ("Eq", "Ne", "Lt", "Ge") and is_call(c.term[3], "str>::len", "String::len")
                and isinstance(c.term[2], tuple) and c.term[2][0] == "havoc" and c.term[2][1] == loc["idx"]]
        okr = okr and bool(endc) and endc[-1].fact == ("eq", endc[-1].term[1] in ("Eq", "Ge"))
    ctx.check(okr, "D1-RESULT", DV, "returns-components", "returns (version, pkgrevision) when the cursor reaches the end", "DeweyVersion::new does not return the collected components at end of input", fn_span(body), nontrivial=False)
    # purity: a function of the string alone
    impure = sorted({t["func"]["path"] for _, t in body.calls() if not (t["func"]["path"].startswith(("core::", "std::", "alloc::", "<std::", "<core::", "<alloc::", "dewey::")))})
    ctx.check(not impure, "D4-PURE", DV, "function-of-the-string", "no calls outside std and this module", "the tokeniser calls %s: it may not be a function of the string alone" % impure, fn_span(body), nontrivial=False)
    # D4 the comparison itself: "position by position with missing components read as 0, revision decides only when all components tie" is what
    # C03's CMP-2..CMP-5 / CMP-RET establish about dewey_cmp and dewey_test; a break of those breaks this property's stated order, so their
    # verdicts are part of this check (shared rule instances, evaluated on the current tree)
    share_rules(ctx, "C03", ("CMP-2", "CMP-3", "CMP-4", "CMP-5", "CMP-RET"), "D4-COMPARE", "dewey::dewey_cmp", 10)
    # D5 best_match
    bm = ctx.paths("pattern::Pattern::best_match")
    if bm:
        cm = [e for p in bm for e in p.calls("dewey::dewey_cmp")]
        ok = bool(cm) and all(is_call(strip_refs(e.args[0]), DV) and is_call(strip_refs(e.args[2]), DV) for e in cm)
        ctx.check(ok, "D5-BESTMATCH", "pattern::Pattern::best_match", "same-order", "best_match compares DeweyVersions with dewey_cmp",
                  "best_match does not compare versions with dewey::dewey_cmp on DeweyVersion::new(..)", "")
        # every decision that looks at a version goes through dewey_cmp (a derived ==, a string comparison of versions ... is a different order)
        other = sorted({mir.norm_path(c.term[1]) if is_call(c.term) else c.term[0] for p in bm for c in p.conds()
                        if mentions(c.term, lambda s: is_call(s, DV, "PkgName::pkgversion")) and not is_call(c.term, "dewey::dewey_cmp")})
        # ... and the outcome of that comparison is the one acted on: with both candidates matching, v1 > v2 answers pkg1, v1 < v2 answers pkg2,
        # and a dewey tie (neither) is not settled by the version comparison at all (it reaches the name tie-break, which is C06's)
        from rules.c06 import classify as _classify
        bad_rows = []
        for p in ret_paths(bm):
            conds = {}
            for c in p.conds():
                k, neg = _classify(c.term)
                if k is not None and isinstance(c.fact[1], bool):
                    conds[k] = (c.fact == ("eq", True)) != neg
            if not (conds.get("m1") and conds.get("m2")):
                continue
            r = unwrap_some(p.end[1])
            out = "pkg1" if r == ("param", 2) else "pkg2" if r == ("param", 3) else "?"
            if conds.get("g") and out != "pkg1":
                bad_rows.append("v1 > v2 answers %s" % out)
            elif conds.get("l") and not conds.get("g") and out != "pkg2":
                bad_rows.append("v1 < v2 answers %s" % out)
            elif not conds.get("g") and not conds.get("l") and not ("g" in conds and "l" in conds):
                bad_rows.append("%s is answered without both v1 > v2 and v1 < v2 having been ruled out (a tie is treated as an order)" % out)
        ctx.check(not bad_rows, "D5-BESTMATCH", "pattern::Pattern::best_match", "dewey-outcome-acted-on", "higher version wins; a tie is left to the tie-break",
                  "best_match does not act on the dewey comparison's outcome: %s" % sorted(set(bad_rows))[:2], "")
        ctx.check(not other, "D5-BESTMATCH", "pattern::Pattern::best_match", "only-dewey-cmp", "versions are compared only through dewey_cmp",
                  "best_match also decides on versions through %s: that is not the dewey order (e.g. derived equality distinguishes 1 from 1.0, which tie under zero padding)" % other, "")
