"""C02 — a dewey pattern matches exactly the same-base packages inside its range (structural clauses)."""
import itertools
from lib import *
from rules.c18 import check_part
from rules.c05 import delegate_and_fast_reject

EXPLANATION = (
    "D1 operator scan table ('>' / '<' followed by '=' or not -> GE/LE/GT/LT with version start +2/+2/+1/+1) and validation table over (operator count 0/1/2/>=3 x operator kinds): Ok iff one operator, or two with the first in {GT,GE} and the second in {LT,LE}; "
    "bound texts and base are the slices between the recorded operator positions; each bound is DeweyMatch{op, DeweyVersion::new(text)}; "
    "D2 Dewey::matches splits at the last '-', compares the prefix with the stored base by full string equality (no prefix/suffix/case-folding test), a name without '-' is false, the suffix is the version; "
    "D3 conjunction of bounds (shared with C03); D4 brace-free patterns with '<' or '>' are compiled by Dewey::new(pattern)? in Pattern::new and matched by Dewey::matches(pkg) in Pattern::matches, and the fast-reject in front of the delegate is inert (is_simple_char / quick_pkg_match / early-exit rules shared with C05)")
NOT_DECIDED = ["byte-for-byte equality semantics of str::eq; match_indices / str::get semantics (std)"]
CONFIG_SENSITIVE = False
DESUGAR = True

DN = "dewey::Dewey::new"
DM = "dewey::Dewey::matches"
OP = "dewey::DeweyOp"
OPS = ["LE", "LT", "GE", "GT"]


def run(ctx):
    fx = ctx.fx
    paths = ctx.paths(DN)
    body = ctx.body(DN)
    if paths:
        # ---- scan table
        seen = {}
        for p in paths:
            if p.end[0] != "back":
                continue
            pushes = [e for e in p.events if ev_is(e, "Vec::push") and isinstance(e.args[1], tuple) and e.args[1][0] == "agg" and e.args[1][1] == "tuple" and len(e.args[1][4]) == 3]
            ch = None
            for c in p.conds():
                m = str_eq_lit(c.term)
                if m and m[2] in (">", "<") and ((c.fact == ("eq", True)) != m[0]):
                    ch = m[2]
                    item = m[1]
            eqf = False
            for c in p.conds():
                m = str_eq_lit(c.term)
                if m and m[2] == "=" and ((c.fact == ("eq", True)) != m[0]):
                    g = [s for s in subterms(m[1]) if is_call(s, "str>::get")]
                    ok_next = False
                    if g:
                        rg = agg_variant(call_args(g[0])[1])
                        if rg and rg[1] == "Range":
                            lo, hi = rg[2]
                            ok_next = lo[0] == "binop" and lo[1] == "Add" and const_int(lo[3]) == 1 and hi[0] == "binop" and const_int(hi[3]) == 2 and lo[2] == hi[2] and strip_refs(call_args(g[0])[0]) == ("param", 1)
                    eqf = ok_next
            if len(pushes) != 1 or ch is None:
                ctx.violation("D1-SCAN", DN, "scan-path", "a scan-loop iteration does not push exactly one operator record for a matched '<'/'>'", fn_span(body))
                continue
            idx, start, opt = pushes[0].args[1][4]
            a = agg_variant(opt)
            k = const_int(start[3]) if isinstance(start, tuple) and start[0] == "binop" and start[1] == "Add" and start[2] == idx else None
            from_match = mentions(idx, lambda s: is_call(s, "::next")) and mentions(idx, lambda s: is_call(s, "str>::match_indices"))
            seen.setdefault((ch, eqf), set()).add((a[1] if a else None, k, from_match))
        want = {(">", True): ("GE", 2), (">", False): ("GT", 1), ("<", True): ("LE", 2), ("<", False): ("LT", 1)}
        for key, (op, k) in want.items():
            got = seen.get(key, set())
            ctx.check(got == {(op, k, True)}, "D1-SCAN", DN, "%s%s" % (key[0], "=" if key[1] else ""), "%s -> %s, version starts at +%d" % (key[0] + ("=" if key[1] else ""), op, k),
                      "operator text %r is recorded as %s; expected (%s, version start = index + %d, index from match_indices)" % (key[0] + ("=" if key[1] else ""), sorted(got, key=str), op, k), fn_span(body))
        mi = [e for p in paths for e in p.calls("str>::match_indices")]
        okmi = bool(mi) and strip_refs(mi[0].args[0]) == ("param", 1)
        pat = strip_refs(resolve_promoted(ctx, strip_refs(mi[0].args[1]))) if mi else None
        chars = sorted(const_char(x) for x in (pat[4] if isinstance(pat, tuple) and pat[0] == "agg" else ()) if const_char(x)) if pat else []
        ctx.check(okmi and chars == ["<", ">"], "D1-SCAN", DN, "searched-characters", "operators are searched with match_indices(['>','<']) over the pattern",
                  "the operator scan searches %s in %s" % (chars, term_str(mi[0].args[0])[:40] if mi else None), fn_span(body), nontrivial=False)

        # ---- validation table
        rets = ret_paths(paths)

        def ops_len(t):
            return is_call(t, "Vec::len") and isinstance(strip_refs(call_args(t)[0]), tuple) and strip_refs(call_args(t)[0])[0] in ("havoc", "mutated")

        def op_at(t):
            """i if t is deweyops[i].2"""
            t = strip_refs(t)
            if isinstance(t, tuple) and t[0] == "field" and t[2] == 2:
                ix = strip_refs(t[1])
                if is_index_call(ix):
                    return const_int(call_args(ix)[1])
            return None

        def consistent(p, n, kinds):
            for c in p.conds():
                t = c.term
                if ops_len(t):
                    if c.fact[0] == "eq" and c.fact[1] != n:
                        return False
                    if c.fact[0] == "ne" and n in c.fact[1]:
                        return False
                elif t[0] == "discr":
                    i = op_at(t[1])
                    if i is None or kinds is None or i >= len(kinds):
                        continue
                    d = OPS.index(kinds[i])
                    if c.fact[0] == "eq" and c.fact[1] != d:
                        return False
                    if c.fact[0] == "ne" and d in c.fact[1]:
                        return False
            return True
        ctx.check(enum_variants(fx, OP) == OPS, "D1-VALIDATE", OP, "variants", "LE, LT, GE, GT", "DeweyOp variants/order changed: %s" % enum_variants(fx, OP), nontrivial=False)
        rows = [(0, None), (1, None), (3, None), (4, None)] + [(2, k) for k in itertools.product(OPS, repeat=2)]
        bad = []
        for n, kinds in rows:
            ps = [p for p in rets if consistent(p, n, kinds)]
            outs = set()
            for p in ps:
                if unwrap_ok(p.end[1]) is not None:
                    outs.add("Ok")
                elif is_propagated_err(p.end[1]):
                    outs.add("Ok")  # only DeweyMatch::new's (infallible) error channel: same arm as Ok
                elif unwrap_err(p.end[1]) is not None:
                    outs.add("Err")
            want = "Ok" if (n == 1 or (n == 2 and kinds[0] in ("GT", "GE") and kinds[1] in ("LT", "LE"))) else "Err"
            if outs != {want}:
                bad.append((n, kinds, sorted(outs), want))
        ctx.check(not bad, "D1-VALIDATE", DN, "decision-table", "%d rows agree with the spec" % len(rows),
                  "operator validation differs on %d row(s), e.g. %d operator(s) %s -> %s, expected %s" % (len(bad), bad[0][0] if bad else 0, bad[0][1] if bad else "", bad[0][2] if bad else "", bad[0][3] if bad else ""), fn_span(body))
        ctx.floor("D1-VALIDATE", DN, "rows", len(rows), 20)

        # ---- slices
        def rec(i, f):
            return lambda t: isinstance(strip_refs(t), tuple) and strip_refs(t)[0] == "field" and strip_refs(t)[2] == f and is_index_call(strip_refs(strip_refs(t)[1])) and const_int(call_args(strip_refs(strip_refs(t)[1]))[1]) == i

        def slice_of(t):
            t = strip_refs(t)
            if is_index_call(t) and strip_refs(call_args(t)[0]) == ("param", 1):
                return canon_range(call_args(t)[0], call_args(t)[1])      # [a..], [a..len], [..b], [0..b] alike
            return None
        oks = [p for p in rets if unwrap_ok(p.end[1]) is not None]
        for p in oks:
            n = None
            for c in p.conds():
                if ops_len(c.term) and c.fact[0] == "eq":
                    n = c.fact[1]
            dm = p.calls("dewey::DeweyMatch::new")
            want = {1: [((0, 1), "len", 0)], 2: [((0, 1), (1, 0), 0), ((1, 1), "len", 1)]}.get(n)
            ok = want is not None and len(dm) == len(want)
            if ok:
                for e, (lo_w, hi_w, opi) in zip(dm, want):
                    sl = slice_of(e.args[1])
                    ok = ok and sl is not None and rec(*lo_w)(sl[0]) and (rec(*hi_w)(sl[1]) if hi_w != "len" else sl[1] == LEN) \
                        and rec(opi, 2)(e.args[0])
            v = unwrap_ok(p.end[1])
            a = agg_variant(v)
            flds = dict(zip(v[5], a[2]))
            base = slice_of(call_args(flds["pkgname"])[0]) if is_call(flds.get("pkgname")) else None
            okb = base is not None and const_int(base[0]) == 0 and rec(0, 0)(base[1])
            ctx.check(ok and okb, "D1-SLICES", DN, "count=%s" % n, "bounds and base are the slices between the operator records",
                      "with %s operator(s) the bound texts / base are not pattern[ops[i].1 .. next operator or end] and pattern[0 .. ops[0].0]" % n, fn_span(body))
    # every compiled bound is kept: the vector returned as `matches` is only ever pushed to, once per bound, in order
    if paths:
        mloc = None
        for p in oks:
            v = unwrap_ok(p.end[1])
            a = agg_variant(v)
            t = dict(zip(v[5], a[2])).get("matches")
            if isinstance(t, tuple) and t[0] in ("havoc", "mutated"):
                mloc = t[1]
        bad_mut = set()
        npush = {}
        for p in oks:
            k = 0
            for e in p.events:
                if e.kind == "call" and e.args and isinstance(e.args[0], tuple) and e.args[0][0] == "refmut" and isinstance(e.args[0][1], tuple) and e.args[0][1][:2] == ("loc", mloc):
                    if e.name.endswith("Vec::push") and find_calls(e.args[1], "dewey::DeweyMatch::new"):
                        k += 1
                    else:
                        bad_mut.add(e.name.split("::")[-1])
            nn = None
            for c in p.conds():
                if ops_len(c.term) and c.fact[0] == "eq":
                    nn = c.fact[1]
            npush[nn] = k
        ctx.check(mloc is not None and not bad_mut and npush.get(1) == 1 and npush.get(2) == 2, "D1-BOUNDS-KEPT", DN, "every-bound-stored",
                  "the returned bounds are exactly the compiled ones (1 or 2 pushes, nothing removed)",
                  "the bounds vector is also modified by %s / holds %s bounds for 1,2 operators: a compiled bound is dropped or altered, so a name no longer has to satisfy every bound (e.g. `>=0` is a real bound: 0rc1 sorts below 0)"
                  % (sorted(bad_mut) or "-", npush), fn_span(body))
    DMN = "dewey::DeweyMatch::new"
    ps = ctx.paths(DMN)
    if ps:
        b = ctx.body(DMN)
        okd = True
        for p in ret_paths(ps):
            v = unwrap_ok(p.end[1])
            a = agg_variant(v) if v is not None else None
            flds = dict(zip(v[5], a[2])) if a else {}
            okd = okd and is_call(flds.get("version"), "dewey::DeweyVersion::new") and strip_refs(call_args(flds["version"])[0]) == ("param", 2) \
                and is_call(flds.get("op"), "Clone>::clone", "::clone") and strip_refs(call_args(flds["op"])[0]) == ("param", 1)
        ctx.check(okd and bool(ret_paths(ps)), "D1-BOUND", DMN, "constructs", "DeweyMatch{op.clone(), DeweyVersion::new(text)}", "DeweyMatch::new does not store (op, DeweyVersion::new(text))", fn_span(b))

    # ---- D2 matches
    paths = ctx.paths(DM)
    body = ctx.body(DM)
    if paths:
        banned = [t["func"]["path"] for _, t in body.calls() if mir.norm_path(t["func"]["path"]).split("::")[-1] in ("starts_with", "ends_with", "contains", "eq_ignore_ascii_case", "to_lowercase", "to_ascii_lowercase", "trim", "strip_prefix")]
        ctx.check(not banned, "D2-BASE-EQ", DM, "no-partial-compare", "no prefix/suffix/case-folding test on the name",
                  "Dewey::matches uses %s: the base must be compared by full byte-for-byte equality" % banned, fn_span(body))
        done = False
        for p in paths:
            for c in p.conds():
                e = eq_call(c.term)
                if e and any(mentions(x, lambda s: s[0] == "field" and s[3] == "pkgname") for x in e[1:]):
                    other = e[1] if not mentions(e[1], lambda s: s[0] == "field" and s[3] == "pkgname") else e[2]
                    check_part(ctx, DM, body, "base-compare", other, "prefix", lambda t: t == ("param", 2), body.span_of(c.bb))
                    tys = eq_self_type(c.term)
                    ctx.check("str" in tys or "String" in tys, "D2-BASE-EQ", DM, "string-equality", "PartialEq on str/String", "the base comparison is not a string equality (%s)" % tys[:80], body.span_of(c.bb), nontrivial=False)
                    done = True
                    break
            if done:
                break
        ctx.check(done, "D2-BASE-EQ", DM, "present", "base equality test exists", "Dewey::matches never compares the name's base with the pattern's base", fn_span(body), nontrivial=False)
        for p in paths:
            ev = p.calls("dewey::DeweyVersion::new")
            if ev:
                check_part(ctx, DM, body, "version-arg", ev[0].args[0], "suffix", lambda t: t == ("param", 2), body.span_of(ev[0].bb))
                break
        # mismatching base / missing dash -> false before any version work
        rets = ret_paths(paths)
        early = [p for p in rets if not p.calls("dewey::DeweyVersion::new")]
        ok = len(early) >= 2 and all(const_of(p.end[1]) is False for p in early)
        ctx.check(ok, "D2-EARLY-FALSE", DM, "no-dash/other-base", "no '-' or another base -> false", "a name without '-' or with a different base is not rejected with `false`", fn_span(body))

    # ---- D4 agreement with Pattern
    pn = ctx.paths("pattern::Pattern::new")
    if pn:
        b = ctx.body("pattern::Pattern::new")
        ok = False
        for p in ret_paths(pn):
            v = unwrap_ok(p.end[1])
            a = agg_variant(v) if v is not None else None
            if not a:
                continue
            flds = dict(zip(v[5], a[2]))
            mt = agg_variant(flds.get("matchtype"))
            if mt and mt[1] == "Dewey":
                d = unwrap_some(flds.get("dewey"))
                ok = d is not None and bool(find_calls(d, DN)) and has_try(d) and strip_refs(call_args(find_calls(d, DN)[0])[0]) == ("param", 1)
                brace = [c for c in p.conds() if is_call(c.term, "str>::contains") and const_char(call_args(c.term)[1]) in ("{", "}")]
                ok = ok and len(brace) == 2 and all(c.fact == ("eq", False) for c in brace)
        ctx.check(ok, "D4-PATTERN-AGREES", "pattern::Pattern::new", "dewey-arm", "brace-free '<'/'>' patterns compile with Dewey::new(pattern)?",
                  "Pattern::new does not compile brace-free comparison patterns with Dewey::new(pattern)? (errors propagated)", fn_span(b))
    pm = ctx.paths("pattern::Pattern::matches")
    if pm:
        b = ctx.body("pattern::Pattern::matches")
        ok = any(is_call(p.end[1], DM) and mentions(call_args(p.end[1])[0], lambda s: s[0] == "field" and s[3] == "dewey") and strip_refs(call_args(p.end[1])[1]) == ("param", 2) for p in ret_paths(pm))
        ctx.check(ok, "D4-PATTERN-AGREES", "pattern::Pattern::matches", "dewey-delegate", "Dewey patterns are matched by Dewey::matches(pkg)", "Pattern::matches does not delegate Dewey patterns to Dewey::matches on the same name", fn_span(b))

    # the fast-reject in front of the delegate must be inert, or Pattern disagrees with Dewey (shared with C05)
    delegate_and_fast_reject(ctx, only_fast_reject=True, P="D4-")
