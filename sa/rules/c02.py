"""C02 — a dewey pattern matches exactly the same-base packages inside its range (structural clauses)."""
import itertools
from lib import *
from rules.c18 import check_part
from rules.c05 import delegate_and_fast_reject

EXPLANATION = (
    "D1 operator scan table ('>' / '<' followed by '=' or not -> GE/LE/GT/LT with version start +2/+2/+1/+1) and validation table over (operator count 0/1/2/>=3 x operator kinds): Ok iff one operator, or two with the first in {GT,GE} and the second in {LT,LE}; "
    "bound texts and base are the slices between the recorded operator positions; each bound is DeweyMatch{op, DeweyVersion::new(text)}; "
    "D2 Dewey::matches splits at the last '-', compares the prefix with the stored base by full string equality (no prefix/suffix/case-folding test), a name without '-' is false, the suffix is the version; "
    "D3 conjunction of bounds (shared with C03); D4 brace-free patterns with '<' or '>' are compiled by Dewey::new(pattern)? in Pattern::new and matched by Dewey::matches(pkg) in Pattern::matches, and the fast-reject in front of the delegate is inert (is_simple_char / quick_pkg_match / early-exit rules shared with C05); recognised spellings: the '=' look-ahead as get(i+1..i+2), [i+1..].starts_with('='), as_bytes().get(i+1); the validation as match on len() or as slice patterns; the bounds as pushes or as a vector literal (all bounds kept, in order)"
    " D-ORDER 'inside its range' is decided by the version order: C01's D1-TOK-TABLE / D1-ADVANCE / D1-CURSOR / D2-TOK-CASE and C03's CMP-2..5 / CMP-RET verdicts are shared instances of this check.")
NOT_DECIDED = ["byte-for-byte equality semantics of str::eq; match_indices / str::get semantics (std)"]
CONFIG_SENSITIVE = False
DESUGAR = True

DN = "dewey::Dewey::new"
DM = "dewey::Dewey::matches"
OP = "dewey::DeweyOp"
OPS = ["LE", "LT", "GE", "GT"]


def _plus_one(t):
    """i if t is i + 1"""
    t = strip_refs(t)
    if isinstance(t, tuple) and t and t[0] == "binop" and t[1] == "Add" and const_int(t[3]) == 1:
        return t[2]
    return None


def next_is_eq(t):
    """(i, negated) if the condition term holds exactly when the byte right after position i of the pattern is '=' -- however that is spelled:
    pattern.get(i+1..i+2) == Some("="), pattern[i+1..].starts_with('='), pattern.as_bytes().get(i+1) == Some(&b'='), ...; else None"""
    m = str_eq_lit(t)
    if m and m[2] == "=":
        for g in [s for s in subterms(m[1]) if is_call(s, "str>::get") or is_index_call(s)]:
            rg = agg_variant(call_args(g)[1])
            if rg and rg[1] == "Range" and strip_refs(call_args(g)[0]) == ("param", 1):
                lo, hi = rg[2]
                i = _plus_one(lo)
                if i is not None and isinstance(hi, tuple) and hi[0] == "binop" and hi[1] == "Add" and const_int(hi[3]) == 2 and hi[2] == i:
                    return (i, m[0])
        return None
    t0 = strip_refs(t)
    if is_call(t0, "str>::starts_with") and len(call_args(t0)) == 2 and (const_char(call_args(t0)[1]) == "=" or const_str(call_args(t0)[1]) == "="):
        x = content(call_args(t0)[0])
        if is_index_call(x) and content(call_args(x)[0]) == ("param", 1):
            rg = canon_range(call_args(x)[0], call_args(x)[1])
            if rg is not None and _plus_one(rg[0]) is not None:
                hi_ok = rg[1] == LEN or (isinstance(rg[1], tuple) and rg[1][0] == "binop" and rg[1][1] == "Add" and rg[1][2] == _plus_one(rg[0]) and (const_int(rg[1][3]) or 0) >= 2)
                if hi_ok:
                    return (_plus_one(rg[0]), False)
        return None
    e = eq_call(t)
    if e:
        neg, a, b = e
        for x, y in ((a, b), (b, a)):
            ya = agg_variant(strip_refs(y))
            byte = const_int(ya[2][0]) if ya and ya[1] == "Some" and len(ya[2]) == 1 else const_int(y)
            if byte != 0x3d:
                continue
            x0 = strip_refs(x)
            if is_call(x0, "Option::copied", "Option::cloned"):
                x0 = strip_refs(call_args(x0)[0])
            opt = ya is not None
            if (opt and is_call(x0, "slice::<impl [T]>::get") and len(call_args(x0)) == 2) or (not opt and is_index_call(x0)):
                base = strip_refs(call_args(x0)[0])
                if is_call(base, "str>::as_bytes") and strip_refs(call_args(base)[0]) == ("param", 1) and _plus_one(call_args(x0)[1]) is not None:
                    return (_plus_one(call_args(x0)[1]), neg)
    return None


ROLE = {"start": 0, "vstart": 1, "op": 2}


def run(ctx):
    fx = ctx.fx
    ROLE.update(start=0, vstart=1, op=2)
    paths = ctx.paths(DN)
    body = ctx.body(DN)
    if paths:
        # ---- scan table
        seen = {}
        for p in paths:
            if p.end[0] != "back":
                continue
            # an operator record: a 3-tuple or a 3-field struct of (where the operator starts, where its version starts, which operator)
            pushes = [e for e in p.events if ev_is(e, "Vec::push") and isinstance(e.args[1], tuple) and e.args[1][0] == "agg" and e.args[1][1] in ("tuple", "adt") and len(e.args[1][4]) == 3
                      and any(agg_variant(x) and agg_variant(x)[0] == OP for x in e.args[1][4])]
            ch = None
            ruled_out = set()
            for c in p.conds():
                m = str_eq_lit(c.term)
                if m and m[2] in (">", "<") and ((c.fact == ("eq", True)) != m[0]):
                    ch = m[2]
                    item = m[1]
                elif m and m[2] in (">", "<") and isinstance(c.fact[1], bool):
                    ruled_out.add(m[2])
            if ch is None and len(ruled_out) == 1:
                # only one of the two searched characters is tested (`matched == ">"`): not that one means the other
                # (the searched set is exactly {'<', '>'}: checked below as `searched-characters`)
                ch = ({">", "<"} - ruled_out).pop()
            eqs = []
            for c in p.conds():
                m = next_is_eq(c.term)
                if m:
                    eqs.append((m[0], (c.fact == ("eq", True)) != m[1]))
            if len(pushes) != 1 or ch is None:
                ctx.violation("D1-SCAN", DN, "scan-path", "a scan-loop iteration does not push exactly one operator record for a matched '<'/'>'", fn_span(body))
                continue
            ops3 = list(pushes[0].args[1][4])
            # roles by what the components are (so that the field order of a record struct does not matter): the operator is the DeweyOp, the
            # operator position is the index yielded by match_indices, the version start is the other number
            oi = [i for i, x in enumerate(ops3) if agg_variant(x) and agg_variant(x)[0] == OP]
            ni = [i for i in range(3) if i not in oi]
            ii = [i for i in ni if not (isinstance(ops3[i], tuple) and ops3[i][0] == "binop")]
            if len(oi) != 1 or len(ii) != 1:
                ctx.violation("D1-SCAN", DN, "scan-path", "the operator record pushed in the scan loop is not (operator position, version start, operator)", fn_span(body))
                continue
            ROLE["op"], ROLE["start"] = oi[0], ii[0]
            ROLE["vstart"] = [i for i in ni if i != ii[0]][0]
            idx, start, opt = ops3[ROLE["start"]], ops3[ROLE["vstart"]], ops3[ROLE["op"]]
            # '=' follows the matched operator character: the test must be about the position right after THIS match
            eqf = any(v for i, v in eqs if i == idx)
            a = agg_variant(opt)
            k = const_int(start[3]) if isinstance(start, tuple) and start[0] == "binop" and start[1] == "Add" and start[2] == idx else None
            if k is None:
                # index + 1 + usize::from(has_eq): the leaves of the sum; a bool turned into 0 / 1 is read off the path (has_eq is what this
                # path branched on)
                leaves = []

                def walk_(x):
                    if isinstance(x, tuple) and x and x[0] == "binop" and x[1] == "Add":
                        walk_(x[2])
                        walk_(x[3])
                    else:
                        leaves.append(x)
                walk_(strip_refs(start))
                if sum(1 for x in leaves if x == idx) == 1:
                    tot = 0
                    for x in leaves:
                        if x == idx:
                            continue
                        if const_int(x) is not None:
                            tot += const_int(x)
                            continue
                        b_ = strip_refs(x)
                        for _ in range(3):
                            if is_call(b_, "From<bool>>::from", "usize::from", "::from", "::into") and len(call_args(b_)) == 1:
                                b_ = strip_refs(call_args(b_)[0])
                            elif isinstance(b_, tuple) and b_ and b_[0] == "cast":
                                b_ = strip_refs(b_[-1])
                        fb = [c_.fact for c_ in p.conds() if strip_refs(c_.term) == b_ and c_.fact[0] == "eq" and isinstance(c_.fact[1], bool)]
                        if fb:
                            tot += 1 if fb[-1][1] else 0
                        else:
                            tot = None
                            break
                    k = tot
            from_match = mentions(idx, lambda s: is_call(s, "::next")) and mentions(idx, lambda s: is_call(s, "str>::match_indices"))
            seen.setdefault((ch, eqf), set()).add((a[1] if a else None, k, from_match))
        want = {(">", True): ("GE", 2), (">", False): ("GT", 1), ("<", True): ("LE", 2), ("<", False): ("LT", 1)}
        for key, (op, k) in want.items():
            got = seen.get(key, set())
            ctx.check(got == {(op, k, True)}, "D1-SCAN", DN, "%s%s" % (key[0], "=" if key[1] else ""), "%s -> %s, version starts at +%d" % (key[0] + ("=" if key[1] else ""), op, k),
                      "operator text %r is recorded as %s; expected (%s, version start = index + %d, index from match_indices)" % (key[0] + ("=" if key[1] else ""), sorted(got, key=str), op, k), fn_span(body))
        mi = [e for p in paths for e in p.calls("str>::match_indices")]
        okmi = bool(mi) and strip_refs(mi[0].args[0]) == ("param", 1)
        pat = strip_refs(resolve_promoted(ctx, strip_refs(mi[0].args[1]))) if mi else None
        chars = sorted(const_char(x) for x in (pat[4] if isinstance(pat, tuple) and pat[0] == "agg" else ()) if const_char(x)) if pat else []
        ctx.check(okmi and chars == ["<", ">"], "D1-SCAN", DN, "searched-characters", "operators are searched with match_indices(['>','<']) over the pattern",
                  "the operator scan searches %s in %s" % (chars, term_str(mi[0].args[0])[:40] if mi else None), fn_span(body), nontrivial=False)

        # ---- validation table
        rets = ret_paths(paths)

        def is_ops(cl):
            return isinstance(cl, tuple) and bool(cl) and cl[0] in ("havoc", "mutated")

        def count_fact(c):
            """allowed(n) if the condition constrains the number of operator records (deweyops.len() switch / comparison, slice-pattern length test)"""
            lf = length_fact(c)
            return lf[1] if lf is not None and is_ops(lf[0]) else None

        def count_of(p):
            """the operator count a path is about: the only n in 0..5 its length conditions allow, else None"""
            fs = [count_fact(c) for c in p.conds()]
            fs = [f for f in fs if f is not None]
            ns = [n for n in range(6) if all(f(n) for f in fs)]
            return ns[0] if fs and len(ns) == 1 else None

        def rec_field(t):
            """(i, f) if t is deweyops[i].f -- through Index::index or a slice-pattern binding"""
            t = strip_refs(t)
            while isinstance(t, tuple) and t and t[0] == "deref":
                t = strip_refs(t[1])
            if isinstance(t, tuple) and t and t[0] == "field":
                el = element_of(t[1])
                if el is not None and is_ops(el[0]):
                    return (el[1], t[2])
            return None

        def op_at(t):
            """i if t is the operator of record i"""
            r = rec_field(t)
            return r[0] if r is not None and r[1] == ROLE["op"] else None

        def consistent(p, n, kinds):
            for c in p.conds():
                t = c.term
                cf = count_fact(c)
                if cf is not None:
                    if not cf(n):
                        return False
                elif t[0] == "discr":
                    i = op_at(t[1])
                    if i is None or kinds is None or i >= len(kinds):
                        continue
                    d = OPS.index(kinds[i])
                    if c.fact[0] == "eq" and c.fact[1] != d:
                        return False
                    if c.fact[0] == "ne" and d in c.fact[1]:
                        return False
            return True
        ctx.check(enum_variants(fx, OP) == OPS, "D1-VALIDATE", OP, "variants", "LE, LT, GE, GT", "DeweyOp variants/order changed: %s" % enum_variants(fx, OP), nontrivial=False)
        rows = [(0, None), (1, None), (3, None), (4, None)] + [(2, k) for k in itertools.product(OPS, repeat=2)]
        bad = []
        for n, kinds in rows:
            ps = [p for p in rets if consistent(p, n, kinds)]
            outs = set()
            for p in ps:
                if unwrap_ok(p.end[1]) is not None:
                    outs.add("Ok")
                elif is_propagated_err(p.end[1]):
                    outs.add("Ok")  # only DeweyMatch::new's (infallible) error channel: same arm as Ok
                elif unwrap_err(p.end[1]) is not None:
                    outs.add("Err")
            want = "Ok" if (n == 1 or (n == 2 and kinds[0] in ("GT", "GE") and kinds[1] in ("LT", "LE"))) else "Err"
            if outs != {want}:
                bad.append((n, kinds, sorted(outs), want))
        ctx.check(not bad, "D1-VALIDATE", DN, "decision-table", "%d rows agree with the spec" % len(rows),
                  "operator validation differs on %d row(s), e.g. %d operator(s) %s -> %s, expected %s" % (len(bad), bad[0][0] if bad else 0, bad[0][1] if bad else "", bad[0][2] if bad else "", bad[0][3] if bad else ""), fn_span(body))
        ctx.floor("D1-VALIDATE", DN, "rows", len(rows), 20)

        # ---- slices
        def rec(i, f):
            # f is a role given by its position in the (start, version start, operator) triple
            return lambda t: rec_field(t) == (i, ROLE[("start", "vstart", "op")[f]])

        def slice_of(t):
            t = strip_refs(t)
            if is_index_call(t) and strip_refs(call_args(t)[0]) == ("param", 1):
                return canon_range(call_args(t)[0], call_args(t)[1])      # [a..], [a..len], [..b], [0..b] alike
            return None
        oks = [p for p in rets if unwrap_ok(p.end[1]) is not None]
        for p in oks:
            n = count_of(p)
            dm = p.calls("dewey::DeweyMatch::new")
            want = {1: [((0, 1), "len", 0)], 2: [((0, 1), (1, 0), 0), ((1, 1), "len", 1)]}.get(n)
            ok = want is not None and len(dm) == len(want)
            if ok:
                for e, (lo_w, hi_w, opi) in zip(dm, want):
                    sl = slice_of(e.args[1])
                    ok = ok and sl is not None and rec(*lo_w)(sl[0]) and (rec(*hi_w)(sl[1]) if hi_w != "len" else sl[1] == LEN) \
                        and rec(opi, 2)(e.args[0])
            v = unwrap_ok(p.end[1])
            a = agg_variant(v)
            flds = dict(zip(v[5], a[2]))
            base = slice_of(call_args(flds["pkgname"])[0]) if is_call(flds.get("pkgname")) else None
            okb = base is not None and const_int(base[0]) == 0 and rec(0, 0)(base[1])
            ctx.check(ok and okb, "D1-SLICES", DN, "count=%s" % n, "bounds and base are the slices between the operator records",
                      "with %s operator(s) the bound texts / base are not pattern[ops[i].1 .. next operator or end] and pattern[0 .. ops[0].0]" % n, fn_span(body))
    # every compiled bound is kept, in order: the vector returned as `matches` is built only from the compiled bounds -- either a vector that is only
    # ever pushed to, once per bound, or a vector literal of them
    if paths:
        bad_mut = set()
        npush = {}
        in_order = True
        for p in oks:
            v = unwrap_ok(p.end[1])
            a = agg_variant(v)
            t = dict(zip(v[5], a[2])).get("matches")
            dm = [e.term for e in p.calls("dewey::DeweyMatch::new")]
            stored = None
            if isinstance(t, tuple) and t[0] in ("havoc", "mutated"):
                mloc = t[1]
                stored = []
                for e in p.events:
                    if e.kind == "call" and e.args and isinstance(e.args[0], tuple) and e.args[0][0] == "refmut" and isinstance(e.args[0][1], tuple) and e.args[0][1][:2] == ("loc", mloc):
                        if e.name.endswith("Vec::push"):
                            stored.append(e.args[1])
                        else:
                            bad_mut.add(e.name.split("::")[-1])
            elif is_call(strip_refs(t), "::into_vec") and agg_variant(call_args(strip_refs(t))[0]) is None and isinstance(call_args(strip_refs(t))[0], tuple) and call_args(strip_refs(t))[0][:2] == ("agg", "array"):
                stored = list(call_args(strip_refs(t))[0][4])
            if stored is None:
                npush[count_of(p)] = None
                continue
            # element i is the Ok payload of the i-th DeweyMatch::new call of the path
            for i, x in enumerate(stored):
                c = find_calls(x, "dewey::DeweyMatch::new")
                if not (c and i < len(dm) and c[0] == dm[i]):
                    in_order = False
            npush[count_of(p)] = len(stored)
        ctx.check(bool(oks) and not bad_mut and in_order and npush.get(1) == 1 and npush.get(2) == 2, "D1-BOUNDS-KEPT", DN, "every-bound-stored",
                  "the returned bounds are exactly the compiled ones (1 or 2 of them, in order, nothing removed)",
                  "the bounds vector is also modified by %s / holds %s bounds for 1,2 operators%s: a compiled bound is dropped, reordered or altered, so a name no longer has to satisfy every bound (e.g. `>=0` is a real bound: 0rc1 sorts below 0)"
                  % (sorted(bad_mut) or "-", npush, "" if in_order else " / not in the order compiled"), fn_span(body))
    DMN = "dewey::DeweyMatch::new"
    ps = ctx.paths(DMN)
    if ps:
        b = ctx.body(DMN)
        okd = True
        for p in ret_paths(ps):
            v = unwrap_ok(p.end[1])
            a = agg_variant(v) if v is not None else None
            flds = dict(zip(v[5], a[2])) if a else {}
            okd = okd and is_call(flds.get("version"), "dewey::DeweyVersion::new") and strip_refs(call_args(flds["version"])[0]) == ("param", 2) \
                and is_call(flds.get("op"), "Clone>::clone", "::clone") and strip_refs(call_args(flds["op"])[0]) == ("param", 1)
        ctx.check(okd and bool(ret_paths(ps)), "D1-BOUND", DMN, "constructs", "DeweyMatch{op.clone(), DeweyVersion::new(text)}", "DeweyMatch::new does not store (op, DeweyVersion::new(text))", fn_span(b))

    # ---- D2 matches
    paths = ctx.paths(DM)
    body = ctx.body(DM)
    if paths:
        banned = [t["func"]["path"] for _, t in body.calls() if mir.norm_path(t["func"]["path"]).split("::")[-1] in ("starts_with", "ends_with", "contains", "eq_ignore_ascii_case", "to_lowercase", "to_ascii_lowercase", "trim", "strip_prefix")]
        ctx.check(not banned, "D2-BASE-EQ", DM, "no-partial-compare", "no prefix/suffix/case-folding test on the name",
                  "Dewey::matches uses %s: the base must be compared by full byte-for-byte equality" % banned, fn_span(body))
        done = False
        for p in paths:
            for c in p.conds():
                e = eq_call(c.term)
                if e and any(mentions(x, lambda s: s[0] == "field" and s[3] == "pkgname") for x in e[1:]):
                    other = e[1] if not mentions(e[1], lambda s: s[0] == "field" and s[3] == "pkgname") else e[2]
                    check_part(ctx, DM, body, "base-compare", other, "prefix", lambda t: t == ("param", 2), body.span_of(c.bb))
                    tys = eq_self_type(c.term)
                    ctx.check("str" in tys or "String" in tys, "D2-BASE-EQ", DM, "string-equality", "PartialEq on str/String", "the base comparison is not a string equality (%s)" % tys[:80], body.span_of(c.bb), nontrivial=False)
                    done = True
                    break
            if done:
                break
        ctx.check(done, "D2-BASE-EQ", DM, "present", "base equality test exists", "Dewey::matches never compares the name's base with the pattern's base", fn_span(body), nontrivial=False)
        for p in paths:
            ev = p.calls("dewey::DeweyVersion::new")
            if ev:
                check_part(ctx, DM, body, "version-arg", ev[0].args[0], "suffix", lambda t: t == ("param", 2), body.span_of(ev[0].bb))
                break
        # mismatching base / missing dash -> false before any version work
        rets = ret_paths(paths)
        early = [p for p in rets if not p.calls("dewey::DeweyVersion::new")]
        ok = len(early) >= 2 and all(const_of(p.end[1]) is False for p in early)
        ctx.check(ok, "D2-EARLY-FALSE", DM, "no-dash/other-base", "no '-' or another base -> false", "a name without '-' or with a different base is not rejected with `false`", fn_span(body))

    # ---- D4 agreement with Pattern
    pn = ctx.paths("pattern::Pattern::new")
    if pn:
        b = ctx.body("pattern::Pattern::new")
        ok = False
        for p in ret_paths(pn):
            v = unwrap_ok(p.end[1])
            a = agg_variant(v) if v is not None else None
            if not a:
                continue
            flds = dict(zip(v[5], a[2]))
            mt = agg_variant(flds.get("matchtype"))
            if mt and mt[1] == "Dewey":
                d = unwrap_some(flds.get("dewey"))
                ok = d is not None and bool(find_calls(d, DN)) and has_try(d) and strip_refs(call_args(find_calls(d, DN)[0])[0]) == ("param", 1)
                # ... and only when the pattern contains neither brace (contains('{') || contains('}'), or contains(['{', '}']), tested false)
                absent = set()
                for chs, truth in contains_facts(ctx, p):
                    if not truth:
                        absent |= set(chs)
                ok = ok and {"{", "}"} <= absent
        ctx.check(ok, "D4-PATTERN-AGREES", "pattern::Pattern::new", "dewey-arm", "brace-free '<'/'>' patterns compile with Dewey::new(pattern)?",
                  "Pattern::new does not compile brace-free comparison patterns with Dewey::new(pattern)? (errors propagated)", fn_span(b))
    pm = ctx.paths("pattern::Pattern::matches")
    if pm:
        b = ctx.body("pattern::Pattern::matches")
        ok = any(is_call(p.end[1], DM) and mentions(call_args(p.end[1])[0], lambda s: s[0] == "field" and s[3] == "dewey") and strip_refs(call_args(p.end[1])[1]) == ("param", 2) for p in ret_paths(pm))
        ctx.check(ok, "D4-PATTERN-AGREES", "pattern::Pattern::matches", "dewey-delegate", "Dewey patterns are matched by Dewey::matches(pkg)", "Pattern::matches does not delegate Dewey patterns to Dewey::matches on the same name", fn_span(b))

    # the fast-reject in front of the delegate must be inert, or Pattern disagrees with Dewey (shared with C05)
    delegate_and_fast_reject(ctx, only_fast_reject=True, P="D4-")

    # ---- D-ORDER: "inside its range" is decided by the version order: how a version text is read (the tokeniser's table, cursor and saturation
    #      rules of C01) and how two versions are compared (C03's CMP rules) are part of what this property states; their verdicts are shared here
    share_rules(ctx, "C01", ("D1-TOK-TABLE", "D1-ADVANCE", "D1-CURSOR", "D2-TOK-CASE"), "D-ORDER", "dewey::DeweyVersion::new", 10)
    share_rules(ctx, "C03", ("CMP-2", "CMP-3", "CMP-4", "CMP-5", "CMP-RET"), "D-ORDER", "dewey::dewey_cmp", 10)
