"""C03 — version order is a total preorder; the four operators are mutually consistent (by construction)."""
from lib import *

EXPLANATION = (
    "Decided by construction: one operator-independent pair of integers is selected and handed to the standard <,<=,>,>= table, and that pair is always the first differing position of the zero-padded sequences (revision last). "
    "CMP-1 `op` is used only as the operator argument of dewey_test (no branch, no other argument depends on it); CMP-2 operator table GE/GT/LE/LT -> >=,>,<=,< on (lhs, rhs) in that order; "
    "CMP-3 provenance: left operand from lhs or 0, right operand from rhs or 0, never both constants; CMP-4 every component comparison is guarded by inequality of the same two terms and indexed by a range 0..min(len l,len r), len l..len r (left = 0) or len r..len l (right = 0) on the matching length branch; "
    "CMP-5 the revision comparison is outside every loop and reached only after every loop on the path was exhausted; every return of dewey_cmp is a dewey_test result; "
    "OPS-TOKENS each operator token selects its own operator in Dewey::new's scan (C02's D1-SCAN verdicts, shared); D conjunction: Dewey::matches returns true only after all bounds passed, false as soon as one fails; recognised spellings of the same discipline: three index loops on the length branch, one lock-step loop over 0..max(len) reading absent positions as 0 (get(i).unwrap_or(0)), or zip for the common prefix plus the first non-zero of each tail version[min(len)..] (searched only after the prefix is exhausted)")
NOT_DECIDED = [
    "that Range iteration visits every position (std) and that tokenising is total (C17)",
    "a rewrite that branches on `op` while preserving behaviour would violate CMP-1 (documented false-alarm source)",
]
CONFIG_SENSITIVE = False
DESUGAR = True
SPLICE_LOOP_HELPERS = ("dewey::Dewey::matches",)    # the bounds loop of Dewey::matches moved into a helper is judged in place (dewey_cmp keeps its helper forms)

CMP = "dewey::dewey_cmp"
TEST = "dewey::dewey_test"
OP = "dewey::DeweyOp"


_CTX = []
# which parameters hold the two version vectors in the function being judged: dewey_cmp(lhs: &DeweyVersion, op, rhs: &DeweyVersion) reads
# lhs.version / rhs.version; a helper that selects the deciding pair takes the two slices themselves
MODE = {"l": 1, "r": 3, "field": "version"}


def _is_ver(s, which):
    """s is the version vector of the given side ('l' / 'r')"""
    p = MODE[which]
    if MODE["field"] is None:
        return s == ("param", p) or s == ("deref", ("param", p))
    return isinstance(s, tuple) and s and s[0] == "field" and s[3] == MODE["field"] and strip_refs(s[1]) in (("param", p), ("deref", ("param", p)))


def side(t):
    """'l' / 'r' / 'zero' / 'mixed' / 'other' : which version a comparison operand comes from"""
    t = strip_refs(t)
    zi = zip_item(t)
    if zi is not None:
        return "l" if zi[2] == 1 else "r"
    tf = tail_find(_CTX[0], t) if _CTX else None
    if tf is not None:
        return "l" if tf[1] == 1 else "r"
    zf = zip_find_item(_CTX[0], t) if _CTX else None
    if zf is not None:
        return "l" if zf[2] == 1 else "r"
    for _ in range(6):
        # v.get(i)[.copied()] taken as Some: the element, like v[i]
        if isinstance(t, tuple) and t and t[0] == "field" and t[2] == 0 and isinstance(t[1], tuple) and t[1][0] == "downcast" and t[1][2] == "Some" \
                and is_call(strip_refs(t[1][1]), "Option::copied", "Option::cloned", "[T]>::get", "Vec::get"):
            t = strip_refs(t[1][1])
        elif is_call(t, "Option::copied", "Option::cloned"):
            t = strip_refs(call_args(t)[0])
        elif isinstance(t, tuple) and t and t[0] == "deref":
            t = strip_refs(t[1])
        else:
            break
    if is_index_call(t) or is_call(t, "[T]>::get", "Vec::get"):
        t = call_args(t)[0]   # the collection that is indexed, not the index
    l = mentions(t, lambda s: s == ("param", MODE["l"]))
    r = mentions(t, lambda s: s == ("param", MODE["r"]))
    if l and r:
        return "mixed"
    if l:
        return "l"
    if r:
        return "r"
    if const_int(t) == 0:
        return "zero"
    return "other"


def is_rev(t):
    return mentions(t, lambda s: s[0] == "field" and s[3] == "pkgrevision")


def vlen(t, p):
    """is t == len(&param_p.version)?"""
    t = strip_refs(t)
    which = "l" if p == 1 else "r"
    return is_call(t, "Vec::len", "[T]>::len") and (mentions(call_args(t)[0], lambda s: _is_ver(s, which)) or _is_ver(strip_refs(call_args(t)[0]), which))


def is_min_len(t):
    t = strip_refs(t)
    if is_call(t, "cmp::min", "Ord::min"):
        a, b = call_args(t)[:2]
        return (vlen(a, 1) and vlen(b, 3)) or (vlen(a, 3) and vlen(b, 1))
    return False


def is_max_len(t):
    t = strip_refs(t)
    if is_call(t, "cmp::max", "Ord::max"):
        a, b = call_args(t)[:2]
        return (vlen(a, 1) and vlen(b, 3)) or (vlen(a, 3) and vlen(b, 1))
    return False


def padded_elem(t, param, p):
    """the index i if t is `version[i], or 0 beyond the end` of the given side: the Some payload of param.version.get(i)[.copied()], or the
    constant 0 on a path where that get(i) was None"""
    def get_of(x):
        x = strip_refs(x)
        if is_call(x, "Option::copied", "Option::cloned"):
            x = strip_refs(call_args(x)[0])
        which = "l" if param == 1 else "r"
        if is_call(x, "[T]>::get", "Vec::get") and len(call_args(x)) == 2 and \
                (mentions(call_args(x)[0], lambda s: _is_ver(s, which)) or _is_ver(strip_refs(call_args(x)[0]), which)):
            return call_args(x)[1]
        return None
    t0 = strip_refs(t)
    while isinstance(t0, tuple) and t0 and t0[0] == "deref":
        t0 = strip_refs(t0[1])
    if const_int(t0) == 0:
        its = [get_of(c.term[1]) for c in p.conds() if c.term[0] == "discr" and c.fact == ("eq", 0) and get_of(c.term[1]) is not None]
        return its[-1] if its else None
    if isinstance(t0, tuple) and t0 and t0[0] == "field" and t0[2] == 0 and isinstance(t0[1], tuple) and t0[1][0] == "downcast" and t0[1][2] == "Some":
        return get_of(t0[1][1])
    return None


def _version_of(t):
    """1 / 3 if t is (a plain view of) param.version for the lhs / rhs parameter, else None"""
    from lib import _iter_source
    t = _iter_source(t)
    if isinstance(t, tuple) and _is_ver(t, "l"):
        return 1
    if isinstance(t, tuple) and _is_ver(t, "r"):
        return 3
    return None


def zip_item(t):
    """(next-call, k, param) if t is component k of the pair yielded by lhs.version.iter().zip(&rhs.version) (either order of the two sides)"""
    t = strip_refs(t)
    while isinstance(t, tuple) and t and t[0] == "deref":
        t = strip_refs(t[1])
    if not (isinstance(t, tuple) and t and t[0] == "field" and t[2] in (0, 1) and isinstance(t[1], tuple) and t[1][0] == "field" and t[1][2] == 0
            and isinstance(t[1][1], tuple) and t[1][1][0] == "downcast" and t[1][1][2] == "Some" and is_call(strip_refs(t[1][1][1]), "Zip<A, B> as std::iter::Iterator>::next")):
        return None
    nx = strip_refs(t[1][1][1])
    z = [x for x in subterms(nx) if is_call(x, "Iterator::zip")]
    if len(z) != 1:
        return None
    srcs = [_version_of(a) for a in call_args(z[0])[:2]]
    if None in srcs or srcs[0] == srcs[1]:
        return None
    # nothing between zip() and next() but into_iter / the loop variable
    it = strip_refs(call_args(nx)[0])
    for _ in range(6):
        if isinstance(it, tuple) and it and it[0] == "loc" and len(it) > 2:
            it = strip_refs(it[2])
        elif isinstance(it, tuple) and it and it[0] == "havoc" and len(it) > 3:
            it = strip_refs(it[3])
        elif is_call(it, "IntoIterator>::into_iter"):
            it = strip_refs(call_args(it)[0])
        else:
            break
    if it != z[0]:
        return None
    return nx, t[2], srcs[t[2]]


def zip_find_call(ctx, f):
    """True if f is  lhs.version.iter().zip(rhs.version.iter()).find(|(l, r)| l != r)  (either order of the sides): the first pair of
    the common prefix whose components differ"""
    if not (is_call(f, "Iterator>::find", "iter::Iterator::find") and len(call_args(f)) == 2):
        return None
    it = strip_refs(call_args(f)[0])
    while isinstance(it, tuple) and it and it[0] == "loc" and len(it) > 2:
        it = strip_refs(it[2])
    if not (is_call(it, "Iterator::zip") and len(call_args(it)) == 2):
        return None
    srcs = [_version_of(a) for a in call_args(it)[:2]]
    if None in srcs or srcs[0] == srcs[1]:
        return None
    clo = strip_refs(call_args(f)[1])
    if not (isinstance(clo, tuple) and clo and clo[0] == "agg" and clo[1] == "closure"):
        return None
    rets = [p.end[1] for p in ret_paths(ctx.paths(clo[2]) or [])]
    if len(rets) != 1:
        return None
    r = rets[0]
    if isinstance(r, tuple) and r and r[0] == "binop" and r[1] == "Ne":
        a, b = deval(r[2]), deval(r[3])
    elif eq_call(r) is not None and eq_call(r)[0]:
        a, b = deval(eq_call(r)[1]), deval(eq_call(r)[2])
    else:
        return None

    def comp(x):
        # component k of the pair the closure is handed (by reference)
        if isinstance(x, tuple) and len(x) > 2 and x[0] == "field" and x[2] in (0, 1) and deval(x[1]) == ("param", 2):
            return x[2]
        return None
    if {comp(a), comp(b)} != {0, 1}:
        return None
    return srcs


def _pair_differs_closure(ctx, clo):
    """the closure is |(l, r)| l != r on the two components of the pair it is handed"""
    if not (isinstance(clo, tuple) and clo and clo[0] == "agg" and clo[1] == "closure"):
        return False
    rets = [p.end[1] for p in ret_paths(ctx.paths(clo[2]) or [])]
    if len(rets) != 1:
        return False
    r = rets[0]
    if isinstance(r, tuple) and r and r[0] == "binop" and r[1] == "Ne":
        a, b = deval(r[2]), deval(r[3])
    elif eq_call(r) is not None and eq_call(r)[0]:
        a, b = deval(eq_call(r)[1]), deval(eq_call(r)[2])
    else:
        return False

    def comp(x):
        if isinstance(x, tuple) and len(x) > 2 and x[0] == "field" and x[2] in (0, 1) and deval(x[1]) == ("param", 2):
            return x[2]
        return None
    return {comp(a), comp(b)} == {0, 1}


def lockstep_find_call(ctx, f):
    """[param of component 0, param of component 1] if f is
         (0..max(len l, len r)).map(|i| (l.version.get(i) or 0, r.version.get(i) or 0)).find(|(a, b)| a != b)
       the first position, padding the shorter side with 0, at which the two versions differ"""
    if not (is_call(f, "Iterator>::find", "iter::Iterator::find") and len(call_args(f)) == 2):
        return None
    it = strip_refs(call_args(f)[0])
    while isinstance(it, tuple) and it and it[0] == "loc" and len(it) > 2:
        it = strip_refs(it[2])
    if not (is_call(it, "Iterator::map") and len(call_args(it)) == 2):
        return None
    rg = agg_variant(strip_refs(call_args(it)[0]))
    if not (rg and rg[1] == "Range" and const_int(rg[2][0]) == 0 and is_max_len(rg[2][1])):
        return None
    clo = strip_refs(call_args(it)[1])
    if not (isinstance(clo, tuple) and clo[:2] == ("agg", "closure")):
        return None
    caps = clo[4]
    rps = ret_paths(ctx.paths(clo[2]) or [])
    if not rps:
        return None

    def side_of_get(g):
        """param (1/3) if g is [copied](V.get(i)) with i the closure's own argument and V the version vector of a captured dewey_cmp parameter"""
        g = strip_refs(g)
        if is_call(g, "Option::copied", "Option::cloned", "copied", "cloned") and len(call_args(g)) == 1:
            g = strip_refs(call_args(g)[0])
        if not (is_call(g, "[T]>::get", "Vec::get") and len(call_args(g)) == 2 and strip_refs(call_args(g)[1]) == ("param", 2)):
            return None
        v = strip_refs(call_args(g)[0])
        if not (isinstance(v, tuple) and v[0] == "field" and v[3] == "version"):
            return None
        up = v[1]
        while isinstance(up, tuple) and up and up[0] in ("deref", "ref"):
            up = up[1]
        if not (isinstance(up, tuple) and up[0] == "field" and isinstance(up[2], int) and deval(up[1]) == ("param", 1) and up[2] < len(caps)):
            return None
        c_ = deval(caps[up[2]])
        return c_[1] if c_ in (("param", 1), ("param", 3)) else None
    slots = [set(), set()]
    seen = set()
    for p in rps:
        r = strip_refs(p.end[1])
        if not (isinstance(r, tuple) and r[:2] == ("agg", "tuple") and len(r[4]) == 2):
            return None
        row = []
        for k, x in enumerate(r[4]):
            x0 = strip_refs(x)
            if const_int(x0) == 0:
                row.append(False)
                continue
            if not (isinstance(x0, tuple) and x0[0] == "field" and x0[2] == 0 and isinstance(x0[1], tuple) and x0[1][0] == "downcast" and x0[1][2] == "Some"):
                return None
            sd = side_of_get(x0[1][1])
            if sd is None or not any(c.term == ("discr", x0[1][1]) and c.fact == ("eq", 1) for c in p.conds()):
                return None
            slots[k].add(sd)
            row.append(True)
        # a 0 stands for an absent position: the same lookup came back None on this path
        nones = [side_of_get(c.term[1]) for c in p.conds() if c.term[0] == "discr" and (c.fact == ("eq", 0) or (c.fact[0] == "ne" and 1 in c.fact[1]))]
        row_sides = []
        seen.add(tuple(row))
        if any(not present for present in row) and len([n_ for n_ in nones if n_ is not None]) != row.count(False):
            return None
        p_nones = [n_ for n_ in nones if n_ is not None]
        p._lock_nones = p_nones
    if not (len(slots[0]) == 1 and len(slots[1]) == 1 and slots[0] != slots[1]):
        return None
    srcs = [next(iter(slots[0])), next(iter(slots[1]))]
    # on a path where slot k is the 0 padding, the lookup that came back None is slot k's own
    for p in rps:
        r = strip_refs(p.end[1])
        for k, x in enumerate(r[4]):
            if const_int(strip_refs(x)) == 0 and srcs[k] not in p._lock_nones:
                return None
    if seen != {(True, True), (True, False), (False, True), (False, False)} and seen != {(True, True), (True, False), (False, True)}:
        return None
    if not _pair_differs_closure(ctx, strip_refs(call_args(f)[1])):
        return None
    return srcs


def zip_find_item(ctx, t):
    """(find-call, k, param) if t is component k of the pair found by zip_find_call"""
    t = strip_refs(t)
    while isinstance(t, tuple) and t and t[0] == "deref":
        t = strip_refs(t[1])
    if not (isinstance(t, tuple) and t and t[0] == "field" and t[2] in (0, 1) and isinstance(t[1], tuple) and t[1][0] == "field" and t[1][2] == 0
            and isinstance(t[1][1], tuple) and t[1][1][0] == "downcast" and t[1][1][2] == "Some"):
        return None
    f = strip_refs(t[1][1][1])
    srcs = zip_find_call(ctx, f)
    if srcs is None:
        srcs = lockstep_find_call(ctx, f)
        if srcs is not None:
            LOCKSTEP.add(f)
    if srcs is None:
        return None
    return f, t[2], srcs[t[2]]


LOCKSTEP = set()


def prefix_searches(ctx, p):
    """the outcomes (found?) of the common-prefix searches zip(..).find(differ) -- or of the padded lock-step search over 0..max(len) -- on the path"""
    out = []
    for c in p.conds():
        if c.term[0] == "discr" and (zip_find_call(ctx, strip_refs(c.term[1])) is not None or lockstep_find_call(ctx, strip_refs(c.term[1])) is not None):
            out.append(c.fact == ("eq", 1))
    return out


TAIL_FROM_OTHER = set()


def tail_find(ctx, t):
    """(find-call, param) if t is the first non-zero component of param.version[min(len l, len r)..]: the Some payload of
    .iter().find(|x| x != 0) over that tail"""
    t = strip_refs(t)
    while isinstance(t, tuple) and t and t[0] == "deref":
        t = strip_refs(t[1])
    if not (isinstance(t, tuple) and t and t[0] == "field" and t[2] == 0 and isinstance(t[1], tuple) and t[1][0] == "downcast" and t[1][2] == "Some"):
        return None
    f = strip_refs(t[1][1])
    return (f, tail_find_call(ctx, f)) if tail_find_call(ctx, f) is not None else None


def tail_find_call(ctx, f):
    """param if f is  param.version[min(len l, len r)..].iter().find(|x| x != 0)"""
    if not (is_call(f, "Iterator>::find", "iter::Iterator::find") and len(call_args(f)) == 2):
        return None
    it = strip_refs(call_args(f)[0])
    while isinstance(it, tuple) and it and it[0] == "loc" and len(it) > 2:
        it = strip_refs(it[2])
    if is_call(it, "Iterator::copied", "Iterator::cloned") and len(call_args(it)) == 1:
        # .iter().copied(): the same elements by value
        it = strip_refs(call_args(it)[0])
        while isinstance(it, tuple) and it and it[0] == "loc" and len(it) > 2:
            it = strip_refs(it[2])
    skipped = None
    if is_call(it, "Iterator::skip") and len(call_args(it)) == 2:
        # version.iter().skip(n): the tail from min(n, len) on (skipping past the end leaves nothing, it does not fail)
        skipped = call_args(it)[1]
        it = strip_refs(call_args(it)[0])
        while isinstance(it, tuple) and it and it[0] == "loc" and len(it) > 2:
            it = strip_refs(it[2])
    if not is_call(it, "[T]>::iter", "IntoIterator>::into_iter"):
        return None
    sl = strip_refs(call_args(it)[0])
    if skipped is not None:
        side_ = _version_of(sl)
        if side_ is None or not (is_min_len(skipped) or vlen(skipped, 4 - side_)):
            return None
        clo = strip_refs(call_args(f)[1])
        return side_ if _nonzero_closure(ctx, clo) else None
    if not (is_index_call(sl) and len(call_args(sl)) == 2):
        return None
    side_ = _version_of(call_args(sl)[0])
    rg = canon_range(call_args(sl)[0], call_args(sl)[1])
    # the tail starts where the common prefix ends: at min(len l, len r), or at the other side's length (that is the minimum on the length
    # branch where this side is the longer one -- the branch is checked where the form is judged, TAIL_FROM_OTHER remembers which were seen)
    other_len = side_ is not None and rg is not None and vlen(rg[0], 4 - side_)
    if side_ is None or rg is None or not (is_min_len(rg[0]) or other_len) or not (rg[1] == LEN or vlen(rg[1], side_)):
        return None
    if other_len:
        TAIL_FROM_OTHER.add(f)
    clo = strip_refs(call_args(f)[1])
    return side_ if _nonzero_closure(ctx, clo) else None


def _nonzero_closure(ctx, clo):
    """the closure is |x| x != 0 (either operand order, through references)"""
    if not (isinstance(clo, tuple) and clo and clo[0] == "agg" and clo[1] == "closure"):
        return False
    rets = [p.end[1] for p in ret_paths(ctx.paths(clo[2]) or [])]
    if len(rets) != 1:
        return False
    r = rets[0]

    def arg(x):
        x = strip_refs(x)
        while isinstance(x, tuple) and x and x[0] == "deref":
            x = strip_refs(x[1])
        return x == ("param", 2)
    return isinstance(r, tuple) and r and r[0] == "binop" and r[1] == "Ne" and ((arg(r[2]) and const_int(r[3]) == 0) or (arg(r[3]) and const_int(r[2]) == 0))


class _Site:
    """a place where the deciding pair of integers is produced: a dewey_test(a, op, b) call, or `return Some((a, b))` of a pair selector"""
    kind = "call"

    def __init__(self, bb, args):
        self.bb, self.args = bb, args


def selector_helper(ctx, paths):
    """dewey_cmp may leave the search for the deciding components to a helper `fn(&[i64], &[i64]) -> Option<(i64, i64)>` and test the pair it
    returns, or the revisions when it returns None.  Returns (helper key, its paths) when dewey_cmp is exactly
        match helper(&lhs.version, &rhs.version) { Some((l, r)) => dewey_test(l, op, r), None => dewey_test(lhs.pkgrevision, op, rhs.pkgrevision) }
    in any spelling (unwrap_or, map_or, if let ..), else None."""
    fx = ctx.fx
    rets = ret_paths(paths)
    hs = set()
    for p in rets:
        for c in p.conds():
            if c.term[0] == "discr" and is_call(strip_refs(c.term[1])) and fx.fn(strip_refs(c.term[1])[1]) is not None and strip_refs(c.term[1])[1] != TEST:
                hs.add(strip_refs(c.term[1]))
    if len(hs) != 1 or ctx.body(CMP).loops:
        return None
    H = next(iter(hs))
    a = call_args(H)
    if len(a) != 2 or _version_of(a[0]) != 1 or _version_of(a[1]) != 3:
        return None
    pay = ("field", ("downcast", H, "Some"), 0, "0")
    ok = bool(rets)
    for p in rets:
        f = [c.fact for c in p.conds() if c.term == ("discr", H)]
        t = strip_refs(p.end[1])
        if not (f and is_call(t, TEST) and len(call_args(t)) == 3 and strip_refs(call_args(t)[1]) == ("param", 2)):
            return None
        x, y = strip_refs(call_args(t)[0]), strip_refs(call_args(t)[2])
        if f[-1] == ("eq", 1):
            ok = ok and isinstance(x, tuple) and isinstance(y, tuple) and x[0] == "field" and y[0] == "field" and x[2] == 0 and y[2] == 1 and strip_refs(x[1])[:3] == pay[:3] and strip_refs(y[1])[:3] == pay[:3]
        else:
            ok = ok and is_rev(x) and is_rev(y) and side_param(x) == 1 and side_param(y) == 3
    if not ok:
        return None
    return H[1], ctx.paths(H[1]) or []


def side_param(t):
    l = mentions(t, lambda s: s == ("param", 1))
    r = mentions(t, lambda s: s == ("param", 3))
    return 1 if l and not r else (3 if r and not l else None)


def run(ctx):
    fx = ctx.fx
    _CTX[:] = [ctx]
    MODE.update(l=1, r=3, field="version")
    # ---- CMP-2
    paths = ctx.paths(TEST)
    body = ctx.body(TEST)
    if paths:
        want = {"GE": "Ge", "GT": "Gt", "LE": "Le", "LT": "Lt"}
        got = {}
        for p in ret_paths(paths):
            v = self_discr_variant(fx, p, OP, lambda t: strip_refs(t) == ("param", 2))
            r = p.end[1]
            if isinstance(v, str) and isinstance(r, tuple) and r[0] == "binop":
                got[v] = (r[1], r[2], r[3])
        # the same table written through the three-way comparison: matches!((op, lhs.cmp(&rhs)), (GE, Greater | Equal) | (GT, Greater) | ..)
        CMPV = {255: "Less", 0: "Equal", 1: "Greater", -1: "Less"}
        TRUE_ON = {"Ge": {"Greater", "Equal"}, "Gt": {"Greater"}, "Le": {"Less", "Equal"}, "Lt": {"Less"}}
        if not got:
            tbl = {}
            okc = True
            for p in ret_paths(paths):
                v = self_discr_variant(fx, p, OP, lambda t: strip_refs(t) == ("param", 2))
                cc = [c for c in p.conds() if c.term[0] == "discr" and is_call(strip_refs(c.term[1]), "Ord>::cmp", "::cmp")]
                if not isinstance(v, str):
                    continue
                if not cc or const_of(p.end[1]) not in (True, False):
                    okc = False
                    continue
                ca = call_args(strip_refs(cc[-1].term[1]))
                okc = okc and strip_refs(ca[0]) == ("param", 1) and strip_refs(ca[1]) == ("param", 3)
                f = cc[-1].fact
                ords = {CMPV.get(f[1])} if f[0] == "eq" else {"Less", "Equal", "Greater"} - {CMPV.get(x) for x in f[1]}
                for o in ords:
                    tbl.setdefault(v, {})[o] = const_of(p.end[1])
            if okc:
                for v, tb in tbl.items():
                    if set(tb) == {"Less", "Equal", "Greater"}:
                        on = {o for o, val in tb.items() if val}
                        for opn, s_ in TRUE_ON.items():
                            if on == s_:
                                got[v] = (opn, ("param", 1), ("param", 3))
        for v, op in want.items():
            g = got.get(v)
            ctx.check(g is not None and g[0] == op and g[1] == ("param", 1) and g[2] == ("param", 3), "CMP-2", TEST, "op=%s" % v, "%s -> lhs %s rhs" % (v, op),
                      "operator %s evaluates %s; expected %s(lhs, rhs)" % (v, (g[0], term_str(g[1]), term_str(g[2])) if g else None, op), fn_span(body))
        ctx.check(enum_variants(fx, OP) and sorted(enum_variants(fx, OP)) == sorted(want), "CMP-2", OP, "variants", "four operators", "DeweyOp variants changed: %s" % enum_variants(fx, OP), nontrivial=False)

    # ---- dewey_cmp
    paths = ctx.paths(CMP)
    body = ctx.body(CMP)
    if not paths:
        return
    # CMP-1
    bad = []
    for p in paths:
        for c in p.conds():
            if mentions(c.term, lambda s: s == ("param", 2)):
                bad.append(("branch", c.bb))
        for e in p.events:
            if e.kind == "call":
                for i, a in enumerate(e.args):
                    if mentions(a, lambda s: s == ("param", 2)) and not (e.path == TEST and i == 1):
                        bad.append(("arg of %s" % e.path, e.bb))
    ctx.check(not bad, "CMP-1", CMP, "op-independence", "`op` only reaches dewey_test's operator argument",
              "the comparison depends on `op` outside dewey_test (%s): the selected pair of integers may differ per operator, which breaks duality/trichotomy" % sorted(set(b[0] for b in bad)),
              body.span_of(bad[0][1]) if bad else fn_span(body))
    # returns
    rets = ret_paths(paths)
    okr = bool(rets) and all(is_call(p.end[1], TEST) for p in rets)
    ctx.check(okr, "CMP-RET", CMP, "returns-dewey-test", "every return is a dewey_test verdict",
              "dewey_cmp has a return that is not the result of dewey_test (a constant or other expression): operator consistency is not by construction", fn_span(body))
    # call sites
    # call sites, one per (place in the code, which sides the two operands come from): a zero-padded lock-step loop has a single place
    # whose operands are an element or the 0 padding depending on the path
    helper = selector_helper(ctx, paths)
    if helper is not None:
        HK, hpaths = helper
        body = ctx.body(HK)
        MODE.update(l=1, r=2, field=None)
        sites = {}
        for p in ret_paths(hpaths):
            sm = unwrap_some(p.end[1])
            tv = strip_refs(sm) if sm is not None else None
            if isinstance(tv, tuple) and tv[:2] == ("agg", "tuple") and len(tv[4]) == 2:
                e = _Site(p.blocks[-1] if p.blocks else 0, (tv[4][0], ("param", 2), tv[4][1]))
                sites.setdefault((e.bb, side(e.args[0]), side(e.args[2])), []).append((e, p))
        # the helper answers None only when every component tied (all its loops exhausted), Some(pair) otherwise
        nones = [p for p in ret_paths(hpaths) if is_none(p.end[1])]
        okn = bool(nones) and all(all(c.fact == ("eq", 0) for c in p.conds() if c.term[0] == "discr" and is_call(strip_refs(c.term[1]), "::next")) and
                                  any(c.term[0] == "discr" and is_call(strip_refs(c.term[1]), "::next") for c in p.conds()) for p in nones)
        other = [p for p in ret_paths(hpaths) if not is_none(p.end[1]) and unwrap_some(p.end[1]) is None]
        ctx.check(okn and not other, "CMP-5", HK, "none-only-when-all-tied", "the pair selector answers None only after every component tied",
                  "%s can answer None before all components were compared (or returns something other than Some(pair) / None)" % HK, fn_span(body))
    else:
        sites = {}
        for p in paths:
            for e in p.events:
                if e.kind == "call" and e.path == TEST:
                    sites.setdefault((e.bb, side(e.args[0]), side(e.args[2])), []).append((e, p))
    # a padded lock-step search (0..max(len), absent positions read as 0 inside the search) is one place that stands for all three regions
    lock_sites = [k for k, lst in sites.items() if (lambda zf: zf is not None and zf[0] in LOCKSTEP)(zip_find_item(ctx, lst[0][0].args[0]))]
    ctx.floor("CMP-3", CMP, "dewey_test call sites", len(sites) + (1 if helper is not None else 0) + 2 * len(lock_sites), 4)
    last_bb = max(k[0] for k in sites) if sites else None
    for (bb, _sa, _sb), lst in sorted(sites.items()):
        e0 = lst[0][0]
        a, b = e0.args[0], e0.args[2]
        sa, sb = side(a), side(b)
        kind = "revision" if is_rev(a) or is_rev(b) else "component"
        inst = "%s:%s-vs-%s" % (kind, sa, sb)
        ok3 = sa in ("l", "zero") and sb in ("r", "zero") and not (sa == "zero" and sb == "zero") and strip_refs(e0.args[1]) == ("param", 2)
        ctx.check(ok3, "CMP-3", CMP, inst, "left from lhs/0, right from rhs/0",
                  "dewey_test(%s, op, %s): the left operand must come from lhs (or be the 0 padding) and the right from rhs (or 0): swapped operands break symmetry" % (term_str(a)[:80], term_str(b)[:80]), body.span_of(bb))
        if kind == "revision":
            ok5 = not body.in_any_loop(bb) and is_rev(a) and is_rev(b) and sa == "l" and sb == "r"
            for (e, p) in lst:
                exhausted = 0
                for c in p.conds():
                    if c.term[0] == "discr" and is_call(c.term[1], "::next"):
                        ok5 = ok5 and c.fact == ("eq", 0)
                        exhausted += 1
                br = [c for c in p.conds() if c.term[0] == "discr" and is_call(c.term[1], "::cmp")]
                unequal_len = bool(br) and br[-1].fact in (("eq", 255), ("eq", 1))
                # searches for a non-zero component in a tail (`.find(|x| x != 0)`): all came back empty, and if that is how the tails are examined, both were
                # the common prefix searched with zip(..).find(differ): nothing was found
                for found_ in prefix_searches(ctx, p):
                    ok5 = ok5 and not found_
                    exhausted += 1
                finds = [c for c in p.conds() if c.term[0] == "discr" and is_call(strip_refs(c.term[1]), "Iterator>::find", "iter::Iterator::find")
                         and zip_find_call(ctx, strip_refs(c.term[1])) is None and lockstep_find_call(ctx, strip_refs(c.term[1])) is None]
                none = [tail_find_call(ctx, strip_refs(c.term[1])) for c in finds if c.fact == ("eq", 0) or (c.fact[0] == "ne" and 1 in c.fact[1])]
                branchwise = bool(finds) and all(strip_refs(c.term[1]) in TAIL_FROM_OTHER for c in finds)
                # common-prefix loop, plus the zero-padding loop (or the search of the longer side's tail) when the lengths differ
                ok5 = ok5 and exhausted + len(none) >= (2 if unequal_len else 1) and exhausted >= 1
                if finds and branchwise:
                    # the tail is cut at the other side's length inside the length branch: exactly the longer side's tail was searched
                    ok5 = ok5 and len(none) == len(finds) and unequal_len and none == [3 if br[-1].fact == ("eq", 255) else 1] \
                        and vlen(call_args(br[-1].term[1])[0], 1) and vlen(call_args(br[-1].term[1])[1], 3)
                elif finds:
                    # every search on the path came back empty, and every tail that can be non-empty was searched: both, unless the path is
                    # inside a branch of len(l).cmp(len(r)) that leaves one side (or both) without a tail
                    needed = {1, 3}
                    if br and vlen(call_args(br[-1].term[1])[0], 1) and vlen(call_args(br[-1].term[1])[1], 3) and br[-1].fact[0] == "eq":
                        needed = {255: {3}, 1: {1}, 0: set()}.get(br[-1].fact[1], needed)
                    ok5 = ok5 and len(none) == len(finds) and None not in none and set(none) >= needed
            ctx.check(ok5, "CMP-5", CMP, inst + "@" + ("tail" if bb == last_bb else "branch"), "revision compared last, after all components tied",
                      "the revision comparison is reachable before every component loop on its path was exhausted (or is inside a loop)", body.span_of(bb))
            continue
        # CMP-4 (on every path through the site)
        verdicts = []
        for (e, p) in lst:
            a, b = e.args[0], e.args[2]
            guard = None
            for c in p.conds():
                iq = inequality_fact(c)       # a != b on values or through references
                if iq is not None and {iq[0], iq[1]} == {deval(a), deval(b)}:
                    guard = iq[2]
            okg = guard is True
            # loop range
            nx = [c for c in p.conds() if c.term[0] == "discr" and is_call(c.term[1], "::next") and c.fact == ("eq", 1)]
            okrng = False
            rdesc = "?"
            if nx:
                it = call_args(nx[-1].term[1])[0]
                rg = [s for s in subterms(it) if s[0] == "agg" and s[1] == "adt" and s[3] == "Range"]
                if rg:
                    lo, hi = rg[0][4]
                    if sa == "l" and sb == "r":
                        okrng = const_int(lo) == 0 and is_min_len(hi)
                        rdesc = "0..min(len l, len r)"
                    elif sa == "zero":
                        okrng = vlen(lo, 1) and vlen(hi, 3)
                        rdesc = "len l..len r"
                    elif sb == "zero":
                        okrng = vlen(lo, 3) and vlen(hi, 1)
                        rdesc = "len r..len l"
                    # both operands are indexed by the loop item
                    item = nx[-1].term[1]
                    for opd in (a, b):
                        if const_int(opd) == 0:
                            continue
                        okrng = okrng and mentions(opd, lambda s: is_index_call(s) and mentions(call_args(s)[1], lambda u: u == item))
                    # the zero-padded lock-step spelling: one loop over 0..max(len l, len r) comparing `l.get(i) or 0` with `r.get(i) or 0`
                    if not okrng and const_int(lo) == 0 and is_max_len(hi):
                        ia, ib = padded_elem(a, 1, p), padded_elem(b, 3, p)
                        payload = ("field", ("downcast", item, "Some"), 0, "0")
                        if ia is not None and ia == ib and strip_refs(ia) == payload:
                            okrng = True
                            rdesc = "0..max(len l, len r), absent positions read as 0"
            # the iterator spellings: the common prefix as lhs.version.iter().zip(&rhs.version), a tail as the first non-zero component of
            # version[min(len l, len r)..] (searched only once the prefix is exhausted)
            za, zb = zip_item(a), zip_item(b)
            if za is not None and zb is not None and za[0] == zb[0] and za[1] != zb[1]:
                okrng = any(c.term == ("discr", za[0]) and c.fact == ("eq", 1) for c in p.conds())
                rdesc = "the pairs of lhs.version zipped with rhs.version"
            fa, fb = zip_find_item(ctx, a), zip_find_item(ctx, b)
            if fa is not None and fb is not None and fa[0] == fb[0] and fa[1] != fb[1]:
                # found by `l != r` on the pair's own components: the guard is the search predicate
                okg = okrng = any(c.term == ("discr", fa[0]) and c.fact == ("eq", 1) for c in p.conds())
                rdesc = "the first differing pair of lhs.version zipped with rhs.version" if fa[0] not in LOCKSTEP else "the first differing pair over 0..max(len l, len r), absent positions read as 0"
            tf = tail_find(ctx, b if sa == "zero" else a) if (sa == "zero") != (sb == "zero") else None
            iter_tail = False
            if tf is not None:
                found = any(c.term == ("discr", tf[0]) and c.fact == ("eq", 1) for c in p.conds())
                nexts = [c for c in p.conds() if c.term[0] == "discr" and is_call(strip_refs(c.term[1]), "::next")]
                ps_ = prefix_searches(ctx, p)
                prefix_done = bool(nexts or ps_) and all(c.fact == ("eq", 0) for c in nexts) and not any(ps_)
                okg = found          # found by `x != 0`: the guard `x != 0` is the search predicate
                okrng = prefix_done and tf[1] == (3 if sa == "zero" else 1)
                rdesc = "first non-zero of version[min(len l, len r)..]"
                iter_tail = tf[0] not in TAIL_FROM_OTHER     # a tail cut at the other side's length is right only on the matching length branch (below)
            # length branch for the padding loops
            okbr = True
            if (sa == "zero" or sb == "zero") and not (okrng and rdesc.startswith("0..max")) and not iter_tail:
                br = [c for c in p.conds() if c.term[0] == "discr" and is_call(c.term[1], "::cmp")]
                want = 255 if sa == "zero" else 1
                okbr = bool(br) and br[-1].fact == ("eq", want) and vlen(call_args(br[-1].term[1])[0], 1) and vlen(call_args(br[-1].term[1])[1], 3)
            verdicts.append((okg and okrng and okbr, okg, rdesc, okrng, okbr))
        worst = sorted(verdicts, key=lambda v: v[0])[0]
        ctx.check(worst[0], "CMP-4", CMP, inst, "guarded by a != b over %s (%d path(s))" % (worst[2], len(verdicts)),
                  "component comparison %s vs %s: guard on the same two terms=%s, index range %s ok=%s, length branch ok=%s" % (sa, sb, worst[1], worst[2], worst[3], worst[4]), body.span_of(bb))
    # the three loops exist (prefix, lhs-shorter, lhs-longer)
    kinds = set()
    for (bb, _sa, _sb), lst in sites.items():
        e0 = lst[0][0]
        if not (is_rev(e0.args[0]) or is_rev(e0.args[2])):
            kinds.add((side(e0.args[0]), side(e0.args[2])))
    if lock_sites and kinds == {("l", "r")}:
        kinds = {("l", "r"), ("zero", "r"), ("l", "zero")}      # the padding rows were checked where the search was recognised (lockstep_find_call)
    ctx.check(kinds == {("l", "r"), ("zero", "r"), ("l", "zero")}, "CMP-4", CMP, "three-regions", "common prefix, lhs shorter, lhs longer",
              "component comparisons cover %s; expected common prefix (l,r) and both zero-padding regions" % sorted(kinds), fn_span(body))

    MODE.update(l=1, r=3, field="version")
    # ---- conjunction in Dewey::matches
    DM = "dewey::Dewey::matches"
    paths = ctx.paths(DM)
    body = ctx.body(DM)
    if paths:
        # matches() = (name splits and base agrees) and FOR ALL stored bounds: dewey_cmp(version, bound.op, bound.version); the quantifier is
        # recognised in either spelling (for-loop with `return false`, or `.iter().all(..)`) and checked on its normal form
        q = quantifier(ctx, DM, paths)
        ctx.check(q is not None and q["kind"] == "all" and not q["neg"], "D-CONJUNCTION", DM, "for-all-bounds", "true iff every bound holds (%s form)" % (q["form"] if q else "?"),
                  "Dewey::matches is not `every stored bound must hold`: %s" % ("no universally quantified test over the bounds was recognised" if q is None else
                                                                               "the quantifier is `%s`%s" % (q["kind"], " of the negated test" if q["neg"] else "")), fn_span(body))
        if q is not None:
            ctx.check(isinstance(q["coll"], tuple) and q["coll"][0] == "field" and q["coll"][3] == "matches" and strip_refs(q["coll"][1]) in (("param", 1), ("deref", ("param", 1))),
                      "D-CONJUNCTION", DM, "over-self-matches", "the bounds are self.matches", "the bounds iterated are %s, not self.matches" % term_str(q["coll"])[:80], fn_span(body), nontrivial=False)
            t = q["pred"]
            ok = is_call(t, CMP) and len(call_args(t)) == 3
            if ok:
                a0, a1, a2 = call_args(t)
                ok = is_call(strip_refs(a0), "dewey::DeweyVersion::new") and mentions(a1, lambda s: s[0] == "field" and s[3] == "op") and mentions(a2, lambda s: s[0] == "field" and s[3] == "version") \
                    and is_elem(a1) and is_elem(a2) and not is_elem(a0)
            ctx.check(ok, "D-CONJUNCTION", DM, "cmp-arguments", "dewey_cmp(pkg version, bound.op, bound.version) for each bound of self.matches",
                      "the per-bound test is %s, not dewey_cmp(package version, bound operator, bound version)" % term_str(t)[:120], fn_span(body))
            # nothing else can make the answer true: every `true` comes from the quantifier (early returns before it are all `false`)
            others = [p for p in ret_paths(paths) if const_of(p.end[1]) is True and not any(c.term[0] == "discr" and is_call(strip_refs(c.term[1]), "::next") for c in p.conds())]
            ctx.check(not others, "D-CONJUNCTION", DM, "no-other-true", "no path answers true without consulting the bounds",
                      "matches() has a path that returns true without the bounds having been checked", fn_span(body), nontrivial=False)

    # ---- OPS-TOKENS: the four operators are observed through patterns, so the token that selects each of them is part of this property: if "<="
    #      were read as "<", A<=A would fail and <= would no longer be the negation of >.  What C02's D1-SCAN establishes about Dewey::new's
    #      operator scan (">=" -> GE, ">" -> GT, "<=" -> LE, "<" -> LT, searched over the whole pattern) and about the bounds compiled from it
    #      (D1-SLICES: each bound carries the operator and the version text recorded for it -- "a two-bound pattern matches exactly when both of
    #      its single-bound halves match") is shared here as instances of this check.
    share_rules(ctx, "C02", ("D1-SCAN", "D1-SLICES"), "OPS-TOKENS", "dewey::Dewey::new", 4)

