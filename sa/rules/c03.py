"""C03 — version order is a total preorder; the four operators are mutually consistent (by construction)."""
from lib import *

EXPLANATION = (
    "Decided by construction: one operator-independent pair of integers is selected and handed to the standard <,<=,>,>= table, and that pair is always the first differing position of the zero-padded sequences (revision last). "
    "CMP-1 `op` is used only as the operator argument of dewey_test (no branch, no other argument depends on it); CMP-2 operator table GE/GT/LE/LT -> >=,>,<=,< on (lhs, rhs) in that order; "
    "CMP-3 provenance: left operand from lhs or 0, right operand from rhs or 0, never both constants; CMP-4 every component comparison is guarded by inequality of the same two terms and indexed by a range 0..min(len l,len r), len l..len r (left = 0) or len r..len l (right = 0) on the matching length branch; "
    "CMP-5 the revision comparison is outside every loop and reached only after every loop on the path was exhausted; every return of dewey_cmp is a dewey_test result; "
    "D conjunction: Dewey::matches returns true only after all bounds passed, false as soon as one fails")
NOT_DECIDED = [
    "that Range iteration visits every position (std) and that tokenising is total (C17)",
    "a rewrite that branches on `op` while preserving behaviour would violate CMP-1 (documented false-alarm source)",
]
CONFIG_SENSITIVE = False
DESUGAR = True

CMP = "dewey::dewey_cmp"
TEST = "dewey::dewey_test"
OP = "dewey::DeweyOp"


def side(t):
    """'l' / 'r' / 'zero' / 'mixed' / 'other' : which version a comparison operand comes from"""
    t = strip_refs(t)
    if is_index_call(t):
        t = call_args(t)[0]   # the collection that is indexed, not the index
    l = mentions(t, lambda s: s == ("param", 1))
    r = mentions(t, lambda s: s == ("param", 3))
    if l and r:
        return "mixed"
    if l:
        return "l"
    if r:
        return "r"
    if const_int(t) == 0:
        return "zero"
    return "other"


def is_rev(t):
    return mentions(t, lambda s: s[0] == "field" and s[3] == "pkgrevision")


def vlen(t, p):
    """is t == len(&param_p.version)?"""
    t = strip_refs(t)
    return is_call(t, "Vec::len", "[T]>::len") and mentions(call_args(t)[0], lambda s: s[0] == "field" and s[3] == "version" and strip_refs(s[1]) == ("param", p))


def is_min_len(t):
    t = strip_refs(t)
    if is_call(t, "cmp::min", "Ord::min"):
        a, b = call_args(t)[:2]
        return (vlen(a, 1) and vlen(b, 3)) or (vlen(a, 3) and vlen(b, 1))
    return False


def run(ctx):
    fx = ctx.fx
    # ---- CMP-2
    paths = ctx.paths(TEST)
    body = ctx.body(TEST)
    if paths:
        want = {"GE": "Ge", "GT": "Gt", "LE": "Le", "LT": "Lt"}
        got = {}
        for p in ret_paths(paths):
            v = self_discr_variant(fx, p, OP, lambda t: strip_refs(t) == ("param", 2))
            r = p.end[1]
            if isinstance(v, str) and isinstance(r, tuple) and r[0] == "binop":
                got[v] = (r[1], r[2], r[3])
        for v, op in want.items():
            g = got.get(v)
            ctx.check(g is not None and g[0] == op and g[1] == ("param", 1) and g[2] == ("param", 3), "CMP-2", TEST, "op=%s" % v, "%s -> lhs %s rhs" % (v, op),
                      "operator %s evaluates %s; expected %s(lhs, rhs)" % (v, (g[0], term_str(g[1]), term_str(g[2])) if g else None, op), fn_span(body))
        ctx.check(enum_variants(fx, OP) and sorted(enum_variants(fx, OP)) == sorted(want), "CMP-2", OP, "variants", "four operators", "DeweyOp variants changed: %s" % enum_variants(fx, OP), nontrivial=False)

    # ---- dewey_cmp
    paths = ctx.paths(CMP)
    body = ctx.body(CMP)
    if not paths:
        return
    # CMP-1
    bad = []
    for p in paths:
        for c in p.conds():
            if mentions(c.term, lambda s: s == ("param", 2)):
                bad.append(("branch", c.bb))
        for e in p.events:
            if e.kind == "call":
                for i, a in enumerate(e.args):
                    if mentions(a, lambda s: s == ("param", 2)) and not (e.path == TEST and i == 1):
                        bad.append(("arg of %s" % e.path, e.bb))
    ctx.check(not bad, "CMP-1", CMP, "op-independence", "`op` only reaches dewey_test's operator argument",
              "the comparison depends on `op` outside dewey_test (%s): the selected pair of integers may differ per operator, which breaks duality/trichotomy" % sorted(set(b[0] for b in bad)),
              body.span_of(bad[0][1]) if bad else fn_span(body))
    # returns
    rets = ret_paths(paths)
    okr = bool(rets) and all(is_call(p.end[1], TEST) for p in rets)
    ctx.check(okr, "CMP-RET", CMP, "returns-dewey-test", "every return is a dewey_test verdict",
              "dewey_cmp has a return that is not the result of dewey_test (a constant or other expression): operator consistency is not by construction", fn_span(body))
    # call sites
    sites = {}
    for p in paths:
        for e in p.events:
            if e.kind == "call" and e.path == TEST:
                sites.setdefault(e.bb, []).append((e, p))
    ctx.floor("CMP-3", CMP, "dewey_test call sites", len(sites), 4)
    for bb, lst in sorted(sites.items()):
        e0 = lst[0][0]
        a, b = e0.args[0], e0.args[2]
        sa, sb = side(a), side(b)
        kind = "revision" if is_rev(a) or is_rev(b) else "component"
        inst = "%s:%s-vs-%s" % (kind, sa, sb)
        ok3 = sa in ("l", "zero") and sb in ("r", "zero") and not (sa == "zero" and sb == "zero") and strip_refs(e0.args[1]) == ("param", 2)
        ctx.check(ok3, "CMP-3", CMP, inst, "left from lhs/0, right from rhs/0",
                  "dewey_test(%s, op, %s): the left operand must come from lhs (or be the 0 padding) and the right from rhs (or 0): swapped operands break symmetry" % (term_str(a)[:80], term_str(b)[:80]), body.span_of(bb))
        if kind == "revision":
            ok5 = not body.in_any_loop(bb) and is_rev(a) and is_rev(b) and sa == "l" and sb == "r"
            for (e, p) in lst:
                exhausted = 0
                for c in p.conds():
                    if c.term[0] == "discr" and is_call(c.term[1], "::next"):
                        ok5 = ok5 and c.fact == ("eq", 0)
                        exhausted += 1
                br = [c for c in p.conds() if c.term[0] == "discr" and is_call(c.term[1], "::cmp")]
                unequal_len = bool(br) and br[-1].fact in (("eq", 255), ("eq", 1))
                # common-prefix loop, plus the zero-padding loop when the lengths differ
                ok5 = ok5 and exhausted >= (2 if unequal_len else 1)
            ctx.check(ok5, "CMP-5", CMP, inst + "@" + ("tail" if bb == max(sites) else "branch"), "revision compared last, after all components tied",
                      "the revision comparison is reachable before every component loop on its path was exhausted (or is inside a loop)", body.span_of(bb))
            continue
        # CMP-4
        for (e, p) in lst:
            a, b = e.args[0], e.args[2]
            guard = None
            for c in p.conds():
                t = c.term
                if isinstance(t, tuple) and t[0] == "binop" and t[1] in ("Ne", "Eq") and {strip_refs(t[2]), strip_refs(t[3])} == {strip_refs(a), strip_refs(b)}:
                    guard = (c.fact == ("eq", True)) == (t[1] == "Ne")
            okg = guard is True
            # loop range
            nx = [c for c in p.conds() if c.term[0] == "discr" and is_call(c.term[1], "::next") and c.fact == ("eq", 1)]
            okrng = False
            rdesc = "?"
            if nx:
                it = call_args(nx[-1].term[1])[0]
                rg = [s for s in subterms(it) if s[0] == "agg" and s[1] == "adt" and s[3] == "Range"]
                if rg:
                    lo, hi = rg[0][4]
                    if sa == "l" and sb == "r":
                        okrng = const_int(lo) == 0 and is_min_len(hi)
                        rdesc = "0..min(len l, len r)"
                    elif sa == "zero":
                        okrng = vlen(lo, 1) and vlen(hi, 3)
                        rdesc = "len l..len r"
                    elif sb == "zero":
                        okrng = vlen(lo, 3) and vlen(hi, 1)
                        rdesc = "len r..len l"
                    # both operands are indexed by the loop item
                    item = nx[-1].term[1]
                    for opd in (a, b):
                        if const_int(opd) == 0:
                            continue
                        okrng = okrng and mentions(opd, lambda s: is_index_call(s) and mentions(call_args(s)[1], lambda u: u == item))
            # length branch for the padding loops
            okbr = True
            if sa == "zero" or sb == "zero":
                br = [c for c in p.conds() if c.term[0] == "discr" and is_call(c.term[1], "::cmp")]
                want = 255 if sa == "zero" else 1
                okbr = bool(br) and br[-1].fact == ("eq", want) and vlen(call_args(br[-1].term[1])[0], 1) and vlen(call_args(br[-1].term[1])[1], 3)
            ctx.check(okg and okrng and okbr, "CMP-4", CMP, inst, "guarded by a != b over %s" % rdesc,
                      "component comparison %s vs %s: guard on the same two terms=%s, index range %s ok=%s, length branch ok=%s" % (sa, sb, okg, rdesc, okrng, okbr), body.span_of(bb))
            break
    # the three loops exist (prefix, lhs-shorter, lhs-longer)
    kinds = set()
    for bb, lst in sites.items():
        e0 = lst[0][0]
        if not (is_rev(e0.args[0]) or is_rev(e0.args[2])):
            kinds.add((side(e0.args[0]), side(e0.args[2])))
    ctx.check(kinds == {("l", "r"), ("zero", "r"), ("l", "zero")}, "CMP-4", CMP, "three-regions", "common prefix, lhs shorter, lhs longer",
              "component comparisons cover %s; expected common prefix (l,r) and both zero-padding regions" % sorted(kinds), fn_span(body))

    # ---- conjunction in Dewey::matches
    DM = "dewey::Dewey::matches"
    paths = ctx.paths(DM)
    body = ctx.body(DM)
    if paths:
        # matches() = (name splits and base agrees) and FOR ALL stored bounds: dewey_cmp(version, bound.op, bound.version); the quantifier is
        # recognised in either spelling (for-loop with `return false`, or `.iter().all(..)`) and checked on its normal form
        q = quantifier(ctx, DM, paths)
        ctx.check(q is not None and q["kind"] == "all" and not q["neg"], "D-CONJUNCTION", DM, "for-all-bounds", "true iff every bound holds (%s form)" % (q["form"] if q else "?"),
                  "Dewey::matches is not `every stored bound must hold`: %s" % ("no universally quantified test over the bounds was recognised" if q is None else
                                                                               "the quantifier is `%s`%s" % (q["kind"], " of the negated test" if q["neg"] else "")), fn_span(body))
        if q is not None:
            ctx.check(isinstance(q["coll"], tuple) and q["coll"][0] == "field" and q["coll"][3] == "matches" and strip_refs(q["coll"][1]) in (("param", 1), ("deref", ("param", 1))),
                      "D-CONJUNCTION", DM, "over-self-matches", "the bounds are self.matches", "the bounds iterated are %s, not self.matches" % term_str(q["coll"])[:80], fn_span(body), nontrivial=False)
            t = q["pred"]
            ok = is_call(t, CMP) and len(call_args(t)) == 3
            if ok:
                a0, a1, a2 = call_args(t)
                ok = is_call(strip_refs(a0), "dewey::DeweyVersion::new") and mentions(a1, lambda s: s[0] == "field" and s[3] == "op") and mentions(a2, lambda s: s[0] == "field" and s[3] == "version") \
                    and is_elem(a1) and is_elem(a2) and not is_elem(a0)
            ctx.check(ok, "D-CONJUNCTION", DM, "cmp-arguments", "dewey_cmp(pkg version, bound.op, bound.version) for each bound of self.matches",
                      "the per-bound test is %s, not dewey_cmp(package version, bound operator, bound version)" % term_str(t)[:120], fn_span(body))
            # nothing else can make the answer true: every `true` comes from the quantifier (early returns before it are all `false`)
            others = [p for p in ret_paths(paths) if const_of(p.end[1]) is True and not any(c.term[0] == "discr" and is_call(strip_refs(c.term[1]), "::next") for c in p.conds())]
            ctx.check(not others, "D-CONJUNCTION", DM, "no-other-true", "no path answers true without consulting the bounds",
                      "matches() has a path that returns true without the bounds having been checked", fn_span(body), nontrivial=False)
