"""C04 — brace alternation matches exactly the union of its csh-style expansions (structural clauses)."""
from lib import *

EXPLANATION = (
    "D1 pairing discipline: a '{' may be paired with `the first '}' after it` (find('}') on the remainder) only if it is the RIGHT-MOST '{' (rfind, or last()/next_back() of match_indices, or the first item of a reversed iterator that is not advanced again); "
    "D2 `return true` is reached only through Pattern::matches on a pattern compiled from format!(prefix, alternative, suffix) with prefix = text before the '{', alternative = an item of split(',') over the text strictly between the braces, suffix = text after the '}'; the fall-through result is false; "
    "D3 an expansion that does not compile is skipped (matched on Ok, never unwrapped); "
    "D4 every path of Pattern::new that constructs an Alternate pattern passed the balance loop: '{' pushes, '}' pops or fails with Err(Alternate), a non-empty stack at the end fails")
NOT_DECIDED = [
    "completeness of the expansion beyond what D1+D2 imply (the recursion through Pattern::new/matches expands the remaining groups)",
    "semantics of str::split(',') / find / rfind (std)",
]
CONFIG_SENSITIVE = False
DESUGAR = True

AM = "pattern::Pattern::alternate_match"
NEW = "pattern::Pattern::new"


def run(ctx):
    fx = ctx.fx
    paths = ctx.paths(AM)
    body = ctx.body(AM)
    if paths:
        # ---- D1
        finds = {}
        for p in paths:
            for s in [x for c in p.conds() for x in subterms(c.term)] + [x for e in p.events if e.kind == "call" for a in e.args for x in subterms(a)]:
                if is_call(s, "str>::find") and const_char(call_args(s)[1]) == "}":
                    finds[s] = p
        ctx.floor("D1-BRACE-PAIR", AM, "find('}') sites", len(finds), 1)
        for f, p in finds.items():
            rest = strip_refs(call_args(f)[0])
            ok_rest = isinstance(rest, tuple) and rest[0] == "field" and rest[2] == 1 and is_call(strip_refs(rest[1]), "str>::split_at") and strip_refs(call_args(strip_refs(rest[1]))[0]) == ("param", 1)
            if not ok_rest:
                ctx.violation("D1-BRACE-PAIR", AM, "remainder", "find('}') is applied to %s, not to the remainder of the pattern after a '{'" % term_str(rest)[:120], fn_span(body))
                continue
            idx = call_args(strip_refs(rest[1]))[1]
            last = False
            why = "its position comes from %s" % term_str(idx)[:160]
            if mentions(idx, lambda s: is_call(s, "str>::rfind") and const_char(call_args(s)[1]) == "{" and strip_refs(call_args(s)[0]) == ("param", 1)):
                last = True
            elif mentions(idx, lambda s: is_call(s, "::last", "::next_back") and mentions(s, lambda u: is_call(u, "str>::match_indices", "str>::rmatch_indices"))):
                last = True
            else:
                nx = [s for s in subterms(idx) if is_call(s, "::next") and mentions(s, lambda u: is_call(u, "::rev", "str>::rmatch_indices"))]
                if nx:
                    site = nx[0][4]
                    in_loop = site is not None and body.in_any_loop(site)
                    last = not in_loop
                    if in_loop:
                        why = "every '{' (a loop advances the reversed iterator) is paired with the first '}' after it"
            ctx.check(last, "D1-BRACE-PAIR", AM, "open-brace-is-rightmost", "the '{' paired with find('}') is the right-most one",
                      "a '{' that is not known to be the right-most one is paired with the first '}' after it (%s): an outer group is then cut at an inner '}' and split on the nested group's commas, "
                      "so e.g. {a{b,c},d}-1.0 matches ad-1.0; re-expanding every group at every level is also factorial" % why, fn_span(body))

        # ---- D2 / D3
        rets = ret_paths(paths)
        trues = [p for p in rets if const_of(p.end[1]) is True]
        ctx.floor("D2-EXPANSION", AM, "true-returning paths", len(trues), 1)
        for i, p in enumerate(trues):
            mc = [c for c in p.conds() if is_call(c.term, "pattern::Pattern::matches")]
            ok = bool(mc) and mc[-1].fact == ("eq", True) and strip_refs(call_args(mc[-1].term)[1]) == ("param", 2)
            why = "not guarded by Pattern::matches(expansion, pkg)"
            if ok:
                pat = call_args(mc[-1].term)[0]
                pn = find_calls(pat, NEW)
                okn = bool(pn) and isinstance(strip_refs(pat), tuple) and mentions(pat, lambda s: s[0] == "downcast" and s[2] == "Ok")
                an = find_calls(pn[0], "Arguments::new") if pn else []
                site = fmt_site_for_call(fx, body, an[0][4]) if an else None
                args = fmt_call_args(an[0]) if an else []
                tmpl = fmt_template(site) if site else None
                ok = okn and tmpl == "{0}{1}{2}" and len(args) == 3
                why = "expansion is not Pattern::new(format!(\"{}{}{}\", ..)) (template %s)" % tmpl
                if ok:
                    first, m, last = [a[1] for a in args]
                    sa = [s for s in subterms(first) if is_call(s, "str>::split_at")]
                    okf = bool(sa) and mentions(first, lambda s: s[0] == "field" and s[2] == 0 and is_call(strip_refs(s[1]), "str>::split_at") and strip_refs(call_args(strip_refs(s[1]))[0]) == ("param", 1))
                    okl = mentions(last, lambda s: s[0] == "field" and s[2] == 1 and is_call(strip_refs(s[1]), "str>::split_at") and
                                   mentions(call_args(strip_refs(s[1]))[1], lambda u: u[0] == "binop" and u[1] == "Add" and const_int(u[3]) == 1 and mentions(u[2], lambda w: is_call(w, "str>::find"))))
                    sp_ = [s for s in subterms(m) if is_call(s, "str>::split") and const_char(call_args(s)[1]) == ","]
                    okm = bool(sp_) and mentions(m, lambda s: is_call(s, "::next"))
                    if okm:
                        inner = strip_refs(call_args(sp_[0])[0])
                        rg = agg_variant(call_args(inner)[1]) if is_index_call(inner) else None
                        okm = bool(rg) and rg[1] == "Range" and const_int(rg[2][0]) == 1 and isinstance(rg[2][1], tuple) and rg[2][1][0] == "binop" and rg[2][1][1] == "Sub" and const_int(rg[2][1][3]) == 1
                    ok = okf and okl and okm
                    why = "pieces: prefix ok=%s alternative ok=%s suffix ok=%s" % (okf, okm, okl)
            ctx.check(ok, "D2-EXPANSION", AM, "true-path-%d" % i, "true only via matches(Pattern::new(prefix + alternative + suffix))",
                      "alternate_match returns true on a path where %s" % why, fn_span(body))
        others = [p for p in rets if const_of(p.end[1]) is not True]
        ctx.check(bool(others) and all(const_of(p.end[1]) is False for p in others), "D2-FALLTHROUGH", AM, "otherwise-false", "every other exit returns false",
                  "alternate_match has an exit that returns neither true (via an expansion) nor false", fn_span(body), nontrivial=False)
        unw = [t["func"]["path"] for bb, t in body.calls() if mir.norm_path(t["func"]["path"]).split("::")[-1] in ("unwrap", "expect") and "Result" in t["func"]["path"]]
        skip = [p for p in paths if p.end[0] == "back" and any(c.term[0] == "discr" and is_call(c.term[1], NEW) and c.fact != ("eq", 0) for c in p.conds())]
        ctx.check(not unw and bool(skip), "D3-SKIP-INVALID", AM, "invalid-expansion-skipped", "an expansion that fails to compile is skipped",
                  "an invalid expansion is unwrapped (%s) or there is no skip path for it" % unw, fn_span(body))

    # ---- D4 balance check in Pattern::new
    paths = ctx.paths(NEW)
    body = ctx.body(NEW)
    if paths:
        alts = []
        for p in ret_paths(paths):
            v = unwrap_ok(p.end[1])
            a = agg_variant(v) if v is not None else None
            if a:
                flds = dict(zip(v[5], a[2]))
                mt = agg_variant(flds.get("matchtype"))
                if mt and mt[1] == "Alternate":
                    alts.append(p)
        ctx.floor("D4-BALANCE", NEW, "paths constructing Alternate", len(alts), 1)
        for i, p in enumerate(alts):
            nx = [c for c in p.conds() if c.term[0] == "discr" and is_call(c.term[1], "Chars as std::iter::Iterator>::next")]
            em = [c for c in p.conds() if is_call(c.term, "Vec::is_empty")]
            ok = bool(nx) and nx[-1].fact == ("eq", 0) and bool(em) and em[-1].fact == ("eq", True) and mentions(nx[-1].term, lambda s: is_call(s, "str>::chars") and strip_refs(call_args(s)[0]) == ("param", 1))
            ctx.check(ok, "D4-BALANCE", NEW, "alternate-path-%d" % i, "Alternate is constructed only after the whole pattern was scanned and the stack is empty",
                      "an Alternate pattern is constructed without the balance scan having finished with an empty stack", fn_span(body))
        # loop body table
        backs = [p for p in paths if p.end[0] == "back"]
        table = {}
        for p in backs:
            ch = {}
            for c in p.conds():
                t = c.term
                if isinstance(t, tuple) and t[0] == "binop" and t[1] == "Eq" and const_char(t[3]) in ("{", "}"):
                    ch[const_char(t[3])] = (c.fact == ("eq", True))
            eff = tuple(sorted({mir.norm_path(e.path).split("::")[-1] for e in p.events if e.kind == "call" and e.name.split("::")[-1] in ("push", "pop")}))
            key = "{" if ch.get("{") else ("}" if ch.get("}") else "other")
            table.setdefault(key, set()).add(eff)
        ctx.check(table.get("{") == {("push",)} and table.get("}") == {("pop",)} and table.get("other") == {()}, "D4-BALANCE", NEW, "scan-table",
                  "'{' pushes, '}' pops, other characters have no effect", "balance scan effects are %s; expected '{' -> push, '}' -> pop, other -> nothing" % {k: sorted(v) for k, v in table.items()}, fn_span(body))
        errs = [p for p in ret_paths(paths) if unwrap_err(p.end[1]) is not None and agg_variant(unwrap_err(p.end[1])) and agg_variant(unwrap_err(p.end[1]))[1] == "Alternate"]
        kinds = set()
        for p in errs:
            pn = [c for c in p.conds() if is_call(c.term, "Option::is_none") and mentions(c.term, lambda s: is_call(s, "Vec::pop"))]
            em = [c for c in p.conds() if is_call(c.term, "Vec::is_empty")]
            if pn and pn[-1].fact == ("eq", True):
                kinds.add("close-without-open")
            elif em and em[-1].fact == ("eq", False):
                kinds.add("unclosed")
            else:
                kinds.add("other")
        ctx.check(kinds == {"close-without-open", "unclosed"}, "D4-BALANCE", NEW, "error-exits", "Err(Alternate) on '}' without '{' and on an unclosed '{'",
                  "Err(Alternate) exits are %s; expected exactly: '}' with an empty stack, and a non-empty stack at the end" % sorted(kinds), fn_span(body))

    # ---- D4 (continued): every pattern containing '{' or '}' reaches that balance check, nothing else does (the dispatch table of
    #      Pattern::new, shared with C05): a pattern with a stray '}' must not slip through as a plain string
    import rules.c05 as c05
    from check import Ctx, Record
    sub = Ctx("C05", ctx.tier, ctx.fx)
    sub.inline_set = ctx.inline_set
    sub.desugar = bool(getattr(c05, "DESUGAR", False))
    try:
        c05.run(sub)
        shared = [r for r in sub.records if r.rule == "D1-DISPATCH"]
    except Exception:
        shared = None
    if not shared:
        ctx.violation("D4-DISPATCH", NEW, "dispatch-table", "the dispatch table of Pattern::new could not be evaluated", "")
    else:
        for r in shared:
            ctx.records.append(Record("D4-DISPATCH", r.item, r.instance, r.verdict, r.detail, r.span, False))

