"""C04 — brace alternation matches exactly the union of its csh-style expansions (structural clauses)."""
from lib import *

EXPLANATION = (
    "D1 pairing discipline: a '{' may be paired with `the first '}' after it` (find('}') on the remainder) only if it is the RIGHT-MOST '{' (rfind, or last()/next_back() of match_indices, or the first item of a reversed iterator that is not advanced again); "
    "D2 `return true` is reached only through Pattern::matches on a pattern compiled from format!(prefix, alternative, suffix) with prefix = text before the '{', alternative = an item of split(',') over the text strictly between the braces, suffix = text after the '}'; the fall-through result is false; "
    "D3 an expansion that does not compile is skipped (matched on Ok, never unwrapped); "
    "D4 every path of Pattern::new that constructs an Alternate pattern passed the balance loop: '{' pushes, '}' pops or fails with Err(Alternate), a non-empty stack at the end fails; D1-D3 are decided on the normal form ANY alternative of X.split(','): Pattern::new(format!(first, alt, last)) is Ok and matches(pkg), with the pieces normalised by substr (split_at, slicing, split_once, rsplit_once alike) and the quantifier as a for-loop or .any(..); D4 on a depth normal form (a stack pushed/popped or a counter +1/-1 guarded by != 0, inline or in a helper predicate, dispatch by contains('{')||contains('}') or contains(['{','}']))"
    " D4-VALUE the compiled pattern keeps the input as it is (C05's D1-VALUE verdicts, shared): text outside the braces belongs to every expansion.")
NOT_DECIDED = [
    "completeness of the expansion beyond what D1+D2 imply (the recursion through Pattern::new/matches expands the remaining groups)",
    "semantics of str::split(',') / find / rfind (std)",
]
CONFIG_SENSITIVE = False
DESUGAR = True

AM = "pattern::Pattern::alternate_match"
NEW = "pattern::Pattern::new"


class _Cond:
    kind = "cond"

    def __init__(self, term, fact):
        self.term, self.fact = term, fact


class _WithCond:
    """a path extended by one more assumed condition (the returned boolean expression taken as true / false)"""

    def __init__(self, p, term, truth):
        self.p, self.extra = p, _Cond(term, ("eq", truth))
        self.end, self.env, self.events = p.end, p.env, p.events

    def conds(self):
        return list(self.p.conds()) + [self.extra]


def scan_balance(ctx, key, paths, body, param, succ, fail, all_returns=None):
    """The balance scan, on its normal form: one pass over the characters of `param` keeping a nesting depth -- a stack that is pushed / popped, or an
    integer that is incremented / decremented -- where '{' goes one level deeper, '}' one level up or FAILS at depth 0, other characters change nothing,
    and the end of the text SUCCEEDS at depth 0 and FAILS otherwise.  `succ` / `fail` are the function's successful / failing exits."""
    backs = [p for p in paths if p.end[0] == "back"]

    def nxt(p):
        return [c for c in p.conds() if c.term[0] == "discr" and is_call(c.term[1], "Chars as std::iter::Iterator>::next")]

    def cur(p):
        n = nxt(p)
        return ("field", ("downcast", n[-1].term[1], "Some"), 0, "0") if n else None

    def char_class(p):
        known = {}
        cc = cur(p)
        for c in p.conds():
            t = c.term
            if isinstance(t, tuple) and t[0] == "binop" and t[1] in ("Eq", "Ne") and const_char(t[3]) in ("{", "}") and strip_refs(t[2]) == cc and isinstance(c.fact[1], bool):
                known[const_char(t[3])] = (c.fact[1] is True) == (t[1] == "Eq")
            elif strip_refs(t) == cc and cc is not None:
                if c.fact[0] == "eq" and isinstance(c.fact[1], int):
                    known["{"] = c.fact[1] == 123
                    known["}"] = c.fact[1] == 125
                elif c.fact[0] == "ne":
                    for k in c.fact[1]:
                        if k in (123, 125):
                            known[chr(k)] = False
        if known.get("{"):
            return "{"
        if known.get("}"):
            return "}"
        if known.get("{") is False and known.get("}") is False:
            return "other"
        return None
    # the depth: a Vec local (stack) or an integer local (counter), found by what the exits test once the characters are exhausted
    depth = None
    for p in list(succ) + list(fail):
        n = nxt(p)
        if not (n and n[-1].fact == ("eq", 0)):
            continue
        for c in p.conds():
            if is_call(c.term, "Vec::is_empty") and isinstance(strip_refs(call_args(c.term)[0]), tuple) and strip_refs(call_args(c.term)[0])[0] in ("havoc", "mutated"):
                depth = ("stack", strip_refs(call_args(c.term)[0])[1])
            t = c.term
            if isinstance(t, tuple) and t[0] == "binop" and t[1] in ("Eq", "Ne", "Gt") and isinstance(t[2], tuple) and t[2][0] == "havoc" and const_int(t[3]) == 0:
                depth = ("counter", t[2][1])

    def zero(c):
        """True / False if the condition says the depth is zero / non-zero, else None"""
        t = c.term
        if depth is not None and isinstance(t, tuple) and t[0] == "discr" and _checked_dec(strip_refs(t[1])):
            # depth.checked_sub(1) is None exactly at depth 0 (an unsigned counter)
            if c.fact == ("eq", 0) or (c.fact[0] == "ne" and 1 in c.fact[1] and 0 not in c.fact[1]):
                return True
            if c.fact == ("eq", 1) or (c.fact[0] == "ne" and 0 in c.fact[1] and 1 not in c.fact[1]):
                return False
            return None
        if depth is None or not isinstance(c.fact[1], bool):
            return None
        if depth[0] == "stack":
            if is_call(t, "Vec::is_empty") and isinstance(strip_refs(call_args(t)[0]), tuple) and strip_refs(call_args(t)[0])[1:2] == (depth[1],):
                return c.fact[1]
            if is_call(t, "Option::is_none") and mentions(t, lambda s: is_call(s, "Vec::pop")):
                return c.fact[1]
            return None
        if isinstance(t, tuple) and t[0] == "binop" and isinstance(t[2], tuple) and t[2][0] == "havoc" and t[2][1] == depth[1] and const_int(t[3]) == 0:
            unsigned = body.f["locals"][depth[1]]["ty"].startswith("u")
            if t[1] == "Eq":
                return c.fact[1]
            if t[1] == "Ne" or (t[1] == "Gt" and unsigned):
                return not c.fact[1]
        return None

    def _checked_dec(x):
        return depth is not None and depth[0] == "counter" and is_call(x, "::checked_sub") and len(call_args(x)) == 2 and const_int(call_args(x)[1]) == 1 \
            and isinstance(strip_refs(call_args(x)[0]), tuple) and strip_refs(call_args(x)[0])[0] == "havoc" and strip_refs(call_args(x)[0])[1] == depth[1] \
            and body.f["locals"][depth[1]]["ty"].startswith("u")

    def effect(p):
        if depth is None:
            return "?"
        if depth[0] == "stack":
            ev = [e.name.split("::")[-1] for e in p.events if e.kind == "call" and e.name.split("::")[-1] in ("push", "pop", "clear", "truncate", "remove", "insert")
                  and isinstance(e.args[0], tuple) and e.args[0][0] == "refmut" and isinstance(e.args[0][1], tuple) and e.args[0][1][:2] == ("loc", depth[1])]
            return {(): "none", ("push",): "inc", ("pop",): "dec"}.get(tuple(ev), "other:%s" % ",".join(ev))
        v = p.env.get(depth[1])
        if isinstance(v, tuple) and v[0] == "havoc" and v[1] == depth[1]:
            return "none"
        if isinstance(v, tuple) and len(v) > 2 and v[0] == "field" and v[2] == 0 and isinstance(v[1], tuple) and v[1][0] == "downcast" and v[1][2] == "Some" and _checked_dec(strip_refs(v[1][1])):
            return "dec"            # depth = depth.checked_sub(1)? : one level up, only possible when not at depth 0
        if isinstance(v, tuple) and v[0] == "binop" and v[1] in ("Add", "Sub") and isinstance(v[2], tuple) and v[2][0] == "havoc" and v[2][1] == depth[1] and const_int(v[3]) == 1:
            return "inc" if v[1] == "Add" else "dec"
        return "other"
    ctx.check(depth is not None, "D4-BALANCE", key, "depth-state", "the nesting depth is a stack or a counter (%s)" % (depth[0] if depth else "?"),
              "no nesting-depth state (a stack tested with is_empty, or a counter compared with 0) was recognised in the balance scan", fn_span(body), nontrivial=False)
    if depth is None:
        return
    # starts at depth 0 over the characters of the pattern
    init_ok = False
    for p in backs[:1]:
        for l, v in p.env.items():
            pass
    hv = [s_ for p in paths for c in p.conds() for s_ in subterms(c.term) if s_[0] == "havoc" and s_[1] == depth[1] and len(s_) > 3]
    if depth[0] == "counter":
        init_ok = bool(hv) and all(const_int(h[3]) == 0 for h in hv)
    else:
        init_ok = all(is_call(strip_refs(h[3]), "Vec::<T>::new", "Vec::new") for h in hv)
    src_ok = bool(backs) and all(nxt(p) and mentions(nxt(p)[-1].term, lambda s_: is_call(s_, "str>::chars") and strip_refs(call_args(s_)[0]) == ("param", param)) for p in backs)
    ctx.check(init_ok and src_ok, "D4-BALANCE", key, "scan-start", "the scan starts at depth 0 and runs over the pattern's characters",
              "the balance scan does not start at depth 0 over chars() of the pattern", fn_span(body), nontrivial=False)
    for i, p in enumerate(succ):
        n = nxt(p)
        zs = [zero(c) for c in p.conds() if zero(c) is not None]
        ok = bool(n) and n[-1].fact == ("eq", 0) and bool(zs) and zs[-1] is True and mentions(n[-1].term, lambda s_: is_call(s_, "str>::chars") and strip_refs(call_args(s_)[0]) == ("param", param))
        ctx.check(ok, "D4-BALANCE", key, "alternate-path-%d" % i, "success only after the whole pattern was scanned and the depth is back to zero",
                  "the balance scan succeeds (an Alternate pattern is constructed) without having finished at depth zero", fn_span(body))
    table = {}
    for p in backs:
        k = char_class(p)
        eff = effect(p)
        if k == "}" and depth[0] == "counter" and eff == "dec" and not any(zero(c) is False for c in p.conds()):
            eff = "dec-unguarded"
        table.setdefault(k if k is not None else "unknown", set()).add(eff)
    ctx.check(table.get("{") == {"inc"} and table.get("}") == {"dec"} and table.get("other") == {"none"} and set(table) == {"{", "}", "other"}, "D4-BALANCE", key, "scan-table",
              "'{' goes one level deeper, '}' one level up, other characters have no effect",
              "balance scan effects are %s; expected '{' -> one deeper, '}' -> one up (only when not at depth 0), other -> nothing" % {k: sorted(v) for k, v in table.items()}, fn_span(body))
    kinds = set()
    for p in fail:
        n = nxt(p)
        zs = [zero(c) for c in p.conds() if zero(c) is not None]
        if n and n[-1].fact == ("eq", 1) and char_class(p) == "}" and zs and zs[-1] is True:
            kinds.add("close-without-open")
        elif n and n[-1].fact == ("eq", 0) and zs and zs[-1] is False:
            kinds.add("unclosed")
        else:
            kinds.add("other")
    ctx.check(kinds == {"close-without-open", "unclosed"}, "D4-BALANCE", key, "error-exits", "failure on '}' without '{' and on an unclosed '{'",
              "the failing exits of the balance scan are %s; expected exactly: '}' at depth zero, and a non-zero depth at the end" % sorted(kinds), fn_span(body))
    if all_returns is not None:
        ctx.check(len(all_returns) == len({id(getattr(p, "p", p)) for p in list(succ) + list(fail)}), "D4-BALANCE", key, "verdict-is-constant", "every return is true, false, or the depth-is-zero test",
                  "%s has a return that is neither `true` nor `false`" % key, fn_span(body), nontrivial=False)


def expansion_normal_form(ctx, body, paths):
    """D1/D2/D3 on the normal form of alternate_match, whatever its spelling (for-loop with `return true`, or `.any(..)`; split_at / slicing /
    split_once for the pieces):
        answer = ANY alternative a in X.split(',') :  Pattern::new(format!("{}{}{}", first, a, last)) is Ok(pat)  and  pat.matches(pkg)
        first  = pattern[.. i]           i = position of the RIGHT-MOST '{'           (rfind)
        X      = the text strictly between that '{' and the FIRST '}' after it        (find on the remainder)
        last   = the text after that '}'
    Returns True when the function was recognised in this form and judged (verdicts recorded), False when it is not in this form."""
    fx = ctx.fx
    q = element_test(ctx, AM, paths)
    if q is None or q["kind"] != "any":
        return False
    coll_ = strip_refs(q["coll"])
    if not (is_call(coll_, "str>::split") and len(call_args(coll_)) == 2):
        return False
    # one compile call per alternative, on a three-piece format
    news = set()
    for a in q["alts"]:
        for t in [x for x, _ in a["facts"]] + ([a["value"]] if isinstance(a["value"], tuple) else []):
            for n in find_calls(t, NEW):
                news.add(n)
    if len(news) != 1:
        return False
    N = next(iter(news))
    an = find_calls(N, "Arguments::new")
    site = fmt_site_for_call(fx, body, an[0][4]) if an else None
    args = fmt_call_args(an[0]) if an else []
    if not (site and len(args) == 3):
        return False
    first, mid, last = [x[1] for x in args]
    sf, sx, sl = substr(first), substr(call_args(coll_)[0]), substr(last)
    if sf is None or sx is None or sl is None:
        return False
    S = ("param", 1)
    # ---- D1: which braces are paired
    rx, rl = substr(sx[0]), substr(sl[0])
    # remainder = pattern[i + k ..] with i = rfind('{'), k = 0 (remainder starts at the brace) or 1 (right after it)
    def remainder(r):
        return r is not None and r[0] == S and isinstance(r[1], tuple) and r[1][0] in ("rfind", "find") and r[1][1] == "{" and r[1][2] in (0, 1) and r[2] == LEN
    ok_rest = remainder(rx) and remainder(rl) and rx == rl
    ctx.check(ok_rest, "D1-BRACE-PAIR", AM, "remainder", "the '}' is searched in the remainder of the pattern after a '{'",
              "the alternatives / suffix are cut from %s and %s, not from the remainder of the pattern after a '{'" % (term_str(sx[0])[:80], term_str(sl[0])[:80]), fn_span(body))
    if not ok_rest:
        return True
    k = rx[1][2]
    ctx.check(rx[1][0] == "rfind", "D1-BRACE-PAIR", AM, "open-brace-is-rightmost", "the '{' paired with find('}') is the right-most one",
              "a '{' that is not the right-most one (found with %s) is paired with the first '}' after it: an outer group is then cut at an inner '}' and split on the nested group's commas, "
              "so e.g. {a{b,c},d}-1.0 matches ad-1.0" % rx[1][0], fn_span(body))
    first_close = isinstance(sx[2], tuple) and sx[2][0] == "find" and isinstance(sl[1], tuple) and sl[1][0] == "find"
    ctx.check(first_close, "D1-BRACE-PAIR", AM, "close-brace-is-first-after", "the '}' paired with that '{' is the first one after it",
              "the group is closed at a '}' that is not the first one after its '{' (found with %s): text of a later group is then taken for alternatives" % (sx[2][0] if isinstance(sx[2], tuple) else sx[2],), fn_span(body))
    okf = sf == (S, ZERO, (rx[1][0], "{", 0))
    okx = sx[1] == (("const", 1) if k == 0 else ZERO) and sx[2] == ("find", "}", 0)
    okl = sl[1] == ("find", "}", 1) and sl[2] == LEN
    okm = strip_refs(mid) == q["elem"] or (isinstance(strip_refs(mid), tuple) and strip_refs(mid)[0] == "deref" and strip_refs(strip_refs(mid)[1]) == q["elem"])
    okc = const_char(call_args(coll_)[1]) == ","
    tmpl = fmt_template(site)
    # ---- D2: the verdict per alternative
    okv = True
    skip_ok = False
    why = ""
    payload = ("field", ("downcast", N, "Ok"), 0, "0")

    def is_matches(t):
        t = strip_refs(t)
        return is_call(t, "pattern::Pattern::matches") and len(call_args(t)) == 2 and strip_refs(call_args(t)[1]) == ("param", 2) and \
            isinstance(strip_refs(call_args(t)[0]), tuple) and strip_refs(call_args(t)[0])[:3] == payload[:3]
    for a in q["alts"]:
        dn = [f for t, f in a["facts"] if t == ("discr", N)]
        if not dn:
            okv, why = False, "an alternative is decided without looking at whether its expansion compiled"
            continue
        compiled = dn[-1] == ("eq", 0)
        ms = [(t, f) for t, f in a["facts"] if is_matches(t)]
        if not compiled:
            if a["value"] is False:
                skip_ok = True
            else:
                okv, why = False, "an expansion that does not compile makes the answer %s" % (term_str(a["value"])[:60] if isinstance(a["value"], tuple) else a["value"])
        elif isinstance(a["value"], tuple):
            if not is_matches(a["value"]):
                okv, why = False, "a compiled expansion is judged by %s, not by matches(expansion, pkg)" % term_str(a["value"])[:80]
        else:
            if not ms or (ms[-1][1] == ("eq", True)) != a["value"]:
                okv, why = False, "a compiled expansion yields %s %s" % (a["value"], "without" if not ms else "against") + " matches(expansion, pkg)"
    pieces = okf and okx and okl and okm and okc and tmpl == "{0}{1}{2}"
    ctx.check(okv and pieces, "D2-EXPANSION", AM, "true-path-0", "true only via matches(Pattern::new(prefix + alternative + suffix)) for an alternative of split(',') (%s form)" % q["form"],
              "alternate_match answers true on a path where %s" % (why or "pieces: prefix ok=%s alternative ok=%s (element itself=%s, split on ','=%s) suffix ok=%s template=%s" % (okf, okx, okm, okc, okl, tmpl)), fn_span(body))
    rets = ret_paths(paths)
    if q["form"] == "combinator":
        others = [p for p in rets if not is_call(strip_refs(p.end[1]), "::any")]
        quant = [p for p in rets if is_call(strip_refs(p.end[1]), "::any")]
        okq = len(quant) >= 1
    else:
        others = [p for p in rets if const_of(p.end[1]) is not True]
        okq = True
    ctx.check(okq and bool(others) and all(const_of(p.end[1]) is False for p in others), "D2-FALLTHROUGH", AM, "otherwise-false", "every other exit returns false",
              "alternate_match has an exit that returns neither the verdict over the expansions nor false", fn_span(body), nontrivial=False)
    unw = [t["func"]["path"] for k_ in [AM] + [k2 for k2 in fx.fns if k2.startswith(AM + "::{closure")] for bb, t in ctx.body(k_).calls()
           if mir.norm_path(t["func"]["path"]).split("::")[-1] in ("unwrap", "expect") and "Result" in t["func"]["path"]]
    ctx.check(not unw and skip_ok and okv, "D3-SKIP-INVALID", AM, "invalid-expansion-skipped", "an expansion that fails to compile is skipped",
              "an invalid expansion is unwrapped (%s) or is not simply skipped" % unw, fn_span(body))
    ctx.floor("D1-BRACE-PAIR", AM, "find('}') sites", 1, 1)
    ctx.floor("D2-EXPANSION", AM, "true-returning paths", 1, 1)
    return True


def run(ctx):
    fx = ctx.fx
    paths = ctx.paths(AM)
    body = ctx.body(AM)
    if paths and expansion_normal_form(ctx, body, paths):
        pass
    elif paths:
        # ---- D1 (spellings the normal form does not cover, e.g. the right-most '{' taken from match_indices().last())
        finds = {}
        for p in paths:
            for s in [x for c in p.conds() for x in subterms(c.term)] + [x for e in p.events if e.kind == "call" for a in e.args for x in subterms(a)]:
                if is_call(s, "str>::find") and const_char(call_args(s)[1]) == "}":
                    finds[s] = p
        ctx.floor("D1-BRACE-PAIR", AM, "find('}') sites", len(finds), 1)
        for f, p in finds.items():
            rest = strip_refs(call_args(f)[0])
            ok_rest = isinstance(rest, tuple) and rest[0] == "field" and rest[2] == 1 and is_call(strip_refs(rest[1]), "str>::split_at") and strip_refs(call_args(strip_refs(rest[1]))[0]) == ("param", 1)
            if not ok_rest:
                ctx.violation("D1-BRACE-PAIR", AM, "remainder", "find('}') is applied to %s, not to the remainder of the pattern after a '{'" % term_str(rest)[:120], fn_span(body))
                continue
            idx = call_args(strip_refs(rest[1]))[1]
            last = False
            why = "its position comes from %s" % term_str(idx)[:160]
            if mentions(idx, lambda s: is_call(s, "str>::rfind") and const_char(call_args(s)[1]) == "{" and strip_refs(call_args(s)[0]) == ("param", 1)):
                last = True
            elif mentions(idx, lambda s: is_call(s, "::last", "::next_back") and mentions(s, lambda u: is_call(u, "str>::match_indices", "str>::rmatch_indices"))):
                last = True
            else:
                nx = [s for s in subterms(idx) if is_call(s, "::next") and mentions(s, lambda u: is_call(u, "::rev", "str>::rmatch_indices"))]
                if nx:
                    site = nx[0][4]
                    in_loop = site is not None and body.in_any_loop(site)
                    last = not in_loop
                    if in_loop:
                        why = "every '{' (a loop advances the reversed iterator) is paired with the first '}' after it"
            ctx.check(last, "D1-BRACE-PAIR", AM, "open-brace-is-rightmost", "the '{' paired with find('}') is the right-most one",
                      "a '{' that is not known to be the right-most one is paired with the first '}' after it (%s): an outer group is then cut at an inner '}' and split on the nested group's commas, "
                      "so e.g. {a{b,c},d}-1.0 matches ad-1.0; re-expanding every group at every level is also factorial" % why, fn_span(body))

        # ---- D2 / D3
        rets = ret_paths(paths)
        trues = [p for p in rets if const_of(p.end[1]) is True]
        ctx.floor("D2-EXPANSION", AM, "true-returning paths", len(trues), 1)
        for i, p in enumerate(trues):
            mc = [c for c in p.conds() if is_call(c.term, "pattern::Pattern::matches")]
            ok = bool(mc) and mc[-1].fact == ("eq", True) and strip_refs(call_args(mc[-1].term)[1]) == ("param", 2)
            why = "not guarded by Pattern::matches(expansion, pkg)"
            if ok:
                pat = call_args(mc[-1].term)[0]
                pn = find_calls(pat, NEW)
                okn = bool(pn) and isinstance(strip_refs(pat), tuple) and mentions(pat, lambda s: s[0] == "downcast" and s[2] == "Ok")
                an = find_calls(pn[0], "Arguments::new") if pn else []
                site = fmt_site_for_call(fx, body, an[0][4]) if an else None
                args = fmt_call_args(an[0]) if an else []
                tmpl = fmt_template(site) if site else None
                ok = okn and tmpl == "{0}{1}{2}" and len(args) == 3
                why = "expansion is not Pattern::new(format!(\"{}{}{}\", ..)) (template %s)" % tmpl
                if ok:
                    first, m, last = [a[1] for a in args]
                    sa = [s for s in subterms(first) if is_call(s, "str>::split_at")]
                    okf = bool(sa) and mentions(first, lambda s: s[0] == "field" and s[2] == 0 and is_call(strip_refs(s[1]), "str>::split_at") and strip_refs(call_args(strip_refs(s[1]))[0]) == ("param", 1))
                    okl = mentions(last, lambda s: s[0] == "field" and s[2] == 1 and is_call(strip_refs(s[1]), "str>::split_at") and
                                   mentions(call_args(strip_refs(s[1]))[1], lambda u: u[0] == "binop" and u[1] == "Add" and const_int(u[3]) == 1 and mentions(u[2], lambda w: is_call(w, "str>::find"))))
                    sp_ = [s for s in subterms(m) if is_call(s, "str>::split") and const_char(call_args(s)[1]) == ","]
                    okm = bool(sp_) and mentions(m, lambda s: is_call(s, "::next"))
                    if okm:
                        inner = strip_refs(call_args(sp_[0])[0])
                        rg = agg_variant(call_args(inner)[1]) if is_index_call(inner) else None
                        okm = bool(rg) and rg[1] == "Range" and const_int(rg[2][0]) == 1 and isinstance(rg[2][1], tuple) and rg[2][1][0] == "binop" and rg[2][1][1] == "Sub" and const_int(rg[2][1][3]) == 1
                    ok = okf and okl and okm
                    why = "pieces: prefix ok=%s alternative ok=%s suffix ok=%s" % (okf, okm, okl)
            ctx.check(ok, "D2-EXPANSION", AM, "true-path-%d" % i, "true only via matches(Pattern::new(prefix + alternative + suffix))",
                      "alternate_match returns true on a path where %s" % why, fn_span(body))
        others = [p for p in rets if const_of(p.end[1]) is not True]
        ctx.check(bool(others) and all(const_of(p.end[1]) is False for p in others), "D2-FALLTHROUGH", AM, "otherwise-false", "every other exit returns false",
                  "alternate_match has an exit that returns neither true (via an expansion) nor false", fn_span(body), nontrivial=False)
        unw = [t["func"]["path"] for bb, t in body.calls() if mir.norm_path(t["func"]["path"]).split("::")[-1] in ("unwrap", "expect") and "Result" in t["func"]["path"]]
        skip = [p for p in paths if p.end[0] == "back" and any(c.term[0] == "discr" and is_call(c.term[1], NEW) and c.fact != ("eq", 0) for c in p.conds())]
        ctx.check(not unw and bool(skip), "D3-SKIP-INVALID", AM, "invalid-expansion-skipped", "an expansion that fails to compile is skipped",
                  "an invalid expansion is unwrapped (%s) or there is no skip path for it" % unw, fn_span(body))

    # ---- D4 balance check in Pattern::new (or in a helper predicate it consults on its own argument)
    paths = ctx.paths(NEW)
    body = ctx.body(NEW)
    if paths:
        alts = []
        for p in ret_paths(paths):
            v = unwrap_ok(p.end[1])
            a = agg_variant(v) if v is not None else None
            if a:
                flds = dict(zip(v[5], a[2]))
                mt = agg_variant(flds.get("matchtype"))
                if mt and mt[1] == "Alternate":
                    alts.append(p)
        errs = [p for p in ret_paths(paths) if unwrap_err(p.end[1]) is not None and agg_variant(unwrap_err(p.end[1])) and agg_variant(unwrap_err(p.end[1]))[1] == "Alternate"]
        ctx.floor("D4-BALANCE", NEW, "paths constructing Alternate", len(alts), 1)
        # a helper predicate: every Alternate construction has `helper(pattern)` true, every Err(Alternate) has it false
        helper = None
        for p in alts:
            for c in p.conds():
                t = strip_refs(c.term)
                if is_call(t) and fx.fn(t[1]) is not None and len(call_args(t)) >= 1 and strip_refs(call_args(t)[-1]) == ("param", 1) and c.fact[0] == "eq" and isinstance(c.fact[1], bool) \
                        and any(is_call(x, "str>::chars", "str>::bytes", "str>::char_indices") for _, x in [(0, ("call", tt["func"]["path"], (), (), None)) for _, tt in ctx.body(t[1]).calls()]):
                    helper = t[1]
        if helper is None:
            scan_balance(ctx, NEW, paths, body, 1, succ=alts, fail=errs)
        else:
            hp = ctx.paths(helper) or []
            hb = ctx.body(helper)
            np_ = len(hb.f.get("params", [])) or 1
            # `return depth == 0` is the two exits `if depth == 0 { return true } return false`
            succ_, fail_ = [], []
            for p in ret_paths(hp):
                v = p.end[1]
                if const_of(v) is True:
                    succ_.append(p)
                elif const_of(v) is False:
                    fail_.append(p)
                elif isinstance(v, tuple) and (v[0] == "binop" or is_call(v, "Vec::is_empty")):
                    succ_.append(_WithCond(p, v, True))
                    fail_.append(_WithCond(p, v, False))
            scan_balance(ctx, helper, hp, hb, np_, succ=succ_, fail=fail_, all_returns=ret_paths(hp))

            def verdict(p):
                vs = [c.fact[1] for c in p.conds() if is_call(strip_refs(c.term)) and strip_refs(c.term)[1] == helper and strip_refs(call_args(strip_refs(c.term))[-1]) == ("param", 1)]
                return vs[-1] if vs else None
            ctx.check(bool(alts) and all(verdict(p) is True for p in alts), "D4-BALANCE", NEW, "alternate-only-if-balanced", "Alternate is constructed only when %s(pattern) holds" % helper.split("::")[-1],
                      "an Alternate pattern is constructed without %s(pattern) having answered true" % helper, fn_span(body))
            ctx.check(bool(errs) and all(verdict(p) is False for p in errs), "D4-BALANCE", NEW, "unbalanced-is-an-error", "Err(Alternate) exactly when %s(pattern) fails" % helper.split("::")[-1],
                      "Err(Alternate) is not returned exactly when %s(pattern) is false" % helper, fn_span(body))

    # ---- D4 (continued): every pattern containing '{' or '}' reaches that balance check, nothing else does (the dispatch table of
    #      Pattern::new, shared with C05): a pattern with a stray '}' must not slip through as a plain string
    share_rules(ctx, "C05", ("D1-DISPATCH",), "D4-DISPATCH", NEW, 2)
    # ... and what the compiled pattern keeps is the input as it is (C05's D1-VALUE): the text outside the braces belongs to every expansion
    share_rules(ctx, "C05", ("D1-VALUE",), "D4-VALUE", NEW, 3)

