"""C05 — glob and plain patterns: whole-name match, right dispatch, inert fast-reject (structural clauses)."""
import itertools
from lib import *

EXPLANATION = (
    "D1 dispatch decision table of Pattern::new over contains(c) for c in { } > < * ? [ ] (256 rows): Alternate if a brace, else Dewey if < or > (Dewey::new(pattern)? propagated), "
    "else Glob if any of * ? [ ] (glob::Pattern::new(pattern)? propagated, so a malformed glob is reported at compile time), else Simple; the stored pattern text is the input; "
    "D2 delegate table of Pattern::matches: Alternate -> alternate_match(&self.pattern, pkg), Dewey -> Dewey::matches, Glob -> glob::Pattern::matches (default options: case-sensitive whole-string), Simple -> String == str; "
    "D3 inert fast-reject: is_simple_char accepts only characters that are literal in every pattern type; quick_pkg_match returns false only on inequality of the k-th pattern char (already shown simple) with the k-th name char, true otherwise; "
    "matches() skips the delegate only when likely is unset and quick_pkg_match returned false")
NOT_DECIDED = [
    "the glob crate's matching semantics (trusted base)",
    "that two literal leading characters cannot be consumed by a construct starting earlier (prose argument: every construct that gives a character non-literal meaning begins with a non-simple character, which stops the scan)",
]
CONFIG_SENSITIVE = False
DESUGAR = True

NEW = "pattern::Pattern::new"
MATCHES = "pattern::Pattern::matches"
QUICK = "pattern::Pattern::quick_pkg_match"
SIMPLE = "pattern::Pattern::is_simple_char"
PT = "pattern::PatternType"
CHARS = ["{", "}", ">", "<", "*", "?", "[", "]"]
FORBIDDEN = set("*?[]{}<>=!^,\\")
OK_CLASS = {"is_ascii_alphanumeric", "is_ascii_alphabetic", "is_ascii_digit", "is_ascii_lowercase", "is_ascii_uppercase"}


def want_type(a):
    if a["{"] or a["}"]:
        return "Alternate"
    if a[">"] or a["<"]:
        return "Dewey"
    if a["*"] or a["?"] or a["["] or a["]"]:
        return "Glob"
    return "Simple"


def run(ctx):
    fx = ctx.fx
    # ---- D1
    paths = ctx.paths(NEW)
    body = ctx.body(NEW)
    if paths:
        rows = []
        seen_chars = set()
        for p in ret_paths(paths):
            conds = contains_facts(ctx, p)      # (set of characters, truth): the pattern contains at least one of them / none of them
            for chs, _ in conds:
                seen_chars.update(chs)
            r = p.end[1]
            ok = unwrap_ok(r)
            if ok is not None:
                a = agg_variant(ok)
                flds = dict(zip(ok[5], a[2])) if a else {}
                mt = agg_variant(flds.get("matchtype"))
                out = ("Ok", mt[1] if mt else None, flds)
            else:
                er = unwrap_err(r)
                ea = agg_variant(er) if er is not None else None
                if ea and not is_propagated_err(r):
                    out = ("Err", ea[1], {})
                else:
                    src = "Dewey" if find_calls(r, "dewey::Dewey::new") else ("Glob" if find_calls(r, "glob::Pattern::new") else "?")
                    out = ("Err", src, {}) if is_propagated_err(r) else ("?", None, {})
            rows.append((conds, out, p))
        ctx.check(seen_chars == set(CHARS), "D1-DISPATCH", NEW, "metacharacters", "tests exactly { } > < * ? [ ]",
                  "Pattern::new tests %s; the dispatch rule uses %s" % (sorted(seen_chars), CHARS), fn_span(body))
        bad = []
        n = 0
        for bits in itertools.product((False, True), repeat=8):
            a = dict(zip(CHARS, bits))
            n += 1
            want = want_type(a)
            outs = [(o, p) for (conds, o, p) in rows if all(any(a.get(k, False) for k in ks) == v for ks, v in conds)]
            for (o, p) in outs:
                kind, name, flds = o
                good = (kind == "Ok" and name == want) or (kind == "Err" and name == want and want in ("Alternate", "Dewey", "Glob"))
                if not good:
                    bad.append((tuple(c for c in CHARS if a[c]), (kind, name), want))
            if not any(o[0] == "Ok" for o, _ in outs):
                bad.append((tuple(c for c in CHARS if a[c]), "no Ok path", want))
        ctx.check(not bad, "D1-DISPATCH", NEW, "decision-table", "256 rows agree with the dispatch rule",
                  "dispatch differs on %d row(s), e.g. pattern containing %s -> %s, expected %s" % (len(bad), bad[0][0] if bad else "", bad[0][1] if bad else "", bad[0][2] if bad else ""), fn_span(body))
        ctx.floor("D1-DISPATCH", NEW, "rows", n, 256)
        # constructed values per type
        for (conds, o, p) in rows:
            kind, name, flds = o
            if kind != "Ok":
                continue
            txt = flds.get("pattern")
            okt = is_call(txt, "::to_string", "::to_owned", "::from", "::into") and strip_refs(call_args(txt)[0]) == ("param", 1)
            okc = True
            if name == "Dewey":
                d = unwrap_some(flds.get("dewey"))
                okc = d is not None and bool(find_calls(d, "dewey::Dewey::new")) and has_try(d) and strip_refs(call_args(find_calls(d, "dewey::Dewey::new")[0])[0]) == ("param", 1)
            elif name == "Glob":
                g = unwrap_some(flds.get("glob"))
                okc = g is not None and bool(find_calls(g, "glob::Pattern::new")) and has_try(g) and strip_refs(call_args(find_calls(g, "glob::Pattern::new")[0])[0]) == ("param", 1)
            lk = flds.get("likely")
            oklk = lk is None or const_of(lk) is False or (isinstance(lk, tuple) and lk[0] == "field" and is_call(lk[1], "Default>::default"))
            ctx.check(okt and okc and oklk, "D1-VALUE", NEW, "type=%s" % name, "%s: pattern text = input, matcher compiled from the input with `?`" % name,
                      "the %s pattern is not built from the input (text=%s, compiled matcher ok=%s, likely unset=%s)" % (name, term_str(txt)[:60], okc, oklk), fn_span(body), nontrivial=(name != "Simple"))
        errprop(ctx, NEW, paths, body, rule="D1-ERRPROP", no_effects_after_error=(), floor=2)

    delegate_and_fast_reject(ctx)


def delegate_and_fast_reject(ctx, only_fast_reject=False, P=''):
    fx = ctx.fx
    # ---- D2 / D3(iii)
    paths = ctx.paths(MATCHES)
    body = ctx.body(MATCHES)
    if paths:
        table = {}
        skipped = []
        for p in ret_paths(paths):
            v = None
            for (t, fact) in discr_facts(p):
                st = strip_refs(t)
                if isinstance(st, tuple) and st[0] == "field" and st[3] == "matchtype" and fact[0] == "eq":
                    v = variant_by_discr(fx, PT, fact[1])
            if v is None:
                skipped.append(p)
                continue
            table.setdefault(v, []).append(p)
        spec_ = {
            "Alternate": lambda r: is_call(r, "pattern::Pattern::alternate_match") and mentions(call_args(r)[0], lambda s: s[0] == "field" and s[3] == "pattern") and strip_refs(call_args(r)[1]) == ("param", 2),
            "Dewey": lambda r: (is_call(r, "dewey::Dewey::matches") and mentions(call_args(r)[0], lambda s: s[0] == "field" and s[3] == "dewey") and strip_refs(call_args(r)[1]) == ("param", 2)),
            "Glob": lambda r: (is_call(r, "glob::Pattern::matches") and mentions(call_args(r)[0], lambda s: s[0] == "field" and s[3] == "glob") and strip_refs(call_args(r)[1]) == ("param", 2)),
            "Simple": lambda r: bool(eq_call(r)) and not eq_call(r)[0] and {("pat" if mentions(x, lambda s: s[0] == "field" and s[3] == "pattern") else strip_refs(x)) for x in eq_call(r)[1:]} == {"pat", ("param", 2)},
        }
        for v in (() if only_fast_reject else ("Alternate", "Dewey", "Glob", "Simple")):
            ps = table.get(v, [])
            if not ps:
                ctx.violation("D2-DELEGATE", MATCHES, "type=%s" % v, "no path handles pattern type %s" % v, fn_span(body))
                continue
            good = 0
            okall = True
            for p in ps:
                r = p.end[1]
                if spec_[v](r):
                    good += 1
                elif const_of(r) is False and v in ("Dewey", "Glob") and any(c.term[0] == "discr" and mentions(c.term[1], lambda s: s[0] == "field" and s[3] in ("dewey", "glob")) for c in p.conds()):
                    pass  # the defensive `matcher missing` arm
                else:
                    okall = False
            ctx.check(okall and good >= 1, "D2-DELEGATE", MATCHES, "type=%s" % v, "%s delegates per spec" % v,
                      "pattern type %s is not matched by its delegate (%s)" % (v, {"Alternate": "alternate_match(&self.pattern, pkg)", "Dewey": "Dewey::matches(pkg)", "Glob": "glob::Pattern::matches(pkg) with default options", "Simple": "self.pattern == pkg"}[v]), fn_span(body))
        # the early exit
        ok = bool(skipped)
        for p in skipped:
            lk = [c for c in p.conds() if isinstance(c.term, tuple) and mentions(c.term, lambda s: s[0] == "field" and s[3] == "likely")]
            q = [c for c in p.conds() if is_call(c.term, QUICK)]
            ok = ok and const_of(p.end[1]) is False and bool(q) and q[-1].fact == ("eq", False) and bool(lk) and \
                mentions(call_args(q[-1].term)[0], lambda s: s[0] == "field" and s[3] == "pattern") and strip_refs(call_args(q[-1].term)[1]) == ("param", 2)
        ctx.check(ok, P + "D3-EARLY-EXIT", MATCHES, "guard", "delegate skipped only when !likely && !quick_pkg_match(&self.pattern, pkg)",
                  "matches() returns without consulting the delegate on a path not guarded by `!self.likely && !quick_pkg_match(&self.pattern, pkg)`", fn_span(body))

    # ---- D3 (i)
    paths = ctx.paths(SIMPLE)
    body = ctx.body(SIMPLE)
    if paths:
        # the accepted set, as a table over all of ASCII plus non-ASCII representatives (however the predicate is spelled: class tests,
        # `==` chains, ranges, matches!): a character that means something in some pattern type, or a non-ASCII one, must not be "simple"
        tbl = char_table(paths)
        unknown = sorted(repr(c) for c, v in tbl.items() if v is None)
        acc = sorted(c for c, v in tbl.items() if v is True)
        badc = [c for c in acc if c in FORBIDDEN or not c.isascii()]
        ctx.check(not unknown and not badc, P + "D3-SIMPLE-CHAR", SIMPLE, "accepted-set", "accepts %d ASCII characters, none special" % len(acc),
                  "is_simple_char %s: characters with a special meaning in some pattern type (or non-ASCII ones) must stop the fast-reject scan" % (
                      "accepts %s" % [repr(c) for c in badc] if badc else "cannot be tabulated for %s" % unknown[:5]), fn_span(body))
        ctx.floor(P + "D3-SIMPLE-CHAR", SIMPLE, "accepted characters", len(acc), 1)

    # ---- D3 (ii)
    paths = ctx.paths(QUICK)
    body = ctx.body(QUICK)
    if paths:
        rets = ret_paths(paths)
        nfalse = 0
        for i, p in enumerate(rets):
            v = const_of(p.end[1])
            if v is True:
                continue
            if v is not False:
                ctx.violation(P + "D3-QUICK", QUICK, "non-constant-return-%d" % i, "quick_pkg_match returns %s" % term_str(p.end[1])[:80], fn_span(body))
                continue
            nfalse += 1

            def chars_owner(t):
                """the string whose characters an iterator term walks from the front: chars(), possibly bounded by take(n), held in a (loop-carried) local"""
                t = strip_refs(t)
                for _ in range(8):
                    if isinstance(t, tuple) and t and t[0] == "havoc" and len(t) > 3 and isinstance(t[3], tuple):
                        t = strip_refs(t[3])
                    elif is_call(t, "IntoIterator>::into_iter", "Iterator>::take", "::take", "::by_ref") and call_args(t):
                        t = strip_refs(call_args(t)[0])
                    elif is_call(t, "str>::chars"):
                        return strip_refs(call_args(t)[0])
                    else:
                        break
                return None
            # which next() belongs to which string, and its ordinal on this path
            ordinal = {}
            counts = {}
            by_local = {}

            def owner_of(arg):
                l = arg[1][1] if isinstance(arg, tuple) and arg and arg[0] == "refmut" and isinstance(arg[1], tuple) and arg[1][0] == "loc" else None
                ow = chars_owner(arg)
                if ow is None and l is not None:
                    ow = by_local.get(l)          # the same local, already advanced on this path
                if ow is not None and l is not None:
                    by_local.setdefault(l, ow)
                return ow
            for e in p.events:
                if e.kind == "call" and e.name.endswith("Iterator>::next"):
                    ow = owner_of(e.args[0])
                    if ow is None:
                        continue
                    counts[ow] = counts.get(ow, 0) + 1
                    ordinal[e.term] = (ow, counts[ow])
            last = p.conds()[-1]
            e = eq_call(last.term)
            ok = bool(e)
            if ok:
                neg, x, y = e
                unequal = (last.fact == ("eq", True)) == neg

                def side(t):
                    nx = [s_ for s_ in subterms(t) if s_ in ordinal]
                    return (nx[0], ordinal[nx[0]]) if nx else (None, (None, None))
                (nxx, ox), (nxy, oy) = side(x), side(y)
                ok = unequal and {ox[0], oy[0]} == {("param", 1), ("param", 2)}
                if ok and not body.loops:
                    ok = ox[1] == oy[1]          # straight-line code: k-th against k-th
                if ok and body.loops:
                    # a loop: both iterators advance exactly once on every iteration that continues, so they stay in step
                    backs = [q for q in paths if q.end[0] == "back"]
                    for q in backs:
                        cn = {}
                        for ev in q.events:
                            if ev.kind == "call" and ev.name.endswith("Iterator>::next") and ev.bb in body.loops[q.end[1]]:
                                ow = chars_owner(ev.args[0])
                                if ow is None:
                                    continue
                                cn[ow] = cn.get(ow, 0) + 1
                        ok = ok and cn.get(("param", 1)) == 1 and cn.get(("param", 2)) == 1
                        # ... and the scan goes on only past a pattern character shown simple (anything else must end it with `true`)
                        scq = [c for c in q.conds() if is_call(c.term, SIMPLE) and c.bb in body.loops[q.end[1]]]
                        ok = ok and bool(scq) and all(c.fact == ("eq", True) for c in scq)
                    ok = ok and bool(backs)
                if ok:
                    pat_next = nxx if ox[0] == ("param", 1) else nxy
                    sc = [c for c in p.conds() if is_call(c.term, SIMPLE) and mentions(call_args(c.term)[0], lambda s: s == pat_next)]
                    ok = bool(sc) and sc[-1].fact == ("eq", True)
                    # every pattern character looked at on the way was simple too (otherwise the positions no longer correspond)
                    ok = ok and all(c.fact == ("eq", True) for c in p.conds() if is_call(c.term, SIMPLE))
            ctx.check(ok, P + "D3-QUICK", QUICK, "false-path-%d" % nfalse, "false only on k-th pattern char (simple) != k-th name char",
                      "quick_pkg_match returns false on a path that is not `k-th pattern character, already shown simple, differs from the k-th name character`", fn_span(body))
        ctx.floor(P + "D3-QUICK", QUICK, "false-returning paths", nfalse, 1)
