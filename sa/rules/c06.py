"""C06 — best_match returns the matching candidate with the highest version (selection table)."""
import itertools
from lib import *

EXPLANATION = (
    "The selection decision table of Pattern::best_match is extracted over the five predicates m1=matches(pkg1), m2=matches(pkg2), g=dewey_cmp(v1,GT,v2), l=dewey_cmp(v1,LT,v2), s=pkg1<pkg2 (byte-wise str order) "
    "and compared on all 32 assignments with the spec: neither -> None; one -> that one; both: g -> pkg1, l -> pkg2, tie -> byte-wise smaller name. "
    "v1/v2 must be DeweyVersion::new(PkgName::new(pkgN).pkgversion()) and the comparisons must use dewey::dewey_cmp (the order of C01/C03)."
    " D-ORDER the order best_match ranks by is the one the tokeniser and dewey_cmp define: C01's D1-TOK-TABLE / D1-ADVANCE / D1-CURSOR / D2-TOK-CASE and C03's CMP-2..5 / CMP-RET verdicts are shared instances of this check.")
NOT_DECIDED = [
    "order-independence of pairwise reduction follows from C03 (total preorder) plus the strict antisymmetric tie-break: a pen-and-paper step, not re-proved per run",
    "depends on C01/C03/C18 for the order and the split",
]
CONFIG_SENSITIVE = False
DESUGAR = True

BM = "pattern::Pattern::best_match"


def version_of(t, param):
    """t == &DeweyVersion::new(PkgName::new(param).pkgversion())"""
    t = strip_refs(t)
    if not is_call(t, "dewey::DeweyVersion::new"):
        return False
    a = strip_refs(call_args(t)[0])
    if not is_call(a, "pkgname::PkgName::pkgversion"):
        return False
    n = strip_refs(call_args(a)[0])
    return is_call(n, "pkgname::PkgName::new") and strip_refs(call_args(n)[0]) == ("param", param)


def classify(t):
    """key name and polarity for a condition term"""
    if is_call(t, "pattern::Pattern::matches") and strip_refs(call_args(t)[0]) == ("param", 1):
        a = strip_refs(call_args(t)[1])
        if a == ("param", 2):
            return "m1", False
        if a == ("param", 3):
            return "m2", False
    if is_call(t, "dewey::dewey_cmp"):
        a, o, b = call_args(t)
        op = agg_variant(strip_refs(o))
        opn = op[1] if op else None
        # g := v1 > v2, l := v1 < v2 ; the non-strict operators are the negations of the opposite strict ones (the order is total: C03)
        if version_of(a, 2) and version_of(b, 3):
            return {"GT": ("g", False), "LT": ("l", False), "LE": ("g", True), "GE": ("l", True)}.get(opn, (None, False))
        if version_of(a, 3) and version_of(b, 2):
            return {"LT": ("g", False), "GT": ("l", False), "GE": ("g", True), "LE": ("l", True)}.get(opn, (None, False))
    def str_order(t, name):
        if not (is_call(t) and "PartialOrd" in t[1] and mir.norm_path(t[1]).endswith("::" + name)):
            return False
        tys = [g for g in t[2] if not g.startswith("'")]
        return ("str" in t[1].split("for")[-1] and not tys) or (bool(tys) and all(g in ("str", "&str", "std::string::String") for g in tys))
    # s := pkg1 < pkg2 as strings: lt(p1,p2), gt(p2,p1) and the negations ge(p1,p2), le(p2,p1)
    for name, order, neg in (("lt", (2, 3), False), ("gt", (3, 2), False), ("ge", (2, 3), True), ("le", (3, 2), True)):
        if str_order(t, name):
            a, b = strip_refs(call_args(t)[0]), strip_refs(call_args(t)[1])
            if (a, b) == (("param", order[0]), ("param", order[1])):
                return "s", neg
    return None, False


def spec_out(a):
    if not a["m1"] and not a["m2"]:
        return "None"
    if a["m1"] and not a["m2"]:
        return "pkg1"
    if a["m2"] and not a["m1"]:
        return "pkg2"
    if a["g"]:
        return "pkg1"
    if a["l"]:
        return "pkg2"
    return "pkg1" if a["s"] else "pkg2"


def run(ctx):
    paths = ctx.paths(BM)
    body = ctx.body(BM)
    if not paths:
        return
    rows = []
    unknown = []
    for p in ret_paths(paths):
        conds = {}
        for c in p.conds():
            k, neg = classify(c.term)
            if k is None:
                unknown.append(term_str(c.term)[:120])
                continue
            conds[k] = (c.fact == ("eq", True)) != neg
        r = p.end[1]
        if is_none(r):
            out = "None"
        elif unwrap_some(r) == ("param", 2):
            out = "pkg1"
        elif unwrap_some(r) == ("param", 3):
            out = "pkg2"
        else:
            out = "other:" + term_str(r)[:60]
        rows.append((conds, out))
    ctx.check(not unknown, "D-PREDICATES", BM, "recognised", "all branch conditions are among m1,m2,g,l,s",
              "best_match branches on conditions outside the selection rule (wrong version source, operator or tie-break): %s" % sorted(set(unknown))[:3], fn_span(body))
    keys = ["m1", "m2", "g", "l", "s"]
    used = {k for conds, _ in rows for k in conds}
    ctx.check(used == set(keys), "D-PREDICATES", BM, "all-five", "uses m1,m2,g,l,s", "selection uses predicates %s; the rule needs %s" % (sorted(used), keys), fn_span(body))
    bad = []
    n = 0
    for bits in itertools.product((False, True), repeat=5):
        a = dict(zip(keys, bits))
        if a["g"] and a["l"]:
            continue  # impossible under a consistent order (C03)
        n += 1
        outs = {o for conds, o in rows if all(a[k] == v for k, v in conds.items())}
        want = spec_out(a)
        if outs != {want}:
            bad.append((a, sorted(outs), want))
    ctx.check(not bad, "D-SELECTION", BM, "decision-table", "%d assignments agree with the spec" % n,
              "selection differs from the spec on %d assignment(s), e.g. %s -> %s, expected %s" % (len(bad), bad[0][0] if bad else "", bad[0][1] if bad else "", bad[0][2] if bad else ""), fn_span(body))
    ctx.floor("D-SELECTION", BM, "assignments", n, 24)
    ctx.floor("D-SELECTION", BM, "returning paths", len(rows), 7)

    # ---- D-ORDER: "highest version" is highest under the order that the tokeniser and dewey_cmp define; a slip there (a modifier read one byte
    #      short, a padding branch skipping components) makes best_match return a lower version or depend on the argument order.  The verdicts of
    #      C01's tokeniser table / cursor advance rules and of the comparison discipline (C03's CMP rules, as C01's D4-COMPARE) are shared here.
    share_rules(ctx, "C01", ("D1-TOK-TABLE", "D1-ADVANCE", "D1-CURSOR", "D2-TOK-CASE"), "D-ORDER", "dewey::DeweyVersion::new", 10)
    share_rules(ctx, "C03", ("CMP-2", "CMP-3", "CMP-4", "CMP-5", "CMP-RET"), "D-ORDER", "dewey::dewey_cmp", 10)
