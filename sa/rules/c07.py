"""C07 — pkg_summary entries round-trip (structural clauses)."""
from lib import *
from rules.summary_common import *

EXPLANATION = (
    "D1 SummaryVariable::from_str and Display tables are mutually inverse and equal the 23 pkg_summary names; "
    "D2 variant declaration order = spec order, Ord derived, every formatter write in Display for Summary lies under a BTreeMap-keyed loop and never under a HashMap-driven loop; "
    "D3 each write uses the template {key}={value}\\n bound to (key, value); "
    "D4 kind consistency: only insert_or_update/insert_or_push mutate `entries`, every writer/reader call site pairs a variable with its spec kind, each public getter/setter/pusher addresses the variable its name denotes")
NOT_DECIDED = [
    "that i64 and CR/LF-free text survive Display -> lines() -> splitn (std semantics)",
    "byte-for-byte equality of printed canonical entries (follows from D1-D3 + std formatting)",
]
CONFIG_SENSITIVE = False
DESUGAR = True


def loop_driver(body, paths, header):
    """full callee path of the Iterator::next call that controls a loop header"""
    blk = body.blocks[header]
    t = blk["term"]
    if t["k"] == "call" and t["func"]["path"].endswith("::next"):
        return t["func"]["full"]
    return None


def run(ctx):
    fx = ctx.fx
    sp = vars_spec()
    V = sp["variables"]
    names = [v["name"] for v in V]
    byvariant = {v["variant"]: v for v in V}

    # ---- D1 name tables (the parse half is shared with C08)
    parse = parse_rules(ctx, V, "D1-PARSE")
    disp = display_table(ctx, DISPLAY_VAR, VAR)
    for v in V:
        got = disp.get(v["variant"])
        ctx.check(got == [[v["name"]]], "D1-DISPLAY", DISPLAY_VAR, "variant=%s" % v["variant"],
                  "%s prints %s" % (v["variant"], v["name"]), "%s prints %s, expected exactly [%r]" % (v["variant"], got, v["name"]))
        back = parse.get(got[0][0]) if got and got[0] else None
        ctx.check(back is not None and back[0] == v["variant"], "D1-INVERSE", DISPLAY_VAR, "variant=%s" % v["variant"],
                  "from_str(display(%s)) = %s" % (v["variant"], v["variant"]),
                  "printing %s gives %s which parses back to %s" % (v["variant"], got, back and back[0]))
    ctx.floor("D1-DISPLAY", DISPLAY_VAR, "rows", len(disp), 23)

    # ---- D2 fixed order
    decl = enum_variants(fx, VAR)
    ctx.check(decl == [v["variant"] for v in V], "D2-ENUM-ORDER", VAR, "declaration-order",
              "variant declaration order equals the pkg_summary order",
              "variant order %s differs from the spec order %s" % (decl, [v["variant"] for v in V]))
    for tr in ("std::cmp::Ord", "std::cmp::PartialOrd"):
        imp = [i for i in fx.impls if i["self_ty"] == VAR and i["trait"].startswith(tr)]
        ctx.check(len(imp) == 1 and imp[0]["auto_derived"], "D2-ORD-DERIVED", VAR, tr,
                  "%s is derived (declaration order)" % tr, "%s for SummaryVariable is not the derived implementation: printing order no longer follows the declaration order" % tr)
    body = ctx.body(DISPLAY_SUM)
    paths = ctx.paths(DISPLAY_SUM)
    if body and paths:
        writes = [(bb, t) for bb, t in body.calls() if t["func"]["path"].endswith("write_fmt") or t["func"]["path"].endswith("write_str")]
        ctx.floor("D2-ORDERED-ITER", DISPLAY_SUM, "formatter writes", len(writes), 1)
        for bb, t in writes:
            hs = [h for h, blks in body.loops.items() if bb in blks]
            drivers = [(h, loop_driver(body, paths, h) or "?") for h in hs]
            bad = [d for h, d in drivers if "hash_map::" in d or "hash_set::" in d or "HashMap" in d]
            outer = max(hs, key=lambda h: len(body.loops[h])) if hs else None
            od = dict(drivers).get(outer, "")
            ordered = "btree_map::" in od and VAR in od
            ctx.check(not bad and ordered, "D2-ORDERED-ITER", DISPLAY_SUM, "write@%s" % ("A-arm" if len(hs) > 1 else "bb") + str(sorted(hs)),
                      "write is under a BTreeMap<&SummaryVariable,_> loop only",
                      "formatter write at %s is driven by %s; it must lie in a loop ordered by SummaryVariable (BTreeMap) and never in a HashMap-driven loop, or output depends on insertion history"
                      % (body.span_of(bb), [d for _, d in drivers] or "no loop"), body.span_of(bb))
        # the BTreeMap is filled from every entry of self.entries
        ins = [e for p in paths for e in p.calls("BTreeMap::insert")]
        okins = bool(ins) and all(mentions(e.args[1], lambda s: is_call(s, "hash_map::Iter as std::iter::Iterator>::next")) for e in ins)
        if not okins:
            # idiom: entries.iter().collect::<BTreeMap<_, _>>()
            for pth in paths:
                for e in pth.events:
                    if ev_is(e, "btree_map::IntoIter as std::iter::Iterator>::next", "btree_map::Iter as std::iter::Iterator>::next"):
                        cols = find_calls(e.args[0], "::collect")
                        if cols and any(mentions(c, lambda s: s[0] == "field" and s[3] == "entries") for c in cols):
                            okins = True
        ctx.check(okins, "D2-COPY-ALL", DISPLAY_SUM, "btree-fill", "every entry is copied into the ordered map",
                  "the ordered map is not filled from the iteration over self.entries")

        # ---- D3 templates and bindings
        sites = fmt_sites_in(fx, body)
        tm = [fmt_template(s) for s in sites]
        ctx.check(len(tm) >= 1 and all(t == sp["line_template"] for t in tm), "D3-TEMPLATE", DISPLAY_SUM, "templates",
                  "%d write sites, all %r" % (len(tm), sp["line_template"]),
                  "write templates are %s; every value must be printed as %r" % (tm, sp["line_template"]))
        ctx.floor("D3-TEMPLATE", DISPLAY_SUM, "format sites", len(tm), 3)
        seen = set()
        adt = fx.adts.get(VAL) or {"variants": []}
        ity = next((vv["fields"][0]["ty"] for vv in adt["variants"] if vv["name"] == "I" and vv["fields"]), None)
        for p in paths:
            for e in p.events:
                if e.kind != "call" or not e.path.endswith("write_fmt") or e.bb in seen:
                    continue
                seen.add(e.bb)
                disps = find_calls(e.args[1], "::new_display", "::new_lower_hex", "::new_debug")
                disps = [d for d in disps]
                # order of appearance inside the array aggregate
                arr = [s for s in subterms(e.args[1]) if isinstance(s, tuple) and s[0] == "agg" and s[1] == "array"]
                ops = arr[0][4] if arr else ()
                nexts = [s for s in subterms(e.args[1]) if is_call(s, "btree_map::IntoIter as std::iter::Iterator>::next", "btree_map::Iter as std::iter::Iterator>::next")]
                ok = len(ops) == 2 and all(is_call(o, "::new_display") for o in ops) and bool(nexts)
                if ok:
                    item = nexts[0]
                    k_ok = mentions(ops[0], lambda s: isinstance(s, tuple) and s[0] == "field" and s[2] == 0 and isinstance(s[1], tuple) and s[1][0] == "field" and s[1][1] == ("downcast", item, "Some"))
                    v_ok = mentions(ops[1], lambda s: isinstance(s, tuple) and s[0] == "field" and s[2] == 1 and isinstance(s[1], tuple) and s[1][0] == "field" and s[1][1] == ("downcast", item, "Some"))
                    k_in_v = mentions(ops[1], lambda s: isinstance(s, tuple) and s[0] == "field" and s[2] == 0 and isinstance(s[1], tuple) and s[1][0] == "field" and s[1][1] == ("downcast", item, "Some"))
                    ok = k_ok and v_ok and not k_in_v
                if ok:
                    # reader/writer type agreement: the value placeholder prints a String or the i64 that from_str parses back
                    pty = str(([g for g in (ops[1][2] or ()) if not str(g).startswith("'")] or ["?"])[-1]).lstrip("&").strip()
                    allowed = {"std::string::String", "str", ity}
                    ctx.check(pty in allowed and ity == sp.get("int_type", "i64"), "D3-TYPE", DISPLAY_SUM, "value-type@bb-in-%s" % sorted(h for h, b in body.loops.items() if e.bb in b),
                              "value printed as %s" % pty,
                              "the value placeholder at %s prints a %s and SummaryValue::I holds %s; integer values must be held and printed as %s, the type from_str parses (a negative size would not survive)"
                              % (body.span_of(e.bb), pty, ity, sp.get("int_type", "i64")), body.span_of(e.bb), nontrivial=False)
                ctx.check(ok, "D3-BINDING", DISPLAY_SUM, "write@bb-in-%s" % sorted(h for h, b in body.loops.items() if e.bb in b),
                          "placeholders bound to (key, value of that key)",
                          "write at %s does not print (key, value) of the current map item in that order" % body.span_of(e.bb), body.span_of(e.bb))
        # D3-EVERY-ENTRY: each entry is printed whatever its value: one line per S / I value, one per element of an A value; no condition
        #                 on the value (empty, repeated, ...) decides whether a line is written
        def writes(p_, blks):
            return [e_ for e_ in p_.events if e_.kind == "call" and e_.path.endswith("write_fmt") and e_.bb in blks]
        outer = [h for h in body.loops if "btree_map" in (loop_driver(body, paths, h) or "")]
        inner = [h for h in body.loops if "slice::Iter" in (loop_driver(body, paths, h) or "")]
        bad_iter = []
        for h in outer + inner:
            blks = body.loops[h]
            nested = set().union(*[body.loops[h2] for h2 in body.loops if h2 != h and body.loops[h2] < blks]) if any(body.loops[h2] < blks for h2 in body.loops if h2 != h) else set()
            for p_ in paths:
                if p_.end[0] != "back" or p_.end[1] != h:
                    continue
                own = [e_ for e_ in writes(p_, blks) if e_.bb not in nested]
                through_inner = any(b_ in nested for b_ in p_.blocks)
                if len(own) != 1 and not (h in outer and through_inner and len(own) == 0):
                    bad_iter.append((h, len(own)))
                # conditions inside this iteration other than discriminant tests (which kind, Some/None of next, Ok/Err of the write)
                extra = [c for c in p_.conds() if c.bb in blks and c.term[0] != "discr"]
                if extra:
                    bad_iter.append((h, term_str(extra[0].term)[:60]))
        ctx.check(bool(outer) and not bad_iter, "D3-EVERY-ENTRY", DISPLAY_SUM, "one-line-per-value", "every iteration writes exactly one line, unconditionally",
                  "Display for Summary has an iteration that writes %s lines or is guarded by a condition on the value (%s): some stored values would not be printed, so printing and parsing back loses them"
                  % (bad_iter[0][1] if bad_iter else "?", bad_iter[:2]), fn_span(body))
        # A arm iterates the vector front to back
        a_loops = [h for h in body.loops if "slice::Iter" in (loop_driver(body, paths, h) or "")]
        ctx.check(len(a_loops) >= 1, "D3-A-ORDER", DISPLAY_SUM, "list-iteration", "multi-line values are printed by a forward slice iteration",
                  "no forward slice iteration found for multi-line values")
        revs = [t for _, t in body.calls() if t["func"]["path"].endswith("::rev") or "sort" in t["func"]["path"].split("::")[-1]]
        ctx.check(not revs, "D3-A-ORDER", DISPLAY_SUM, "no-reorder", "no rev()/sort on values", "values are reordered (%s) before printing" % [t["func"]["path"] for t in revs])

    # ---- D4 kind consistency
    # (i) who may mutate `entries` (shared with C08)
    who_writes(ctx, "D4-WHO-WRITES")

    # (ii)-(iv) accessors (shared with C08)
    accessors(ctx, V, "D4-ACCESSOR", "D4-PAYLOAD")

    # every other call site of the writer/reader primitives anywhere in the crate
    kinds = {v["variant"]: v["kind"] for v in V}
    n = 0
    for key, f in fx.bodies():
        if not any(b["term"]["k"] == "call" and b["term"]["func"]["path"] in (WRITERS + tuple(READERS)) for b in f["blocks"]):
            continue
        for (c, var, kind, _, e, p) in method_effect(ctx, key):
            n += 1
            want = kinds.get(var)
            okk = want is not None and kind == want and (c != WRITERS[1] or kind == "A")
            ctx.check(okk, "D4-KIND", key, "%s(%s)" % (c.split("::")[-1], var),
                      "%s with kind %s" % (var, kind),
                      "%s is called with variable %s and value kind %s; the spec kind of %s is %s%s"
                      % (c, var, kind, var, want, " and insert_or_push requires A" if c == WRITERS[1] else ""),
                      ctx.body(key).span_of(e.bb), nontrivial=False)
    ctx.floor("D4-KIND", "summary", "writer/reader call sites", n, 52)

    # the primitives themselves (shared with C08: last-value / append-in-order)
    primitives(ctx, "D4-PRIMITIVE")
