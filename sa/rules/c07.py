"""C07 — pkg_summary entries round-trip (structural clauses)."""
from lib import *
from rules.summary_common import *

EXPLANATION = (
    "D1 SummaryVariable::from_str and Display tables are mutually inverse and equal the 23 pkg_summary names; "
    "D2 variant declaration order = spec order, Ord derived, every formatter write in Display for Summary lies under a loop ordered by SummaryVariable (a BTreeMap keyed by it, or a Vec of the (key, value) pairs collected from entries as they are and sorted by key in SummaryVariable's own order, untouched otherwise) and never under a HashMap-driven loop; "
    "D3 each write uses the template {key}={value}\\n bound to (key, value); "
    "D4 kind consistency: only insert_or_update/insert_or_push mutate `entries`, every writer/reader call site pairs a variable with its spec kind, each public getter/setter/pusher addresses the variable its name denotes"
    " D1-PARSE-LINES the parse half of the round trip: C08's D4-LINES / D4-FIRSTSEP / D4-KEY / D1-DISPATCH / D1-EVERY-LINE verdicts are shared instances; SummaryValue::push only appends (D4-PRIMITIVE#append-only).")
NOT_DECIDED = [
    "that i64 and CR/LF-free text survive Display -> lines() -> splitn (std semantics)",
    "byte-for-byte equality of printed canonical entries (follows from D1-D3 + std formatting)",
]
CONFIG_SENSITIVE = False
DESUGAR = True


def loop_driver(body, paths, header):
    """full callee path of the Iterator::next call that controls a loop header"""
    blk = body.blocks[header]
    t = blk["term"]
    if t["k"] == "call" and t["func"]["path"].endswith("::next"):
        return t["func"]["full"]
    return None


SORTS = ("sort_by", "sort_unstable_by", "sort_by_key", "sort_unstable_by_key", "sort_by_cached_key", "sort", "sort_unstable")


def sorted_vec_source(ctx, body, paths, VAR, VAL):
    """The other way to print in SummaryVariable order: the entries collected into a Vec<(&SummaryVariable, &SummaryValue)> that is sorted by
    its key before the print loop walks it.  dict(driver=<test on a loop driver>, filled, sorted, sort_bbs, why) or None when no loop walks such
    a vector."""
    tup = "(&%s, &%s)" % (VAR, VAL)

    def is_driver(d):
        return ("vec::IntoIter<" + tup) in d or ("slice::Iter<'_, " + tup) in d
    hs = [h for h in body.loops if is_driver(loop_driver(body, paths, h) or "")]
    if not hs:
        return None
    # the vector local: the one the loop's iterator is made from
    vec = set()
    for p in paths:
        for e in p.events:
            if e.kind == "call" and (ev_is(e, "IntoIterator>::into_iter") or ev_is(e, "[T]>::iter")) and tup in (e.data.get("full") or e.name) + " ".join(str(g) for g in (e.data.get("gargs") or ())) + e.dest["ty"]:
                for s_ in subterms(e.args[0]):
                    if s_[0] in ("loc", "havoc", "mutated") and isinstance(s_[1], int) and 0 <= s_[1] < len(body.f["locals"]) and body.f["locals"][s_[1]]["ty"].replace(" ", "").startswith("std::vec::Vec<" + tup.replace(" ", "")):
                        vec.add(s_[1])
    res = {"driver": is_driver, "filled": False, "sorted": False, "sort_bbs": set(), "why": "no vector of (key, value) pairs identified"}
    if len(vec) != 1:
        return res
    n = next(iter(vec))

    def on_vec(t):
        # the vector itself, borrowed or seen as a slice: not something merely computed from it
        for _ in range(6):
            if isinstance(t, tuple) and t and t[0] in ("ref", "refmut", "deref"):
                t = t[1]
            elif is_call(t, "DerefMut>::deref_mut", "Deref>::deref", "::as_mut_slice", "::as_slice") and call_args(t):
                t = call_args(t)[0]
            else:
                break
        return isinstance(t, tuple) and t and t[0] in ("loc", "havoc", "mutated") and t[1] == n
    filled = sorts = 0
    other = set()
    for p in paths:
        for e in p.events:
            if e.kind != "call" or not any(on_vec(a) for a in e.args):
                continue
            last = mir.norm_path(e.name).rsplit("::", 1)[-1]
            # what the vector held when it was first used: collect(entries.iter()), nothing in between
            for s_ in subterms(e.args[0]):
                if s_[0] == "loc" and s_[1] == n and len(s_) > 2 and is_call(s_[2], "::collect"):
                    src = strip_refs(call_args(s_[2])[0])
                    if (is_call(src, "HashMap::iter", "HashMap<K, V, S>::iter") or (is_call(src, "IntoIterator>::into_iter") and "HashMap" in src[1])) and \
                            carried_unchanged(call_args(src)[0], lambda u: isinstance(u, tuple) and u[0] == "field" and u[3] == "entries"):
                        filled += 1
                    else:
                        res["why"] = "the vector is collected from %s, not from self.entries.iter() as it is" % term_str(src)[:80]
            if last in SORTS:
                okc = last in ("sort", "sort_unstable")
                clo = strip_refs(e.args[1]) if len(e.args) > 1 else None
                if clo is not None and isinstance(clo, tuple) and clo[:2] == ("agg", "closure"):
                    rp = ret_paths(ctx.paths(clo[2]) or [])
                    if last in ("sort_by", "sort_unstable_by"):
                        # |a, b| a.0.cmp(b.0): SummaryVariable's own order, first argument first
                        def key_of(t, prm):
                            t = deval(t)
                            return isinstance(t, tuple) and t[0] == "field" and t[2] == 0 and deval(t[1]) == ("param", prm)
                        okc = len(rp) == 1 and is_call(rp[0].end[1], "%s as std::cmp::Ord>::cmp" % VAR, "Ord>::cmp") and VAR in rp[0].end[1][1] and \
                            key_of(call_args(rp[0].end[1])[0], 2) and key_of(call_args(rp[0].end[1])[1], 3)
                    else:
                        okc = len(rp) == 1 and carried_unchanged(rp[0].end[1], lambda u: isinstance(u, tuple) and u[0] == "field" and u[2] == 0 and deval(u[1]) == ("param", 2))
                if okc:
                    sorts += 1
                    res["sort_bbs"].add(e.bb)
                else:
                    res["why"] = "the vector is sorted by something other than the SummaryVariable key in its own order"
                    other.add(last)
            elif last not in ("deref_mut", "deref", "into_iter", "iter", "len", "is_empty", "as_slice", "as_mut_slice"):
                other.add(last)
    if other:
        res["why"] = "the vector is also touched by %s between collecting and printing" % sorted(other)
    res["filled"] = filled > 0 and not other
    res["sorted"] = sorts > 0 and not other
    return res


def run(ctx):
    fx = ctx.fx
    sp = vars_spec()
    V = sp["variables"]
    names = [v["name"] for v in V]
    byvariant = {v["variant"]: v for v in V}

    # ---- D1 name tables (the parse half is shared with C08)
    parse = parse_rules(ctx, V, "D1-PARSE")
    disp = display_table(ctx, DISPLAY_VAR, VAR)
    for v in V:
        got = disp.get(v["variant"])
        ctx.check(got == [[v["name"]]], "D1-DISPLAY", DISPLAY_VAR, "variant=%s" % v["variant"],
                  "%s prints %s" % (v["variant"], v["name"]), "%s prints %s, expected exactly [%r]" % (v["variant"], got, v["name"]))
        back = parse.get(got[0][0]) if got and got[0] else None
        ctx.check(back is not None and back[0] == v["variant"], "D1-INVERSE", DISPLAY_VAR, "variant=%s" % v["variant"],
                  "from_str(display(%s)) = %s" % (v["variant"], v["variant"]),
                  "printing %s gives %s which parses back to %s" % (v["variant"], got, back and back[0]))
    ctx.floor("D1-DISPLAY", DISPLAY_VAR, "rows", len(disp), 23)

    # ---- D2 fixed order
    decl = enum_variants(fx, VAR)
    ctx.check(decl == [v["variant"] for v in V], "D2-ENUM-ORDER", VAR, "declaration-order",
              "variant declaration order equals the pkg_summary order",
              "variant order %s differs from the spec order %s" % (decl, [v["variant"] for v in V]))
    for tr in ("std::cmp::Ord", "std::cmp::PartialOrd"):
        imp = [i for i in fx.impls if i["self_ty"] == VAR and i["trait"].startswith(tr)]
        ctx.check(len(imp) == 1 and imp[0]["auto_derived"], "D2-ORD-DERIVED", VAR, tr,
                  "%s is derived (declaration order)" % tr, "%s for SummaryVariable is not the derived implementation: printing order no longer follows the declaration order" % tr)
    body = ctx.body(DISPLAY_SUM)
    paths = ctx.paths(DISPLAY_SUM)
    if body and paths:
        writes = [(bb, t) for bb, t in body.calls() if t["func"]["path"].endswith("write_fmt") or t["func"]["path"].endswith("write_str")]
        sv = sorted_vec_source(ctx, body, paths, VAR, VAL)
        is_ordered = lambda d: ("btree_map::" in d and VAR in d) or (sv is not None and sv["driver"](d) and sv["sorted"])
        is_outer = lambda d: "btree_map" in d or (sv is not None and sv["driver"](d))
        NEXTS = ("btree_map::IntoIter as std::iter::Iterator>::next", "btree_map::Iter as std::iter::Iterator>::next") + \
            (("vec::IntoIter as std::iter::Iterator>::next", "slice::Iter as std::iter::Iterator>::next") if sv is not None else ())
        ctx.floor("D2-ORDERED-ITER", DISPLAY_SUM, "formatter writes", len(writes), 1)
        for bb, t in writes:
            hs = [h for h, blks in body.loops.items() if bb in blks]
            drivers = [(h, loop_driver(body, paths, h) or "?") for h in hs]
            bad = [d for h, d in drivers if "hash_map::" in d or "hash_set::" in d or "HashMap" in d]
            outer = max(hs, key=lambda h: len(body.loops[h])) if hs else None
            od = dict(drivers).get(outer, "")
            ordered = is_ordered(od)
            ctx.check(not bad and ordered, "D2-ORDERED-ITER", DISPLAY_SUM, "write@%s" % ("A-arm" if len(hs) > 1 else "bb") + str(sorted(hs)),
                      "write is under a loop ordered by SummaryVariable only (BTreeMap, or a vector of the entries sorted by key)",
                      "formatter write at %s is driven by %s; it must lie in a loop ordered by SummaryVariable (a BTreeMap, or the entries sorted by their key) and never in a HashMap-driven loop, or output depends on insertion history%s"
                      % (body.span_of(bb), [d for _, d in drivers] or "no loop", (" (%s)" % sv["why"]) if sv is not None and not sv["sorted"] else ""), body.span_of(bb))
        # the BTreeMap is filled from every entry of self.entries
        ins = [e for p in paths for e in p.calls("BTreeMap::insert")]
        okins = bool(ins) and all(mentions(e.args[1], lambda s: is_call(s, "hash_map::Iter as std::iter::Iterator>::next")) for e in ins)
        if not okins:
            # idiom: entries.iter().collect::<BTreeMap<_, _>>()
            for pth in paths:
                for e in pth.events:
                    if ev_is(e, "btree_map::IntoIter as std::iter::Iterator>::next", "btree_map::Iter as std::iter::Iterator>::next"):
                        cols = find_calls(e.args[0], "::collect")
                        if cols and any(mentions(c, lambda s: s[0] == "field" and s[3] == "entries") for c in cols):
                            okins = True
        if not okins and sv is not None:
            okins = sv["filled"]
        ctx.check(okins, "D2-COPY-ALL", DISPLAY_SUM, "btree-fill", "every entry is copied into the ordered map / the sorted vector",
                  "the ordered map is not filled from the iteration over self.entries" + ((" (%s)" % sv["why"]) if sv is not None else ""))

        # ---- D3 templates and bindings
        sites = fmt_sites_in(fx, body)
        tm = [fmt_template(s) for s in sites]
        ctx.check(len(tm) >= 1 and all(t == sp["line_template"] for t in tm), "D3-TEMPLATE", DISPLAY_SUM, "templates",
                  "%d write sites, all %r" % (len(tm), sp["line_template"]),
                  "write templates are %s; every value must be printed as %r" % (tm, sp["line_template"]))
        ctx.floor("D3-TEMPLATE", DISPLAY_SUM, "format sites", len(tm), 3)
        seen = set()
        adt = fx.adts.get(VAL) or {"variants": []}
        ity = next((vv["fields"][0]["ty"] for vv in adt["variants"] if vv["name"] == "I" and vv["fields"]), None)
        for p in paths:
            for e in p.events:
                if e.kind != "call" or not e.path.endswith("write_fmt") or e.bb in seen:
                    continue
                seen.add(e.bb)
                disps = find_calls(e.args[1], "::new_display", "::new_lower_hex", "::new_debug")
                disps = [d for d in disps]
                # order of appearance inside the array aggregate
                arr = [s for s in subterms(e.args[1]) if isinstance(s, tuple) and s[0] == "agg" and s[1] == "array"]
                ops = arr[0][4] if arr else ()
                nexts = [s for s in subterms(e.args[1]) if is_call(s, *NEXTS) and (sv is None or "btree_map" in s[1] or "SummaryVariable" in " ".join(str(g) for g in s[2]) or sv["driver"](s[1]))]
                ok = len(ops) == 2 and all(is_call(o, "::new_display") for o in ops) and bool(nexts)
                if ok:
                    item = nexts[0]
                    k_ok = mentions(ops[0], lambda s: isinstance(s, tuple) and s[0] == "field" and s[2] == 0 and isinstance(s[1], tuple) and s[1][0] == "field" and s[1][1] == ("downcast", item, "Some"))
                    v_ok = mentions(ops[1], lambda s: isinstance(s, tuple) and s[0] == "field" and s[2] == 1 and isinstance(s[1], tuple) and s[1][0] == "field" and s[1][1] == ("downcast", item, "Some"))
                    k_in_v = mentions(ops[1], lambda s: isinstance(s, tuple) and s[0] == "field" and s[2] == 0 and isinstance(s[1], tuple) and s[1][0] == "field" and s[1][1] == ("downcast", item, "Some"))
                    ok = k_ok and v_ok and not k_in_v
                if ok:
                    # reader/writer type agreement: the value placeholder prints a String or the i64 that from_str parses back
                    pty = str(([g for g in (ops[1][2] or ()) if not str(g).startswith("'")] or ["?"])[-1]).lstrip("&").strip()
                    allowed = {"std::string::String", "str", ity}
                    ctx.check(pty in allowed and ity == sp.get("int_type", "i64"), "D3-TYPE", DISPLAY_SUM, "value-type@bb-in-%s" % sorted(h for h, b in body.loops.items() if e.bb in b),
                              "value printed as %s" % pty,
                              "the value placeholder at %s prints a %s and SummaryValue::I holds %s; integer values must be held and printed as %s, the type from_str parses (a negative size would not survive)"
                              % (body.span_of(e.bb), pty, ity, sp.get("int_type", "i64")), body.span_of(e.bb), nontrivial=False)
                ctx.check(ok, "D3-BINDING", DISPLAY_SUM, "write@bb-in-%s" % sorted(h for h, b in body.loops.items() if e.bb in b),
                          "placeholders bound to (key, value of that key)",
                          "write at %s does not print (key, value) of the current map item in that order" % body.span_of(e.bb), body.span_of(e.bb))
        # D3-EVERY-ENTRY: each entry is printed whatever its value: one line per S / I value, one per element of an A value; no condition
        #                 on the value (empty, repeated, ...) decides whether a line is written
        def writes(p_, blks):
            return [e_ for e_ in p_.events if e_.kind == "call" and e_.path.endswith("write_fmt") and e_.bb in blks]
        def element_lines(e_):
            """e_ is  a.iter().try_for_each(|line| writeln!(f, "{}={}", key, line))  for the list `a` of the current entry: one line per element,
            front to back, unconditionally, each `key=element` (try_for_each stops at the first failed write and hands the error back)"""
            if not (ev_is(e_, "Iterator::try_for_each") and len(e_.args) == 2):
                return False
            it = strip_refs(e_.args[0])
            while isinstance(it, tuple) and it and it[0] == "loc" and len(it) > 2:
                it = strip_refs(it[2])
            clo = strip_refs(e_.args[1])
            if not (is_call(it, "[T]>::iter") and isinstance(clo, tuple) and clo[:2] == ("agg", "closure")):
                return False
            src = strip_refs(call_args(it)[0])
            nx = [s_ for s_ in subterms(src) if is_call(s_, *NEXTS)]
            if not nx:
                return False
            item = ("field", ("downcast", nx[0], "Some"), 0, "0")
            # the list is the A payload of the current item's value
            if not (isinstance(src, tuple) and src[0] == "field" and isinstance(src[1], tuple) and src[1][0] == "downcast" and src[1][2] == "A"
                    and mentions(src[1][1], lambda s_: isinstance(s_, tuple) and len(s_) > 2 and s_[0] == "field" and s_[2] == 1 and s_[1] == item)):
                return False
            cb = ctx.body(clo[2])
            rp = ret_paths(ctx.paths(clo[2]) or [])
            if cb is None or len(rp) != 1 or [fmt_template(x) for x in fmt_sites_in(fx, cb)] != [sp["line_template"]]:
                return False
            q = rp[0]
            ws = [x for x in q.events if x.kind == "call" and x.path.endswith("write_fmt")]
            if len(ws) != 1 or strip_refs(q.end[1]) != strip_refs(ws[0].term) or any(c.term[0] != "discr" for c in q.conds()):
                return False
            arr = [x for x in subterms(ws[0].args[1]) if isinstance(x, tuple) and x[0] == "agg" and x[1] == "array"]
            ops = arr[0][4] if arr else ()
            if not (len(ops) == 2 and all(is_call(o, "::new_display") for o in ops)):
                return False
            k0 = deval(call_args(ops[0])[0])
            if not (isinstance(k0, tuple) and len(k0) > 2 and k0[0] == "field" and deval(k0[1]) == ("param", 1) and isinstance(k0[2], int) and k0[2] < len(clo[4])):
                return False
            cap = clo[4][k0[2]]
            key_ok = mentions(cap, lambda s_: isinstance(s_, tuple) and len(s_) > 2 and s_[0] == "field" and s_[2] == 0 and s_[1] == item) and \
                not mentions(cap, lambda s_: isinstance(s_, tuple) and len(s_) > 2 and s_[0] == "field" and s_[2] == 1 and s_[1] == item)
            return key_ok and deval(call_args(ops[1])[0]) == ("param", 2)
        tfe_seen = []
        outer = [h for h in body.loops if is_outer(loop_driver(body, paths, h) or "")]
        inner = [h for h in body.loops if "slice::Iter" in (loop_driver(body, paths, h) or "") and h not in outer]
        bad_iter = []
        for h in outer + inner:
            blks = body.loops[h]
            nested = set().union(*[body.loops[h2] for h2 in body.loops if h2 != h and body.loops[h2] < blks]) if any(body.loops[h2] < blks for h2 in body.loops if h2 != h) else set()
            for p_ in paths:
                if p_.end[0] != "back" or p_.end[1] != h:
                    continue
                own = [e_ for e_ in writes(p_, blks) if e_.bb not in nested]
                through_inner = any(b_ in nested for b_ in p_.blocks)
                tfe = [e_ for e_ in p_.events if ev_is(e_, "Iterator::try_for_each") and e_.bb in blks and e_.bb not in nested]
                if h in outer and len(own) == 0 and not through_inner and len(tfe) == 1 and element_lines(tfe[0]):
                    tfe_seen.append(tfe[0].bb)
                elif (len(own) != 1 or tfe) and not (h in outer and through_inner and len(own) == 0 and not tfe):
                    bad_iter.append((h, len(own)))
                # conditions inside this iteration other than discriminant tests (which kind, Some/None of next, Ok/Err of the write)
                extra = [c for c in p_.conds() if c.bb in blks and c.term[0] != "discr"]
                if extra:
                    bad_iter.append((h, term_str(extra[0].term)[:60]))
        ctx.check(bool(outer) and not bad_iter, "D3-EVERY-ENTRY", DISPLAY_SUM, "one-line-per-value", "every iteration writes exactly one line, unconditionally",
                  "Display for Summary has an iteration that writes %s lines or is guarded by a condition on the value (%s): some stored values would not be printed, so printing and parsing back loses them"
                  % (bad_iter[0][1] if bad_iter else "?", bad_iter[:2]), fn_span(body))
        # A arm iterates the vector front to back
        a_loops = [h for h in body.loops if "slice::Iter" in (loop_driver(body, paths, h) or "") and h not in outer]
        ctx.check(len(a_loops) >= 1 or bool(tfe_seen), "D3-A-ORDER", DISPLAY_SUM, "list-iteration", "multi-line values are printed by a forward slice iteration",
                  "no forward slice iteration found for multi-line values")
        # (the key sort of the entries vector is what puts the entries in order; it does not touch a value's own elements)
        revs = [t for bb_, t in body.calls() if (t["func"]["path"].endswith("::rev") or "sort" in t["func"]["path"].split("::")[-1]) and not (sv is not None and sv["sorted"] and bb_ in sv["sort_bbs"])]
        ctx.check(not revs, "D3-A-ORDER", DISPLAY_SUM, "no-reorder", "no rev()/sort on values", "values are reordered (%s) before printing" % [t["func"]["path"] for t in revs])

    # ---- D4 kind consistency
    # (i) who may mutate `entries` (shared with C08)
    who_writes(ctx, "D4-WHO-WRITES")

    # (ii)-(iv) accessors (shared with C08)
    accessors(ctx, V, "D4-ACCESSOR", "D4-PAYLOAD")

    # every other call site of the writer/reader primitives anywhere in the crate
    kinds = {v["variant"]: v["kind"] for v in V}
    n = 0
    # (a private helper that did not exist when the rules were written and passes its own `var` parameter on is judged where it is used: it is
    #  inlined into its callers, which are visited because they call it)
    prims = set(WRITERS + tuple(READERS))
    carriers = set()
    for _ in range(3):
        for key, f in fx.bodies():
            if key in ctx.inline_set and not f.get("reachable") and any(b["term"]["k"] == "call" and (b["term"]["func"]["path"] in prims or b["term"]["func"]["path"] in carriers) for b in f["blocks"]):
                carriers.add(key)
    for key, f in fx.bodies():
        if not any(b["term"]["k"] == "call" and (b["term"]["func"]["path"] in prims or b["term"]["func"]["path"] in carriers) for b in f["blocks"]):
            continue
        for (c, var, kind, _, e, p) in method_effect(ctx, key):
            if key in carriers and var is None and mentions(e.args[1], lambda s_: s_[0] == "param"):
                continue
            n += 1
            want = kinds.get(var)
            okk = want is not None and kind == want and (c != WRITERS[1] or kind == "A")
            ctx.check(okk, "D4-KIND", key, "%s(%s)" % (c.split("::")[-1], var),
                      "%s with kind %s" % (var, kind),
                      "%s is called with variable %s and value kind %s; the spec kind of %s is %s%s"
                      % (c, var, kind, var, want, " and insert_or_push requires A" if c == WRITERS[1] else ""),
                      ctx.body(key).span_of(e.bb), nontrivial=False)
    ctx.floor("D4-KIND", "summary", "writer/reader call sites", n, 52)

    # the primitives themselves (shared with C08: last-value / append-in-order)
    primitives(ctx, "D4-PRIMITIVE")

    # ---- D1-PARSE-LINES: the parse half of the round trip: which text is split into lines and at which '=' (C08's D4 rules), which setter
    #      each variable goes to and how an integer is read (C08's D1-DISPATCH), that no line is passed over (D1-EVERY-LINE): shared verdicts
    share_rules(ctx, "C08", ("D4-LINES", "D4-FIRSTSEP", "D4-KEY", "D1-DISPATCH", "D1-EVERY-LINE"), "D1-PARSE-LINES", "<summary::Summary as std::str::FromStr>::from_str", 20)
