"""C08 — pkg_summary parsing accepts exactly complete well-formed entries (structural clauses)."""
from lib import *
from rules.summary_common import *

EXPLANATION = (
    "D1 dispatch table of Summary::from_str: variable V -> the setter/pusher that writes V, accumulate for list variables, overwrite otherwise, integer variables parsed with parse::<i64> and `?`; "
    "each setter/pusher/getter addresses its own variable and carries the value unchanged (D1-ACCESSOR/D1-PAYLOAD), insert_or_update overwrites or inserts on every path (a repeated variable keeps its last value, whatever the value is) and insert_or_push appends (D1-PRIMITIVE); "
    "D2 required-variable sets of from_str, is_completed and the spec agree, Incomplete names the right variable, MissingVariable prints its pkg_summary name; "
    "D3 error kinds (ParseLine for a line without '=', unknown variable / bad integer propagated unchanged); "
    "D4 the line is split at the first '=' (splitn(2,'=')/split_once), key = part 0, value = part 1; what is split is an item of s.lines() over the whole argument, as it is (D4-LINES)")
NOT_DECIDED = [
    "str::lines / str::parse::<i64> semantics (std)",
    "that accumulated order equals input order beyond 'push appends' (D1-PRIMITIVE) and 'lines() is in order' (std)",
]
CONFIG_SENSITIVE = False
DESUGAR = True

MISSING = "summary::MissingVariable"
DISPLAY_MISSING = "<summary::MissingVariable as std::fmt::Display>::fmt"


def run(ctx):
    fx = ctx.fx
    sp = vars_spec()
    V = sp["variables"]
    byvariant = {v["variant"]: v for v in V}
    body = ctx.body(FROMSTR_SUM)
    paths = ctx.paths(FROMSTR_SUM)
    if not paths:
        return

    def key_pred(t):
        return mentions(t, lambda s: is_call(s, FROMSTR_VAR))

    # ---- D1 dispatch + D4 first '='
    rows = {}
    for p in paths:
        if p.end[0] != "back":
            continue
        v = self_discr_variant(fx, p, VAR, key_pred)
        if not isinstance(v, str):
            continue
        rows.setdefault(v, []).append(p)
    for v in V:
        ps = rows.get(v["variant"], [])
        inst = "var=%s" % v["name"]
        if not ps:
            ctx.violation("D1-DISPATCH", FROMSTR_SUM, inst, "no loop path handles variable %s" % v["name"], fn_span(body))
            continue
        for p in ps:
            calls = [e for e in p.events if e.kind == "call" and e.path.startswith("summary::Summary::") and (e.path.split("::")[-1].startswith("set_") or e.path.split("::")[-1].startswith("push_"))]
            want = "summary::Summary::%s%s" % ("push_" if v["kind"] == "A" else "set_", v["stem"])
            ok = len(calls) == 1 and calls[0].path == want
            detail_bad = "line for %s is handled by %s; expected exactly one call to %s (%s)" % (
                v["name"], [c.path.split("::")[-1] for c in calls], want.split("::")[-1], "accumulate" if v["kind"] == "A" else "overwrite")
            if ok:
                e = calls[0]
                # receiver is the summary being built and returned; value = part 1 of the split
                val = e.args[1]
                if v["kind"] == "I":
                    pr = find_calls(val, "str>::parse")
                    okp = len(pr) >= 1 and (pr[0][2] == ("i64",) or "i64" in str(pr[0][2])) and has_try(val)
                    src = call_args(pr[0])[0] if pr else None
                    ok = okp
                    if not okp:
                        detail_bad = "%s value is not produced by parse::<i64>()? (got %s)" % (v["name"], term_str(val))
                else:
                    src = val
                if ok:
                    sp_ = split_part(src)
                    ok = sp_ is not None and sp_["index"] == 1 and sp_["sep"] == "="
                    if not ok:
                        detail_bad = "%s value is %s; expected part 1 of the '=' split of the line" % (v["name"], term_str(src))
            ctx.check(ok, "D1-DISPATCH", FROMSTR_SUM, inst, "%s -> %s(parts[1])" % (v["name"], want.split("::")[-1]), detail_bad,
                      body.span_of(calls[0].bb) if calls else fn_span(body))
    ctx.floor("D1-DISPATCH", FROMSTR_SUM, "dispatch rows", len(rows), 23)

    # key = from_str(parts[0]); split = first '='
    n = 0
    key_split = None
    for p in paths:
        for e in p.calls(FROMSTR_VAR):
            n += 1
            sp_ = split_part(e.args[0])
            ok = sp_ is not None and sp_["index"] == 0
            okfirst = ok and sp_["sep"] == "=" and ((sp_["api"] == "splitn" and sp_["n"] == 2) or sp_["api"] == "split_once")
            key_split = sp_
            ctx.check(ok, "D4-KEY", FROMSTR_SUM, "key-origin", "variable name = part 0 of the split",
                      "variable name is %s, expected part 0 of the '=' split" % term_str(e.args[0]), body.span_of(e.bb), nontrivial=False)
            ctx.check(okfirst, "D4-FIRSTSEP", FROMSTR_SUM, "split", "line.splitn(2, '=')",
                      "the line is split with %s; a value must be everything after the FIRST '=' (splitn(2,'=') or split_once('='))" % ((sp_["api"], sp_["n"], sp_["sep"]) if sp_ else None,),
                      body.span_of(e.bb), nontrivial=False)
            break
    ctx.floor("D4-FIRSTSEP", FROMSTR_SUM, "key parse sites", n, 1)
    # D4-LINES: what is split is a line of the input as it is: an item of s.lines() over the whole argument (not of a trimmed, truncated or
    #           otherwise rewritten copy), and the line itself (not a trimmed copy of it): blanks at the end of a value are part of the value
    if n and key_split is not None:
        from lib import _iter_source
        subj = key_split["subject"]
        isline = isinstance(subj, tuple) and len(subj) > 2 and subj[0] == "field" and subj[2] == 0 and isinstance(subj[1], tuple) and subj[1][0] == "downcast" and subj[1][2] == "Some" \
            and is_call(strip_refs(subj[1][1]), "Lines<'a> as std::iter::Iterator>::next", "str::Lines")
        src = _iter_source(call_args(strip_refs(subj[1][1]))[0]) if isline else None
        whole = is_call(src, "str>::lines") and strip_refs(call_args(src)[0]) == ("param", 1)
        ctx.check(isline and whole, "D4-LINES", FROMSTR_SUM, "lines-of-the-input", "each line of s.lines() is split as it is",
                  "the text that is split at '=' is %s, not a line of the whole input taken with s.lines()" % (term_str(subj)[:100] if not isline else "a line of " + term_str(src)[:80]), fn_span(body))

    # ---- D3 error kinds
    found_parseline = False
    for p in ret_paths(paths):
        er = unwrap_err(p.end[1])
        a = agg_variant(er) if er else None
        if a and a[1] == "ParseLine":
            found_parseline = True
            c = p.conds()[-1] if p.conds() else None
            # guarded by len(parts) != 2, or by split_once(..) == None
            okc = False
            if c and isinstance(c.term, tuple) and c.term[0] == "binop" and c.term[1] in ("Ne", "Eq"):
                l, r = c.term[2], c.term[3]
                lenc = l if is_call(l, "Vec::len") else r
                k = const_int(r) if lenc is l else const_int(l)
                truth = c.fact == ("eq", True)
                okc = is_call(lenc, "Vec::len") and is_call(strip_refs(call_args(lenc)[0]), "::collect") and k == 2 and (truth == (c.term[1] == "Ne"))
            elif c and isinstance(c.term, tuple) and c.term[0] == "discr" and is_call(strip_refs(c.term[1]), "str>::split_once"):
                okc = c.fact == ("eq", 0) or (c.fact[0] == "ne" and 1 in c.fact[1] and 0 not in c.fact[1])
            ctx.check(okc, "D3-PARSELINE", FROMSTR_SUM, "guard", "a line whose split has != 2 parts -> Err(ParseLine(line))",
                      "Err(ParseLine) is not guarded by `parts.len() != 2`", body.span_of(p.blocks[-1]))
    ctx.check(found_parseline, "D3-PARSELINE", FROMSTR_SUM, "present", "ParseLine error path exists",
              "no path returns Err(ParseLine(..)): a line without '=' is not reported as malformed")
    # ---- D1-EVERY-LINE: no line is skipped: every iteration of the line loop that continues has stored a variable (anything else returned an error)
    lb = [p for p in paths if p.end[0] == "back"]
    idle = [p for p in lb if not any(e.kind == "call" and e.path.startswith("summary::Summary::") and e.path.split("::")[-1].startswith(("set_", "push_")) for e in p.events)]
    ctx.check(bool(lb) and not idle, "D1-EVERY-LINE", FROMSTR_SUM, "no-line-skipped", "each line sets a variable or is an error (%d loop paths)" % len(lb),
              "a line can be passed over without setting a variable and without an error (e.g. blank lines are skipped): the parser accepts text that is not a well-formed entry%s"
              % ((" (condition: %s)" % term_str(idle[0].conds()[-1].term)[:80]) if idle and idle[0].conds() else ""), fn_span(body))
    errprop(ctx, FROMSTR_SUM, paths, body, rule="D3-ERRPROP", no_effects_after_error=("::set_", "::push_"), floor=2)

    # ---- D2 required sets
    required = [v for v in V if v["required"]]
    mdisp = display_table(ctx, DISPLAY_MISSING, MISSING)
    for v in required:
        got = mdisp.get(v["variant"])
        ok = got is not None and all(len(g) == 2 and g[1] == v["name"] for g in got)
        ctx.check(ok, "D2-MISSING-NAME", DISPLAY_MISSING, "variant=%s" % v["variant"], "prints ... %s" % v["name"],
                  "MissingVariable::%s prints %s, expected its pkg_summary name %s" % (v["variant"], got, v["name"]))
    mv = enum_variants(fx, MISSING)
    ctx.check(mv == [v["variant"] for v in required], "D2-MISSING-ENUM", MISSING, "variants", "MissingVariable = the 11 required variables",
              "MissingVariable variants %s differ from the required set %s" % (mv, [v["variant"] for v in required]))

    def getter_of(t):
        """is_none(&getter(&sum)) -> getter stem"""
        if is_call(t, "Option::is_none", "Option::is_some"):
            g = strip_refs(call_args(t)[0])
            if is_call(g) and g[1].startswith("summary::Summary::"):
                return g[1].split("::")[-1], mir.norm_path(t[1]).endswith("is_some")
        return None

    stem_of_variant = {v["variant"]: v["stem"] for v in V}

    def presence(c):
        """(stem, present) when the condition says whether a variable is set: getter(sum).is_none()/is_some(), or a lookup of the variable's own key in
        the entry map (entries.contains_key(&V), entries.get(&V).is_some()/is_none()) -- a variable is set exactly when its key has an entry"""
        t = c.term
        if not (c.fact[0] == "eq" and isinstance(c.fact[1], bool)):
            return None
        g = getter_of(t)
        if g:
            return (g[0], c.fact[1] == g[1])
        key = None
        pos = True
        if is_call(t, "HashMap::contains_key") and len(call_args(t)) == 2:
            key = call_args(t)[1]
        elif is_call(t, "Option::is_none", "Option::is_some") and is_call(strip_refs(call_args(t)[0]), "HashMap::get"):
            key = call_args(strip_refs(call_args(t)[0]))[1]
            pos = mir.norm_path(t[1]).endswith("is_some")
        if key is None:
            return None
        kv = agg_variant(strip_refs(key))
        if not kv or kv[1] not in stem_of_variant:
            return None
        return (stem_of_variant[kv[1]], c.fact[1] == pos)

    # from_str validation chain
    tested = []
    for p in ret_paths(paths):
        er = unwrap_err(p.end[1])
        a = agg_variant(er) if er else None
        if not (a and a[1] == "Incomplete"):
            continue
        pl = strip_refs(a[2][0])
        if is_call(pl, "Clone>::clone", "::clone") and call_args(pl):
            pl = strip_refs(call_args(pl)[0])          # a table entry's error value, cloned
        mvv = agg_variant(pl)
        pr = presence(p.conds()[-1])
        tested.append((pr[0] if pr else None, mvv[1] if mvv else None, (not pr[1]) if pr else False))
    by_stem = {v["stem"]: v for v in V}
    for v in required:
        ent = [t for t in tested if t[0] == v["stem"]]
        ok = len(ent) == 1 and ent[0][1] == v["variant"] and ent[0][2]
        ctx.check(ok, "D2-REQUIRED-FROMSTR", FROMSTR_SUM, "var=%s" % v["name"], "missing %s -> Incomplete(%s)" % (v["name"], v["variant"]),
                  "from_str reports a missing %s as %s" % (v["name"], [(t[0], t[1]) for t in ent] or "nothing (not validated)"))
    extra = [t for t in tested if t[0] not in {v["stem"] for v in required}]
    ctx.check(not extra, "D2-REQUIRED-FROMSTR", FROMSTR_SUM, "no-extra", "only the 11 required variables are demanded",
              "from_str also rejects entries lacking optional variables: %s" % extra)
    ctx.floor("D2-REQUIRED-FROMSTR", FROMSTR_SUM, "validation exits", len(tested), 11)
    # the Ok path passed every test, in spec order
    okpaths = [p for p in ret_paths(paths) if unwrap_ok(p.end[1]) is not None]
    ctx.floor("D2-REQUIRED-FROMSTR", FROMSTR_SUM, "Ok-returning paths", len(okpaths), 1)
    for p in okpaths:
        seq = [presence(c)[0] for c in p.conds() if presence(c)]
        ctx.check(seq == [v["stem"] for v in required] and all(presence(c)[1] for c in p.conds() if presence(c)), "D2-ORDER", FROMSTR_SUM, "test-order", "tests run in pkg_summary order",
                  "validation order %s differs from the spec order (the first missing variable must be reported)" % seq, nontrivial=False)
        ctx.check(strip_refs(unwrap_ok(p.end[1])) != ("undef", 0) and find_calls(unwrap_ok(p.end[1]), "Summary::new") != [] or isinstance(unwrap_ok(p.end[1]), tuple),
                  "D2-RETURN", FROMSTR_SUM, "returns-built-summary", "Ok(sum)", "Ok path does not return the summary that was filled", nontrivial=False)

    # is_completed
    IC = "summary::Summary::is_completed"
    ips = ctx.paths(IC)
    if ips:
        ibody = ctx.body(IC)
        sbr = split_bool_returns(ips)
        tr = [p for p in sbr if const_of(p.end[1]) is True]
        fl = [p for p in sbr if const_of(p.end[1]) is False]
        ctx.check(len(tr) == 1, "D2-REQUIRED-COMPLETED", IC, "single-true-path", "exactly one path returns true",
                  "is_completed has %d paths returning true" % len(tr), fn_span(ibody))
        for p in tr:
            seq = []
            good = True
            for c in p.conds():
                g = getter_of(c.term)
                if not g:
                    continue
                truth = c.fact == ("eq", True)
                if g[1]:
                    truth = not truth
                seq.append(g[0])
                if truth:
                    good = False  # true path must see is_none == false for each
            ctx.check(good and sorted(seq) == sorted(v["stem"] for v in required), "D2-REQUIRED-COMPLETED", IC, "true-iff-all-11",
                      "true path tests exactly the 11 required getters as present",
                      "is_completed returns true after testing %s; the required set is %s" % (sorted(seq), sorted(v["stem"] for v in required)), fn_span(ibody))
        for i, p in enumerate(fl):
            c = [c for c in p.conds() if getter_of(c.term)]
            last = c[-1] if c else None
            g = getter_of(last.term) if last else None
            truth = last is not None and ((last.fact == ("eq", True)) != bool(g and g[1]))
            ctx.check(bool(g) and truth and g[0] in {v["stem"] for v in required}, "D2-REQUIRED-COMPLETED", IC, "false-path-%s" % (g[0] if g else i),
                      "false only because a required variable is absent", "is_completed returns false on a path not caused by a missing required variable", fn_span(ibody), nontrivial=False)

    # ---- D1 (continued): what the dispatched setters/pushers do, and what the getters the caller observes return (shared with C07)
    accessors(ctx, V, "D1-ACCESSOR", "D1-PAYLOAD")
    primitives(ctx, "D1-PRIMITIVE")
    who_writes(ctx, "D1-WHO-WRITES")
    # ---- D3 (continued): which keys are variables at all: exactly the 23 names, anything else is ParseVariable (shared with C07)
    parse_rules(ctx, V, "D3-VARNAMES")
