"""C09 — streamed pkg_summary parsing is independent of chunking (structural clauses)."""
from lib import *

EXPLANATION = (
    "D1 every write appends the whole input to the carry-over buffer first and every Ok return reports input.len(); "
    "D2 the records handed to the parser are a prefix of the buffer ending at the LAST \"\\n\\n\" and exactly that many bytes are removed (split_off/drain) - nothing else assigns the buffer; "
    "D3 an incomplete trailing multi-byte character is not an error: UTF-8 validation either covers only the prefix that ends at a separator found on bytes, or its Err edge consults Utf8Error::error_len()/valid_up_to(); "
    "D4 a malformed entry surfaces as io::Error(InvalidData) and entries are appended in splitter order, nothing after the error; "
    "D5 Display for SummaryStream prints \"{entry}\\n\" per entry in entries() order"
    " The last-separator search is windows(len(SEP)).rposition(== SEP) over the whole carry-over buffer.")
NOT_DECIDED = [
    "equality of the collected entries with the one-call parse for every partition (follows from D1-D3 plus str semantics, not re-derived)",
    "behaviour after a failed write (the property does not constrain it)",
]
CONFIG_SENSITIVE = False
DESUGAR = True

W = "<summary::SummaryStream as std::io::Write>::write"
SEP = "\n\n"


def is_buf(t):
    return mentions(t, lambda s: s[0] == "field" and s[3] == "buf" and strip_refs(s[1]) == ("param", 1))


def run(ctx):
    fx = ctx.fx
    paths = ctx.paths(W)
    body = ctx.body(W)
    if paths:
        rets = ret_paths(paths)
        # ---- D1
        for i, p in enumerate(paths):
            if p.end[0] == "unreachable":
                continue
            calls = [e for e in p.events if e.kind == "call"]
            first = calls[0] if calls else None
            ok = first is not None and ev_is(first, "Vec::extend_from_slice", "Vec::extend") and is_buf(first.args[0]) and strip_refs(first.args[1]) == ("param", 2)
            if not ok:
                ctx.violation("D1-APPEND-FIRST", W, "path-%d" % i, "a path does not start by appending the whole input to the carry-over buffer", fn_span(body))
                break
        else:
            ctx.ok("D1-APPEND-FIRST", W, "all-paths", "buf.extend_from_slice(input) is the first effect on every path", fn_span(body))
        oks = [p for p in rets if unwrap_ok(p.end[1]) is not None]
        ctx.floor("D1-CONSUMED", W, "Ok paths", len(oks), 2)
        for i, p in enumerate(oks):
            v = unwrap_ok(p.end[1])
            ok = is_call(v, "::len") and strip_refs(call_args(v)[0]) == ("param", 2)
            ctx.check(ok, "D1-CONSUMED", W, "ok-path-%d" % i, "Ok(input.len())", "an Ok return reports %s instead of input.len()" % term_str(v), fn_span(body))

        # ---- D2 / D3
        def last_sep_search(t):
            """does t contain a last-occurrence search for the separator? returns (call term, on_bytes)"""
            for s in subterms(t):
                if is_call(s, "str>::rfind") and const_str(call_args(s)[1]) == SEP:
                    return s, False
                if is_call(s, "::rposition"):
                    # buf.windows(len(SEP)).rposition(|w| w == SEP): the windows are SEP-sized and the predicate is equality with SEP itself
                    it = strip_refs(call_args(s)[0])
                    for _ in range(4):
                        if isinstance(it, tuple) and it and it[0] == "loc" and len(it) > 2:
                            it = strip_refs(it[2])
                    clo = strip_refs(call_args(s)[1]) if len(call_args(s)) > 1 else None
                    # ... over the whole carry-over buffer (a separator can straddle two writes: searching only the new chunk misses it)
                    okw = is_call(it, "[T]>::windows") and const_int(call_args(it)[1]) == len(SEP) and \
                        carried_unchanged(call_args(it)[0], lambda u: isinstance(u, tuple) and u[0] == "field" and u[3] == "buf" and deval(u[1]) == ("param", 1))
                    okp = False
                    if isinstance(clo, tuple) and clo[:2] == ("agg", "closure"):
                        rp = ret_paths(ctx.paths(clo[2]) or [])
                        if len(rp) == 1:
                            q = eq_call(rp[0].end[1])
                            if q is not None and not q[0]:
                                a_, b_ = deval(q[1]), deval(q[2])
                                okp = (a_ == ("param", 2) and const_bytes(b_) == SEP) or (b_ == ("param", 2) and const_bytes(a_) == SEP)
                    if okw and okp:
                        return s, True
                    continue
                if is_call(s, "memchr::memmem::rfind", "memrchr"):
                    return s, True
            return None, None

        # splitter subject
        splitters = [e for p in paths for e in p.events if ev_is(e, "str>::split_terminator", "str>::split") and (const_str(e.args[1]) == SEP)]
        ctx.floor("D2-PREFIX", W, "record splitter calls", len(splitters), 1)
        subj = strip_refs(splitters[0].args[0]) if splitters else None
        if subj is not None:
            srch, on_bytes = last_sep_search(subj)
            okp = srch is not None and is_buf(subj)
            plus2 = mentions(subj, lambda s: s[0] == "binop" and s[1] == "Add" and const_int(s[3]) == len(SEP) and mentions(s[2], lambda u: u == srch))
            ctx.check(okp and plus2, "D2-PREFIX", W, "records=prefix-to-last-separator", "records = buf[..last \"\\n\\n\" + 2]",
                      "the text handed to the record splitter is not the buffer prefix ending just after the LAST \"\\n\\n\" (got %s)" % term_str(subj)[:200], fn_span(body))
        stores = [e for p in paths for e in p.events if e.kind == "store" and is_buf(e.place) and not mentions(e.place, lambda s: s[0] == "field" and s[3] == "entries")]
        drains = [e for p in paths for e in p.events if ev_is(e, "Vec::drain", "Vec::truncate", "Vec::clear") and is_buf(e.args[0])]
        seen = set()
        n = 0
        for e in stores:
            if e.bb in seen:
                continue
            seen.add(e.bb)
            n += 1
            v = e.value
            ok = is_call(v, "Vec::split_off") and is_buf(call_args(v)[0])
            if ok and subj is not None:
                cut = call_args(v)[1]
                same = (is_call(cut, "str>::len") and strip_refs(call_args(cut)[0]) == subj) or mentions(subj, lambda s: s == cut)
                ok = same
            ctx.check(ok, "D2-CARRY", W, "buf-assignment", "buf = buf.split_off(len of the parsed prefix)",
                      "the carry-over buffer is assigned %s: it must drop exactly the bytes that were handed to the parser" % term_str(v)[:160], body.span_of(e.bb))
        ctx.check(n + len({e.bb for e in drains}) >= 1, "D2-CARRY", W, "consumes-prefix", "the parsed prefix is removed from the buffer",
                  "the parsed records are never removed from the carry-over buffer", fn_span(body))
        for e in drains:
            if ev_is(e, "Vec::clear", "Vec::truncate"):
                ctx.violation("D2-CARRY", W, "buf-cleared", "the carry-over buffer is cleared/truncated: an incomplete trailing record would be lost", body.span_of(e.bb))
        # D3
        vals = {}
        for p in paths:
            for e in p.events:
                if ev_is(e, "str::from_utf8", "core::str::from_utf8", "String::from_utf8", "from_utf8_lossy", "from_utf8_unchecked"):
                    vals.setdefault(e.bb, (e, []))[1].append(p)
        ctx.floor("D3-UTF8", W, "UTF-8 validation sites", len(vals), 1)
        for bb, (e, ps) in sorted(vals.items()):
            arg = strip_refs(e.args[0])
            whole = is_buf(arg) and last_sep_search(arg)[0] is None and not mentions(arg, lambda s: is_index_call(s) or is_call(s, "::get", "::split_at"))
            if ev_is(e, "from_utf8_lossy", "from_utf8_unchecked"):
                ctx.violation("D3-UTF8", W, "validation", "%s is used on the carry-over buffer" % e.name.split("::")[-1], body.span_of(bb))
                continue
            if not whole:
                srch, on_bytes = last_sep_search(arg)
                if mentions(arg, lambda s: is_call(s, "Utf8Error::valid_up_to")):
                    ctx.ok("D3-UTF8-CARRY", W, "validated-slice-up-to-valid", "re-validation of the prefix reported valid by the first attempt", body.span_of(bb))
                    continue
                ctx.check(srch is not None and on_bytes, "D3-UTF8-CARRY", W, "validated-slice", "only complete records (up to a separator found on bytes) are validated",
                          "UTF-8 validation covers a slice not delimited by a byte-level separator search", body.span_of(bb))
                continue
            # whole buffer validated: the Err edge must look at error_len / valid_up_to
            consult = False
            errret = False
            for p in ps:
                c = [c for c in p.conds() if c.term == ("discr", e.term)]
                if c and (c[0].fact == ("eq", 1) or (c[0].fact[0] == "ne" and 0 in c[0].fact[1])):
                    if any(ev_is(x, "Utf8Error::error_len", "Utf8Error::valid_up_to") for x in p.events):
                        consult = True
                    elif p.end[0] == "return" and unwrap_err(p.end[1]) is not None:
                        errret = True
            ctx.check(consult and not errret, "D3-UTF8-CARRY", W, "whole-buffer-validation",
                      "the Err edge distinguishes an incomplete trailing character",
                      "the whole carry-over buffer is validated with from_utf8 and its Err edge returns an error without consulting Utf8Error::error_len()/valid_up_to(): "
                      "a chunk boundary inside a multi-byte character makes write() fail although the stream is well formed", body.span_of(bb))

        # ---- D4
        errs = [p for p in rets if unwrap_err(p.end[1]) is not None]
        for i, p in enumerate(errs):
            er = unwrap_err(p.end[1])
            ok = is_call(er, "io::Error::new", "std::io::Error::new") and agg_variant(call_args(er)[0]) and agg_variant(call_args(er)[0])[1] == "InvalidData"
            ctx.check(ok, "D4-INVALIDDATA", W, "err-path-%d" % i, "Err(io::Error::new(InvalidData, ..))", "an error path does not return io::Error of kind InvalidData", fn_span(body), nontrivial=False)
        # ... decided by the result of Summary::from_str (matched directly, through `?`, or through map_err(..)?)
        fs = [p for p in errs if any(c.term[0] == "discr" and mentions(c.term[1], lambda s: is_call(s, "Summary as std::str::FromStr>::from_str")) for c in p.conds())]
        ctx.check(bool(fs), "D4-MALFORMED", W, "parse-error-surfaces", "a Summary::from_str failure returns Err", "a malformed entry does not make write() fail", fn_span(body))
        errprop(ctx, W, paths, body, rule="D4-ERRPROP", no_effects_after_error=("Vec::push",), floor=1, skip=("Vec::split_off", "from_utf8"))
        backs = [p for p in paths if p.end[0] == "back"]
        ok = bool(backs)
        for p in backs:
            pu = [e for e in p.events if ev_is(e, "Vec::push") and mentions(e.args[0], lambda s: s[0] == "field" and s[3] == "entries")]
            ok = ok and len(pu) == 1 and bool(find_calls(pu[0].args[1], "Summary as std::str::FromStr>::from_str")) and mentions(pu[0].args[1], lambda s: is_call(s, "::next"))
        ctx.check(ok, "D4-ORDER", W, "push-in-splitter-order", "entries.push(Summary::from_str(record)) per record, in order",
                  "entries are not appended once per record in splitter order", fn_span(body))
        only_appended(ctx, "D4-ORDER", W, "self.entries", lambda t: mentions(t, lambda s: s[0] == "field" and s[3] == "entries"), allowed=("push", "extend", "extend_from_slice", "append"))
        revs = [t for _, t in body.calls() if t["func"]["path"].endswith("::rev") or t["func"]["path"].endswith("::rsplit") or t["func"]["path"].endswith("::rsplit_terminator")]
        ctx.check(not revs, "D4-ORDER", W, "forward", "records are visited front to back", "records are visited in reverse", fn_span(body), nontrivial=False)

    # ---- D5
    DS = "<summary::SummaryStream as std::fmt::Display>::fmt"
    paths = ctx.paths(DS)
    body = ctx.body(DS)
    if paths:
        sites = fmt_sites_in(fx, body)
        tm = [fmt_template(s) for s in sites]
        ctx.check(tm == ["{0}\n"], "D5-PRINT", DS, "template", "\"{}\\n\" per entry", "stream printing uses templates %s, expected [\"{0}\\n\"] (each entry followed by one blank line)" % tm, fn_span(body))
        backs = [p for p in paths if p.end[0] == "back"]
        ok = bool(backs)
        for p in backs:
            w = [e for e in p.events if ev_is(e, "write_fmt")]
            nx = [e for e in p.events if e.kind == "call" and e.name.endswith("::next") and e.bb in body.loops]
            ok = ok and len(w) == 1 and bool(nx) and mentions(w[0].args[1], lambda s: s == nx[0].term) and \
                mentions(nx[0].args[0], lambda s: is_call(s, "SummaryStream::entries") or (s[0] == "field" and s[3] == "entries")) and not mentions(nx[0].args[0], lambda s: is_call(s, "::rev"))
        ctx.check(ok, "D5-PRINT", DS, "per-entry-in-order", "one write per entry, in entries() order", "Display does not print every entry of entries() once, in order", fn_span(body))
        errprop(ctx, DS, paths, body, rule="D5-ERRPROP", no_effects_after_error=("write_fmt",), floor=1)

    # ---- the accessor through which the collected entries are observed
    accessor_faithful(ctx, "D1-ACCESSOR", "summary::SummaryStream::entries", "entries")

    # ---- D4-ENTRY-VALIDITY: "a write no later than the one that completes a malformed entry fails" rests on Summary::from_str rejecting what is
    #      malformed: its required-variable checks and line rules (C08's D2-REQUIRED-FROMSTR / D2-ORDER / D3-PARSELINE verdicts, shared)
    share_rules(ctx, "C08", ("D2-REQUIRED-FROMSTR", "D2-ORDER", "D3-PARSELINE"), "D4-ENTRY-VALIDITY", "<summary::Summary as std::str::FromStr>::from_str", 6)

