"""C10 — distinfo files round-trip byte-exactly, including non-UTF-8 names (structural clauses)."""
from lib import *
from rules.distinfo_common import *
from rules.c14 import bytews_sites
from rules.c11 import classification_rules

EXPLANATION = (
    "D1 no lossy conversion (Path::display / to_string_lossy / from_utf8_lossy) reaches the output of Entry::as_bytes / Distinfo::as_bytes: the file name hole of every line is raw bytes; "
    "D2 the reader takes the name as raw bytes between the parentheses and the RCS Id as the raw line, and splits fields on bytes (no u8-as-char Unicode predicate); "
    "D3 line shapes: checksum line = [digest] \" (\" [name] \") = \" [hash] \"\\n\", size line = \"Size (\" [name] \") = \" [size] \" bytes\\n\", identical in Entry::as_bytes and Distinfo::as_bytes; "
    "the reader's field positions (keyword 0, name 1, value 3) and its size keyword are derived from the writer's shapes and must agree; "
    "D4 layout: the distfile/patchfile classification equals the naming rule on every feasible predicate assignment and is applied to the lossless-for-ASCII file name (rule shared with C11); header (rcsid or $NetBSD$, blank line), then distfiles (checksum lines then size line), then patchfiles (checksum lines), loops driven by the maps' values() in order; field tests may be `field == k` or the arm k of `match field`, the name cut `s[1..len-1]` under s[0]=='(' && s[len-1]==')' or strip_prefix(b\"(\") then strip_suffix(b\")\")"
    " D1-DIGEST-NAME the algorithm name written with Digest's Display is read back by Digest::from_str: C13's D2-DISPLAY / D2-ROUNDTRIP / D2-PARSE verdicts are shared instances."
    " D4-INSERT Distinfo::insert files an entry under its own filename in the map of its own kind.")
NOT_DECIDED = [
    "byte-exact equality for every canonical file (std formatting of u64, IndexMap semantics)",
    "sizes on patch entries are not written (the canonical layout has none)",
]
CONFIG_SENSITIVE = False
DESUGAR = True

EAB = "distinfo::Entry::as_bytes"
DAB = "distinfo::Distinfo::as_bytes"
LOSSY_CALLS = ("Path::display", "to_string_lossy", "from_utf8_lossy")


def hole_role(t):
    """classify the value printed in a placeholder / raw extend"""
    lossy = mentions(t, lambda s: is_call(s, *LOSSY_CALLS))
    if mentions(t, lambda s: s[0] == "field" and s[3] == "filename"):
        return ("name", "lossy" if lossy else ("raw" if mentions(t, lambda s: (is_call(s, "::as_bytes") and "OsStr" in s[1]) or is_call(s, "::as_encoded_bytes")) else "display"))
    if mentions(t, lambda s: s[0] == "field" and s[3] == "digest"):
        return ("digest", "display")
    if mentions(t, lambda s: s[0] == "field" and s[3] == "hash"):
        return ("hash", "display")
    if mentions(t, lambda s: (s[0] == "field" and s[3] == "size") or (s[0] == "downcast" and isinstance(s[1], tuple) and mentions(s[1], lambda u: u[0] == "field" and u[3] == "size"))):
        return ("size", "display")
    if mentions(t, lambda s: is_call(s, "Distinfo::rcsid") or (s[0] == "field" and s[3] == "rcsid")):
        return ("rcsid", "lossy" if lossy else "raw")
    return ("?", "lossy" if lossy else "?")


def extend_tokens(fx, body, e):
    """token list for one extend_from_slice event: ('lit', text) and ('hole', role, encoding)"""
    a = e.args[1]
    lit = const_str(a)
    if lit is None:
        b = const_bytes(a)
        lit = b
    if lit is None and is_call(strip_refs(a), "str>::as_bytes", "String::as_bytes"):
        inner = strip_refs(call_args(strip_refs(a))[0])
        lit = const_str(inner)
        if lit is None:
            an = find_calls(inner, "Arguments::new", "Arguments::from_str")
            if an:
                bb = None
                # locate the MIR block of the Arguments::new call: its site id
                bb = an[0][4]
                if is_call(an[0], "Arguments::from_str"):
                    return [("lit", const_str(call_args(an[0])[0]) or "?")]
                site = fmt_site_for_call(fx, body, bb) if bb is not None else None
                args = fmt_call_args(an[0])
                toks = []
                if site is None:
                    return [("hole", "?", "?")]
                for pc in site["pieces"]:
                    if "lit" in pc:
                        toks.append(("lit", pc["lit"]))
                    else:
                        i = pc["arg"]
                        role = hole_role(args[i][1]) if 0 <= i < len(args) else ("?", "?")
                        enc = role[1]
                        if pc["trait"] != "Display" or pc.get("width") is not None or pc.get("precision") is not None:
                            enc = "fmt:" + pc["trait"]
                        toks.append(("hole", role[0], enc))
                return toks
    if lit is not None:
        return [("lit", lit)]
    role = hole_role(a)
    return [("hole", role[0], role[1])]


def merge(tokens):
    out = []
    for t in tokens:
        if t[0] == "lit" and out and out[-1][0] == "lit":
            out[-1] = ("lit", out[-1][1] + t[1])
        else:
            out.append(t)
    return out


def shape_str(tokens):
    return "".join(t[1] if t[0] == "lit" else "[%s]" % t[1] for t in tokens)


def source_of_loop(p, body, header):
    """field name (distfiles/patchfiles/checksums) the loop at `header` iterates, read from the path's next() call"""
    for e in p.events:
        if e.kind == "call" and e.bb == header and e.name.endswith("::next"):
            nm = top_field(e.args[0])
            return nm if nm in ("distfiles", "patchfiles", "checksums") else "?"
    return None


def delegate_of(ctx, e):
    """the crate-local writer a call event hands the work to, or None: `out.extend_from_slice(&x.as_bytes())` (a function returning the bytes)
    or `x.append_lines(&mut out)` (a function given the buffer): its lines are written at this point, under this loop nest"""
    fx = ctx.fx
    if ev_is(e, "Vec::extend_from_slice", "Vec::extend", "Vec::append"):
        a = content(e.args[1]) if len(e.args) > 1 else None
        if is_call(a):
            k = a[1] if a[1] in fx.fns else mir.norm_path(a[1])
            if k in fx.fns and fx.fns[k]["kind"] in ("Fn", "AssocFn") and "Vec<u8>" in fx.fns[k]["ret_ty"]:
                return k
        return None
    k = e.path if e.path in fx.fns else e.name
    if k in fx.fns and fx.fns[k]["kind"] in ("Fn", "AssocFn") and any("Vec<u8>" in l["ty"] and l["ty"].startswith("&mut") for l in fx.fns[k]["locals"][1:1 + fx.fns[k]["arg_count"]]):
        return k
    return None


def collect_shapes(ctx, fn, _stack=()):
    """{loop signature: set of shape strings}, plus hole encodings, for all extend sites in fn (and, spliced in under the same loop nest,
    in the crate-local writers it delegates to)"""
    fx = ctx.fx
    body = ctx.body(fn)
    paths = ctx.paths(fn)
    shapes = {}
    holes = {}
    if not paths:
        return shapes, holes, body
    for p in paths:
        groups = {}
        for e in p.events:
            if e.kind != "call":
                continue
            dk = delegate_of(ctx, e) if fn not in _stack and len(_stack) < 3 else None
            if dk is not None and dk != fn:
                chain = loop_chain(body, e.bb)
                sig = tuple(source_of_loop(p, body, h) for h in chain)
                sub_shapes, sub_holes, _ = collect_shapes(ctx, dk, _stack + (fn,))
                for sig2, ss in sub_shapes.items():
                    shapes.setdefault(sig + sig2, set()).update(ss)
                for (sig2, role), encs in sub_holes.items():
                    holes.setdefault((sig + sig2, role), set()).update(encs)
                continue
            if not ev_is(e, "Vec::extend_from_slice", "Vec::extend", "Vec::push"):
                continue
            chain = loop_chain(body, e.bb)
            sig = tuple(source_of_loop(p, body, h) for h in chain)
            groups.setdefault(sig, []).extend(extend_tokens(fx, body, e))
        # only complete iterations count for loop-bodies: a path ending at the back edge of the innermost loop, or a return for top level
        for sig, toks in groups.items():
            complete = (p.end[0] == "back") or (p.end[0] == "return")
            if not complete:
                continue
            m = merge(toks)
            shapes.setdefault(sig, set()).add(shape_str(m))
            for t in m:
                if t[0] == "hole":
                    holes.setdefault((sig, t[1]), set()).add(t[2])
    return shapes, holes, body


def run(ctx):
    fx = ctx.fx
    sp = spec("distinfo.json")
    CK = "[digest] ([name]) = [hash]\n"
    SZ = "Size ([name]) = [size] bytes\n"

    # which section a name is written in is decided by the distfile/patchfile classification, which must therefore be byte-faithful (shared with C11 D1)
    classification_rules(ctx, sp, P="D4-")

    es, eh, ebody = collect_shapes(ctx, EAB)
    ds, dh, dbody = collect_shapes(ctx, DAB)

    # ---- D3 shapes
    def expect(fn, shapes, sig, allowed, what, body):
        got = shapes.get(sig, set())
        ctx.check(bool(got) and got <= allowed, "D3-SHAPE", fn, "%s@%s" % (what, "/".join(sig) or "top"),
                  "%s" % sorted(got), "%s at %s writes %s; expected %s" % (what, "/".join(sig) or "top level", sorted(got), sorted(allowed)), fn_span(body))
    if ebody:
        expect(EAB, es, ("checksums",), {CK}, "checksum-line", ebody)
        expect(EAB, es, (), {SZ, ""}, "size-line", ebody)
        ctx.check(SZ in es.get((), set()), "D3-SHAPE", EAB, "size-line-present", "size line is written when a size is recorded", "Entry::as_bytes never writes the size line", fn_span(ebody), nontrivial=False)
    if dbody:
        expect(DAB, ds, ("distfiles", "checksums"), {CK}, "checksum-line", dbody)
        expect(DAB, ds, ("patchfiles", "checksums"), {CK}, "checksum-line", dbody)
        got = {s for s in ds.get(("distfiles",), set())}
        ctx.check(SZ in got and got <= {SZ, ""}, "D3-SHAPE", DAB, "size-line@distfiles", "%s" % sorted(got),
                  "distfile size line is %s; expected %r" % (sorted(got), SZ), fn_span(dbody))
        gotp = {s for s in ds.get(("patchfiles",), set()) if s}
        ctx.check(not gotp, "D4-LAYOUT", DAB, "no-size@patchfiles", "patch entries have no size line", "patch entries write %s outside their checksum lines" % sorted(gotp), fn_span(dbody))
        hdr = ds.get((), set())
        want_hdr = {"[rcsid]" + sp["header_separator"], sp["rcsid_default"] + sp["header_separator"]}
        ctx.check(hdr == want_hdr, "D4-LAYOUT", DAB, "header", "%s" % sorted(hdr), "file header is %s; expected %s" % (sorted(hdr), sorted(want_hdr)), fn_span(dbody))
        extra = set(ds) - {(), ("distfiles",), ("patchfiles",), ("distfiles", "checksums"), ("patchfiles", "checksums")}
        ctx.check(not extra, "D4-LAYOUT", DAB, "no-other-writers", "only header, distfile and patchfile sections write", "unexpected write sections %s" % sorted(extra), fn_span(dbody))
        # D4-EVERY: nothing recorded is left out: every iteration of a checksum loop writes its line, and whenever a size is recorded its line
        #           is written; no property of the value (an empty hash, a zero size) decides whether a line appears
        for wfn in (EAB, DAB):
            wb = ctx.body(wfn)
            wps = ctx.paths(wfn) or []
            if wb is None:
                continue
            idle = []
            for h in wb.loops:
                backs_h = [p for p in wps if p.end[0] == "back" and p.end[1] == h]
                if not backs_h or not any(source_of_loop(p, wb, h) == "checksums" for p in backs_h):
                    continue
                for p in backs_h:
                    wrote = [e for e in p.events if e.kind == "call" and e.bb in wb.loops[h] and (ev_is(e, "Vec::extend_from_slice", "Vec::extend", "Vec::push") or delegate_of(ctx, e) is not None)]
                    if not wrote:
                        idle.append(("checksum", term_str(p.conds()[-1].term)[:70] if p.conds() else ""))
            # size: on every path (iteration) where the entry's size is Some, a "Size (" line is written or the entry is delegated
            for p in wps:
                if p.end[0] not in ("back", "return"):
                    continue
                szc = [c for c in p.conds() if c.term[0] == "discr" and mentions(c.term[1], lambda s_: s_[0] == "field" and s_[3] == "size") and
                       (c.fact == ("eq", 1) or (c.fact[0] == "ne" and 0 in c.fact[1]))]
                if not szc:
                    continue
                # patch entries' sizes are deliberately not written by Distinfo::as_bytes: only the distfiles loop / Entry::as_bytes is concerned
                chain = [source_of_loop(p, wb, h) for h in loop_chain(wb, szc[-1].bb)]
                if wfn == DAB and "distfiles" not in chain:
                    continue
                has_size = any(e.kind == "call" and ev_is(e, "Vec::extend_from_slice", "Vec::extend") and any(t[0] == "lit" and "Size (" in t[1] for t in extend_tokens(fx, wb, e)) for e in p.events)
                if not has_size and not any(e.kind == "call" and delegate_of(ctx, e) is not None for e in p.events):
                    idle.append(("size", term_str(p.conds()[-1].term)[:70] if p.conds() else ""))
            ctx.check(not idle, "D4-EVERY", wfn, "every-recorded-value-written", "every checksum and every recorded size is written unconditionally",
                      "%s can leave out a %s line of an entry that records it (decided by %s): the written file no longer carries everything that was assembled or parsed"
                      % (wfn, idle[0][0] if idle else "?", idle[0][1] if idle else "?"), fn_span(wb), nontrivial=False)
        # order of sections: distfiles loop before patchfiles loop; checksum loop before the size line
        paths = ctx.paths(DAB)
        hd = {}
        for p in paths:
            for h in dbody.loops:
                s_ = source_of_loop(p, dbody, h)
                if s_ and s_ != "?":
                    outer = [x for x in loop_chain(dbody, h) if x != h]
                    o = source_of_loop(p, dbody, outer[0]) if outer else None
                    hd[(o, s_)] = h
        a, b = hd.get((None, "distfiles")), hd.get((None, "patchfiles"))
        ctx.check(a is not None and b is not None and dbody.dominates(a, b) and b not in dbody.loops[a], "D4-LAYOUT", DAB, "distfiles-before-patchfiles",
                  "distfiles section precedes patchfiles section", "the patchfiles section is not written after the whole distfiles section", fn_span(dbody))
        szb = [e.bb for p in paths for e in p.events if ev_is(e, "Vec::extend_from_slice") and tuple(source_of_loop(p, dbody, h) for h in loop_chain(dbody, e.bb)) == ("distfiles",)
               and delegate_of(ctx, e) is None]
        ck = hd.get(("distfiles", "checksums"))
        dels = {delegate_of(ctx, e) for p in paths for e in p.events if e.kind == "call" and tuple(source_of_loop(p, dbody, h) for h in loop_chain(dbody, e.bb)) == ("distfiles",)} - {None}
        if not szb and ck is None and len(dels) == 1:
            # each distfile entry is written by a delegate (e.g. Entry::as_bytes): the order is decided there
            dk = next(iter(dels))
            kb = ctx.body(dk)
            kps = ctx.paths(dk) or []
            kck = [h for h in (kb.loops if kb else {}) if any(source_of_loop(p, kb, h) == "checksums" for p in kps)]
            ksz = [e.bb for p in kps for e in p.events if ev_is(e, "Vec::extend_from_slice") and not loop_chain(kb, e.bb) and delegate_of(ctx, e) is None]
            kdl = [e.bb for p in kps for e in p.events if e.kind == "call" and delegate_of(ctx, e) is not None and not loop_chain(kb, e.bb)]
            first = (kck or kdl)
            ctx.check(bool(ksz) and bool(first) and all(kb.dominates(first[0], x) for x in ksz), "D4-LAYOUT", DAB, "checksums-before-size",
                      "checksum lines precede the size line (in %s)" % dk.split("::")[-1], "in %s the size line is not written after the entry's checksum lines" % dk, fn_span(kb) if kb else "")
        else:
            # where the checksum lines of a distfile are written: the inner loop, or the call of a delegate that writes them
            ckpos = [ck] if ck is not None else []
            if not ckpos:
                for p in paths:
                    for e in p.events:
                        if e.kind == "call" and tuple(source_of_loop(p, dbody, h) for h in loop_chain(dbody, e.bb)) == ("distfiles",):
                            dk_ = delegate_of(ctx, e)
                            if dk_ is not None and any("checksums" in sig2 for sig2 in collect_shapes(ctx, dk_)[0]):
                                ckpos.append(e.bb)
            ctx.check(bool(szb) and bool(ckpos) and all(dbody.dominates(ckpos[0], x) for x in szb), "D4-LAYOUT", DAB, "checksums-before-size",
                      "checksum lines precede the size line", "the size line is not written after the entry's checksum lines", fn_span(dbody))
        # loops are driven by values() of the maps / the checksum vector, front to back
        for p in paths:
            for e in p.events:
                if e.kind == "call" and e.name.endswith("::next") and e.bb in dbody.loops:
                    bad = mentions(e.args[0], lambda s: is_call(s, "::rev", "::sorted", "::sort"))
                    ctx.check(not bad, "D4-LAYOUT", DAB, "forward-iteration@%s" % source_of_loop(p, dbody, e.bb), "forward iteration", "a section iterates in reverse/sorted order", dbody.span_of(e.bb), nontrivial=False)
            break

    # sibling agreement
    if ebody and dbody:
        ctx.check(es.get(("checksums",)) == ds.get(("distfiles", "checksums")) == ds.get(("patchfiles", "checksums")), "D3-SIBLINGS", "distinfo", "checksum-line",
                  "Entry::as_bytes and both loops of Distinfo::as_bytes agree", "checksum line shapes differ between Entry::as_bytes and Distinfo::as_bytes")
        ctx.check((es.get((), set()) - {""}) == (ds.get(("distfiles",), set()) - {""}), "D3-SIBLINGS", "distinfo", "size-line",
                  "size line shapes agree", "size line shapes differ between Entry::as_bytes and Distinfo::as_bytes")

    # ---- D1 LOSSY
    n = 0
    for fn, holes, body in ((EAB, eh, ebody), (DAB, dh, dbody)):
        if not body:
            continue
        for (sig, role), encs in sorted(holes.items()):
            if role not in ("name", "rcsid"):
                continue
            n += 1
            ctx.check(encs == {"raw"}, "D1-LOSSY", fn, "%s@%s" % (role, "/".join(sig) or "top"), "raw bytes",
                      "the %s is written through %s: a name that is not valid UTF-8 does not round-trip (it must be written as raw bytes, e.g. as_os_str().as_bytes())"
                      % ("file name" if role == "name" else "RCS Id", sorted(encs)), fn_span(body))
    ctx.floor("D1-LOSSY", "distinfo", "name/rcsid holes", n, 6)

    # ---- D2 reader
    paths = ctx.paths(LFB)
    body = ctx.body(LFB)
    if paths:
        n = bytews_sites(ctx, LFB, rule="D2-BYTEWS")
        for ck in fx.find(r"distinfo::Line::from_bytes::\{closure#\d+\}"):
            n += bytews_sites(ctx, ck, rule="D2-BYTEWS")
        # field loop: which field index triggers which effect
        # reader state by role: the locals that end up in Line::Checksum(digest, PATH, VALUE), the String parsed as the
        # keyword/digest name (ACTION), and the integer counter compared with constants (FIELD)
        lname = {}
        for p_ in ret_paths(paths):
            a_ = agg_variant(p_.end[1])
            if a_ and a_[0] == LINE and a_[1] == "Checksum":
                for t_, role in ((a_[2][1], "path"), (a_[2][2], "value")):
                    if isinstance(t_, tuple) and t_[0] in ("havoc", "mutated"):
                        lname[t_[1]] = role
            for e_ in p_.calls("Digest as std::str::FromStr>::from_str"):
                for s_ in subterms(e_.args[0]):
                    if s_[0] in ("havoc", "mutated") and body.f["locals"][s_[1]]["ty"] == "std::string::String":
                        lname[s_[1]] = "action"
        for p_ in paths:
            for c_ in p_.conds():
                ae_ = asserts_eq_const(c_)
                t_ = c_.term
                if ae_ is not None and isinstance(ae_[0], tuple) and ae_[0][0] == "havoc" and body.f["locals"][ae_[0][1]]["ty"] in ("i32", "usize", "u32", "i64", "u8", "u64", "isize"):
                    lname[ae_[0][1]] = "field"
                elif isinstance(t_, tuple) and t_[0] == "binop" and t_[1] == "Eq" and isinstance(t_[2], tuple) and t_[2][0] == "havoc" and const_int(t_[3]) is not None \
                        and body.f["locals"][t_[2][1]]["ty"] in ("i32", "usize", "u32", "i64", "u8", "u64", "isize"):
                    lname[t_[2][1]] = "field"
        def enum_index_of_nonempty_fields(t):
            """t is the index that .enumerate() gives the current field, where what is enumerated is the split of the line with the empty pieces
            already filtered out (so that the index counts non-empty fields, like a counter stepped only for them)"""
            t = deval(t)
            if not (isinstance(t, tuple) and len(t) > 2 and t[0] == "field" and t[2] == 0 and isinstance(t[1], tuple) and t[1][0] == "field" and t[1][2] == 0
                    and isinstance(t[1][1], tuple) and t[1][1][0] == "downcast" and t[1][1][2] == "Some" and is_call(strip_refs(t[1][1][1]), "Enumerate<I> as std::iter::Iterator>::next")):
                return False
            en = [x for x in subterms(t[1][1][1]) if is_call(x, "Iterator::enumerate")]
            if len(en) != 1:
                return False
            return nonempty_fields_of_split(call_args(en[0])[0])
        def nonempty_fields_of_split(src):
            """src is `<something>.split(..).filter(|s| !s.is_empty())`: an iterator over the non-empty pieces, in order"""
            src = strip_refs(src)
            if not (is_call(src, "Iterator::filter") and len(call_args(src)) == 2 and is_call(strip_refs(call_args(src)[0]), "[T]>::split")):
                return False
            clo = strip_refs(call_args(src)[1])
            if not (isinstance(clo, tuple) and clo[:2] == ("agg", "closure")):
                return False
            rp = ret_paths(ctx.paths(clo[2]) or [])
            if len(rp) != 1:
                return False
            r = rp[0].end[1]
            return isinstance(r, tuple) and r[0] == "unop" and r[1] == "Not" and is_call(r[2], "[T]>::is_empty", "::is_empty") and deval(call_args(r[2])[0]) == ("param", 2)
        def judge_push(p, e):
            """D2-NAME-RAW for one PathBuf::push event e on path p"""
            a = e.args[1]
            raw = is_call(strip_refs(a), "::from_bytes") and not mentions(a, lambda s: is_call(s, *LOSSY_CALLS))
            ix = [s for s in subterms(a) if is_index_call(s)]
            rng = agg_variant(call_args(ix[0])[1]) if ix else None
            inner = bool(rng) and rng[1] == "Range" and const_int(rng[2][0]) == 1 and isinstance(rng[2][1], tuple) and rng[2][1][0] == "binop" and rng[2][1][1] == "Sub" and const_int(rng[2][1][3]) == 1
            # the field's first byte is '(' and its last is ')', however the two tests are spelled (== taken, != not taken)
            fld = strip_refs(call_args(ix[0])[0]) if ix else None
            par = set()
            for c in p.conds():
                ae = asserts_eq_const(c)
                if ae is None or ae[1] not in (40, 41) or not (isinstance(ae[0], tuple) and ae[0][0] == "index"):
                    continue
                base = ae[0][1]
                while isinstance(base, tuple) and base and base[0] == "deref":
                    base = strip_refs(base[1])
                at = strip_refs(ae[0][2])
                first = const_int(at) == 0
                lastp = isinstance(at, tuple) and at[0] == "binop" and at[1] == "Sub" and const_int(at[3]) == 1 and length_of(at[2]) is not None
                if base == fld and ((ae[1] == 40 and first) or (ae[1] == 41 and lastp)):
                    par.add(ae[1])
            # ... or as s.starts_with(b"(") / s.ends_with(b")") (one-byte literals: the first / the last byte)
            for c in p.conds():
                t_ = c.term
                if is_call(t_, "[T]>::starts_with", "[T]>::ends_with") and len(call_args(t_)) == 2 and c.fact == ("eq", True) and strip_refs(call_args(t_)[0]) == fld:
                    lit = const_bytes(call_args(t_)[1])
                    if lit == "(" and is_call(t_, "[T]>::starts_with"):
                        par.add(40)
                    if lit == ")" and is_call(t_, "[T]>::ends_with"):
                        par.add(41)
            # ... or as the slice pattern [b'(', name @ .., b')']: the bound part is field[1 : len-1], the first byte was matched
            # against '(' and the last against ')'
            fb_ = strip_refs(a)
            if raw and is_call(fb_, "::from_bytes"):
                x_ = strip_refs(call_args(fb_)[0])
                if isinstance(x_, tuple) and len(x_) == 3 and x_[0] == "proj" and x_[2] == "subslice[1:-1]":
                    base_ = deval(x_[1])
                    ends = set()
                    for c in p.conds():
                        ae = asserts_eq_const(c)
                        if ae is not None and isinstance(ae[0], tuple) and ae[0][0] == "index" and deval(ae[0][1]) == base_:
                            i_ = const_int(ae[0][2])
                            if (i_, ae[1]) in ((0, 40), (-1, 41)):
                                ends.add(ae[1])
                    if ends == {40, 41}:
                        inner, par = True, {40, 41}
            # the same cut written with the slice API: s.strip_prefix(b"(") and then .strip_suffix(b")") of what is left
            def payload_of(x, callee, lit):
                x = strip_refs(x)
                if isinstance(x, tuple) and x and x[0] == "field" and x[2] == 0 and isinstance(x[1], tuple) and x[1][0] == "downcast" and x[1][2] == "Some":
                    c_ = strip_refs(x[1][1])
                    if is_call(c_, callee) and len(call_args(c_)) == 2 and const_bytes(call_args(c_)[1]) == lit:
                        return call_args(c_)[0]
                return None
            if raw and not (inner and par == {40, 41}):
                fb = strip_refs(a)
                mid = payload_of(call_args(fb)[0], "[T]>::strip_suffix", ")") if is_call(fb, "::from_bytes") else None
                whole = payload_of(mid, "[T]>::strip_prefix", "(") if mid is not None else None
                w_ = strip_refs(whole) if whole is not None else None
                # the field itself: the piece the split yields, directly or as the second half of an enumerate() item
                if isinstance(w_, tuple) and len(w_) > 2 and w_[0] == "field" and w_[2] == 1 and isinstance(w_[1], tuple) and w_[1][0] == "field" and w_[1][2] == 0 \
                        and enum_index_of_nonempty_fields(("field", w_[1], 0, "0")):
                    inner = True
                    par = {40, 41}
                elif whole is not None and isinstance(strip_refs(whole), tuple) and strip_refs(whole)[0] == "field" and is_call(strip_refs(strip_refs(whole)[1][1]), "Split<'a, T, P> as std::iter::Iterator>::next"):
                    inner = True
                    par = {40, 41}
            ctx.check(raw and inner and par == {40, 41}, "D2-NAME-RAW", LFB, "name-field", "name = raw bytes strictly between '(' and ')'",
                      "the file name is not taken as the raw bytes between a leading '(' and a trailing ')'", body.span_of(e.bb))
        eff = {}
        for p in paths:
            if p.end[0] != "back":
                continue
            ks = []
            for c in p.conds():
                ae = asserts_eq_const(c)       # `field == k` taken, or the arm k of `match field`
                if ae is not None and isinstance(ae[0], tuple) and ae[0][0] == "havoc" and lname.get(ae[0][1]) == "field":
                    ks.append(ae[1])
                elif ae is not None and enum_index_of_nonempty_fields(ae[0]):
                    ks.append(ae[1])
            for k in ks:
                hdr = p.end[1]
                for l, v in p.env.items():
                    nm = lname.get(l)
                    if nm in ("action", "value") and not (isinstance(v, tuple) and v[0] == "havoc"):
                        if mentions(v, lambda s: is_call(s, "String::from_utf8")) and not mentions(v, lambda s: is_call(s, *LOSSY_CALLS)):
                            eff.setdefault(k, set()).add(nm)
                for e in p.events:
                    if ev_is(e, "PathBuf::push") and lname.get(e.args[0][1][1] if isinstance(e.args[0], tuple) and e.args[0][0] == "refmut" else -1) == "path":
                        eff.setdefault(k, set()).add("path")
                        judge_push(p, e)
        if not eff:
            # the same reader without a loop: `let mut fields = line.split(ws).filter(non-empty)` and one `fields.next()` per field, in
            # order -- field k is what the (k+1)-th call returns.  Nothing else may touch the iterator (a skip / nth / by_ref would
            # shift the count), and every path must agree on which call feeds which role.
            NEXT = "Filter as std::iter::Iterator>::next"
            for p in ret_paths(paths):
                seq = [e for e in p.events if ev_is(e, NEXT)]
                if not seq:
                    continue
                locs = {e.args[0][1][1] if isinstance(e.args[0], tuple) and e.args[0][0] == "refmut" and isinstance(e.args[0][1], tuple) and e.args[0][1][0] == "loc" else None for e in seq}
                if len(locs) != 1 or None in locs:
                    eff = {-1: {"fields are taken from more than one iterator"}}
                    break
                L = next(iter(locs))
                if not nonempty_fields_of_split(seq[0].args[0][1][2]):
                    eff = {-1: {"the iterator is not the non-empty pieces of the line's split"}}
                    break
                idx = {e.term: k for k, e in enumerate(seq)}
                def touches(t):
                    # the iterator itself (not what one of the counted calls returned) is part of t
                    if t in idx:
                        return False
                    if isinstance(t, tuple) and len(t) > 1 and t[0] == "loc" and t[1] == L:
                        return True
                    return isinstance(t, tuple) and any(touches(x) for x in t if isinstance(x, tuple))
                others = [e for e in p.events if e.kind == "call" and e not in seq and any(touches(a_) for a_ in e.args)]
                if others:
                    eff = {-1: {"the field iterator is also handed to %s" % others[0].name}}
                    break
                def field_of(t):
                    ks = {idx[s_] for s_ in subterms(t) if s_ in idx}
                    return next(iter(ks)) if len(ks) == 1 else None
                def strict_text(t):
                    return mentions(t, lambda s_: is_call(s_, "String::from_utf8", "str::from_utf8", "core::str::from_utf8", "converts::from_utf8")) and not mentions(t, lambda s_: is_call(s_, *LOSSY_CALLS))
                a_ = agg_variant(p.end[1])
                if a_ and a_[0] == LINE and a_[1] == "Checksum":
                    for e in p.calls("Digest as std::str::FromStr>::from_str"):
                        k = field_of(e.args[0])
                        eff.setdefault(k if k is not None and strict_text(e.args[0]) else -2, set()).add("action")
                    k = field_of(a_[2][2])
                    eff.setdefault(k if k is not None and strict_text(a_[2][2]) else -2, set()).add("value")
                for e in p.events:
                    if ev_is(e, "PathBuf::push") and lname.get(e.args[0][1][1] if isinstance(e.args[0], tuple) and e.args[0][0] == "refmut" else -1) == "path":
                        k = field_of(e.args[1])
                        eff.setdefault(k if k is not None else -2, set()).add("path")
                        judge_push(p, e)
        # writer-derived positions
        toks = CK.split(" ")
        want = {toks.index("[digest]"): "action", next(i for i, t in enumerate(toks) if "[name]" in t): "path", next(i for i, t in enumerate(toks) if "[hash]" in t): "value"}
        got = {k: sorted(v)[0] for k, v in eff.items() if len(v) == 1}
        ctx.check(got == want, "D3-POSITIONS", LFB, "field-positions", "reader fields %s match the writer's line shape" % got,
                  "reader takes %s; the writer's line shape puts keyword/name/value at %s" % (got, want), fn_span(body))
        kw = SZ.split(" ")[0]
        szc = {str_eq_lit(c.term)[2] for p in paths for c in p.conds() if str_eq_lit(c.term)}
        ctx.check(kw in szc and kw == sp["size_keyword"], "D3-KEYWORD", LFB, "size-keyword", "reader keyword %r = writer keyword" % kw,
                  "the reader compares the keyword with %s but the writer emits %r" % (sorted(szc), kw), fn_span(body))
        # RcsId raw
        rc = [p for p in ret_paths(paths) if agg_variant(p.end[1]) and agg_variant(p.end[1])[1] == "RcsId"]
        ok = bool(rc)
        for p in rc:
            v = agg_variant(p.end[1])[2][0]
            ok = ok and is_call(v, "OsStringExt for std::ffi::OsString>::from_vec", "::from_vec") and not mentions(v, lambda s: is_call(s, *LOSSY_CALLS))
            # the stored bytes are the line up to its end: only leading blanks may have been removed
            tail_cut = [mir.norm_path(x[1]).split("::")[-1] for x in subterms(v) if is_call(x, "::trim_ascii", "::trim", "::trim_end", "::trim_ascii_end", "::trim_end_matches", "::strip_suffix", "::split_last", "::truncate")]
            rng = [agg_variant(call_args(x)[1]) for x in subterms(v) if is_index_call(x) and agg_variant(call_args(x)[1])]
            tail_cut += ["[..n]" for r in rng if r[1] in ("RangeTo", "RangeToInclusive") or (r[1] == "Range" and not is_call(strip_refs(r[2][1]), "::len"))]
            ok = ok and not tail_cut
            pre = [c for c in p.conds() if is_call(c.term, "[T]>::starts_with") and const_bytes(call_args(c.term)[1]) == sp["rcsid_prefix"]]
            ok = ok and bool(pre) and pre[-1].fact == ("eq", True)
        ctx.check(ok, "D2-RCSID-RAW", LFB, "rcsid", "RcsId = the raw line (from_vec) when it starts with \"$NetBSD: \"",
                  "the RCS Id is not stored as the raw bytes (through the end of the line: trailing bytes are data) of a line starting with \"$NetBSD: \"", fn_span(body))

    # ---- the accessors through which a parsed file is observed (and which the writer itself uses)
    distinfo_accessors(ctx, "D4-ACCESSOR")

    # ---- D4-INSERT: Distinfo::insert (the API half of "build, write, parse back") files an entry under ITS OWN NAME in the map of ITS OWN KIND:
    #      the writer walks the maps and prints entry.filename, the reader keys by the printed name, so any other key (filepath, a derived
    #      name) or the other map makes entries collide, duplicate or change section
    DI = "distinfo::Distinfo::insert"
    ips = ctx.paths(DI)
    if ips:
        ibody = ctx.body(DI)
        rows = 0
        okall = True
        why = ""
        for p in ret_paths(ips):
            ins = [e for e in p.events if ev_is(e, "IndexMap::insert", "IndexMap<K, V, S>::insert", "HashMap::insert", "BTreeMap::insert", "IndexMap::insert_full", "IndexMap::entry")]
            kind = [c for c in p.conds() if c.term[0] == "discr" and isinstance(deval(c.term[1]), tuple) and deval(c.term[1])[0] == "field" and deval(c.term[1])[3] == "filetype"
                    and deval(deval(c.term[1])[1]) == ("param", 2) and c.fact[0] == "eq"]
            if len(ins) != 1 or not kind:
                okall, why = False, "a path does not make exactly one map insertion chosen by entry.filetype"
                continue
            rows += 1
            e = ins[0]
            want = {"Distfile": "distfiles", "Patchfile": "patchfiles"}.get(variant_by_discr(fx, "distinfo::EntryType", kind[-1].fact[1]))
            okmap = mentions(e.args[0], lambda s_: s_[0] == "field" and s_[3] == want and deval(s_[1]) == ("param", 1))
            okkey = carried_unchanged(e.args[1], lambda s_: isinstance(s_, tuple) and s_[0] == "field" and s_[3] == "filename" and deval(s_[1]) == ("param", 2))
            okval = len(e.args) < 3 or deval(e.args[2]) == ("param", 2)
            if not (okmap and okkey and okval):
                okall = False
                why = "an entry of kind %s is inserted into %s under the key %s" % (kind[-1].fact[1], term_str(e.args[0])[:40], term_str(e.args[1])[:60])
        ctx.check(okall and rows >= 2, "D4-INSERT", DI, "own-name-own-map", "insert(entry): map chosen by entry.filetype, key = entry.filename, value = entry",
                  "Distinfo::insert does not file the entry under its own filename in the map of its own kind (%s)" % (why or "fewer than two kinds handled"), fn_span(ibody))

    # ---- D4-ENTRY-NEW: Entry::new(filename, filepath, checksums, size) stores each argument in the field of its name and classifies the entry by
    #      its FILENAME (the name the writer prints and the reader classifies by): an entry typed after its on-disk path changes section on re-parse
    EN = "distinfo::Entry::new"
    eps = ctx.paths(EN)
    if eps:
        ebody = ctx.body(EN)
        okall, why, rows = True, "", 0
        argn = {"filename": 1, "filepath": 2, "checksums": 3, "size": 4}
        for p in ret_paths(eps):
            a = agg_variant(p.end[1])
            if not a or a[0] != "distinfo::Entry":
                okall, why = False, "does not return an Entry literal"
                continue
            rows += 1
            flds = dict(zip(p.end[1][5], a[2]))
            for f_, n_ in argn.items():
                if not carried_unchanged(flds.get(f_), lambda u, n_=n_: u == ("param", n_), extra_views=("Path::to_path_buf", "PathBuf as std::convert::From", "::into", "::to_owned")):
                    okall, why = False, "field %s is not the %s argument" % (f_, f_)
            ft = strip_refs(flds.get("filetype"))
            if not (is_call(ft) and "distinfo::EntryType as std::convert::From" in ft[1] and call_args(ft) and carried_unchanged(call_args(ft)[0], lambda u: u == ("param", 1))):
                okall, why = False, "filetype is %s, not EntryType::from(filename)" % term_str(ft)[:80]
        ctx.check(okall and rows >= 1, "D4-ENTRY-NEW", EN, "fields-and-kind", "Entry::new stores its arguments by name and classifies by the filename",
                  "Entry::new: %s" % (why or "no returning path"), fn_span(ebody))

    # ---- D1-DIGEST-NAME: the writer prints each checksum's algorithm with Digest's Display and the reader parses it back with Digest::from_str:
    #      the two tables must be mutually inverse (C13's D2-DISPLAY / D2-ROUNDTRIP / D2-PARSE verdicts, shared), or a written line is not read back
    share_rules(ctx, "C13", ("D2-DISPLAY", "D2-ROUNDTRIP", "D2-PARSE"), "D1-DIGEST-NAME", "<digest::Digest as std::fmt::Display>::fmt", 12)
