"""C11 — each recognised distinfo line lands on its file; other lines change nothing (structural clauses)."""
import itertools
from lib import *
from rules.distinfo_common import *
from rules.c14 import bytews_sites

EXPLANATION = (
    "D1 classification decision table of EntryType::from over the 8 name predicates (all feasible truth assignments) equals the patch-file naming rule; "
    "D2 Distfile->distfiles / Patchfile->patchfiles in insert, update_size, update_checksum, find_entry (sibling agreement), and the name that is classified is the name that keys the map; "
    "D3 the two maps are insertion-ordered (IndexMap/Vec), existing entries updated in place (get_mut; checksums appended with push), new entries inserted under the line's own name; "
    "D4 line fields are split on bytes (no u8-as-char Unicode predicate); "
    "D5 Line::from_bytes: unknown algorithm / unparsable size / malformed name -> Line::None; Distinfo::from_bytes: Line::None has no effect, Size->update_size, Checksum->update_checksum with the line's own fields; "
    "D4-BLANKSET every blank test in Line::from_bytes (leading blanks, field separator), in whatever spelling, accepts space and tab and nothing outside ASCII white space (table over 256 byte values); "
    "D5-WHOLE-LINE the text split into fields is the whole line with only leading blanks skipped; D5-LINE-TESTS a line as a whole is classified only by starts_with(b\"#\"), starts_with(b\"$NetBSD\") or is_empty(); "
    "D5-LINES the lines handed to Line::from_bytes are the pieces of a byte-level split of the input at '\\n' (no UTF-8 line reader, no adapter in between) and the loop ends only by exhaustion; the get-or-insert spelling map.entry(name).or_insert_with(|| Entry{filename: name, filetype, ..default}) followed by the one unconditional update is recognised as the same pair of arms")
NOT_DECIDED = [
    "field splitting semantics for arbitrary interleavings (slice::split is std's)",
    "observed, not claimed: a bare `SHA1` line or `SHA1 (f) x y` is recorded as a checksum (field 2 and the field count are never checked)",
]
CONFIG_SENSITIVE = False
DESUGAR = True


def classification_rules(ctx, sp, P=""):
    fx = ctx.fx
    preds = [tuple(p) for p in sp["classification_predicates"]]
    # ---- D1
    paths = ctx.paths(ET_FROM)
    body = ctx.body(ET_FROM)
    if paths:
        rows = []
        seen_preds = set()
        bad_scrut = []
        nofile = None
        for p in ret_paths(paths):
            conds = {}
            fn_none = False
            for c in p.conds():
                pr = pred_of(c.term)
                if pr:
                    conds[pr[0]] = (c.fact == ("eq", True))
                    seen_preds.add(pr[0])
                    if not (mentions(pr[1], lambda s: is_call(s, "Path::file_name")) and mentions(pr[1], lambda s: is_call(s, "to_string_lossy", "OsStr::to_str", "to_str"))):
                        bad_scrut.append(pr[0])
                elif c.term[0] == "discr" and is_call(strip_refs(c.term[1]), "Path::file_name"):
                    fn_none = (c.fact == ("eq", 0)) or (c.fact[0] == "ne" and 1 in c.fact[1])
            a = agg_variant(p.end[1])
            out = a[1] if a and a[0] == ET else None
            if fn_none:
                nofile = out
            else:
                rows.append((conds, out, p))
        ctx.check(seen_preds == set(preds), P + "D1-PREDICATES", ET_FROM, "set", "the 8 predicates of the naming rule",
                  "classification tests %s; the naming rule uses %s" % (sorted(seen_preds - set(preds)) or "fewer predicates", sorted(set(preds) - seen_preds) or "the same"), fn_span(body))
        ctx.check(not bad_scrut, P + "D1-SCRUTINEE", ET_FROM, "file-name", "predicates test the path's file name",
                  "predicates %s are not applied to the file-name component" % bad_scrut, fn_span(body), nontrivial=False)
        ctx.check(nofile == "Distfile", P + "D1-CLASSIFY", ET_FROM, "no-file-name", "no file name -> Distfile", "a path without a file name is classified %s" % nofile, fn_span(body))
        n = 0
        bad = []
        for bits in itertools.product((False, True), repeat=len(preds)):
            asg = dict(zip(preds, bits))
            if not feasible(asg):
                continue
            n += 1
            match = [(o, p) for (conds, o, p) in rows if all(asg.get(k) == v for k, v in conds.items() if k in asg)]
            outs = {o for o, _ in match}
            want = "Patchfile" if is_patch_spec(asg) else "Distfile"
            if outs != {want}:
                bad.append((tuple(k[1] for k, v in asg.items() if v), sorted(outs, key=str), want))
        ctx.check(not bad, P + "D1-CLASSIFY", ET_FROM, "decision-table", "%d feasible assignments agree with the naming rule" % n,
                  "classification differs from the naming rule for %d assignment(s), e.g. predicates true=%s -> %s, expected %s" % (len(bad), bad[0][0] if bad else "", bad[0][1] if bad else "", bad[0][2] if bad else ""),
                  fn_span(body))
        ctx.floor(P + "D1-CLASSIFY", ET_FROM, "feasible assignments evaluated", n, 60)
        ctx.note("classification assignments evaluated: %d" % n)



def run(ctx):
    fx = ctx.fx
    sp = spec("distinfo.json")
    preds = [tuple(p) for p in sp["classification_predicates"]]

    classification_rules(ctx, sp)

    # ---- D2 map selection
    for fn in ("distinfo::Distinfo::insert", "distinfo::Distinfo::update_size", "distinfo::Distinfo::update_checksum", "distinfo::Distinfo::find_entry"):
        paths = ctx.paths(fn)
        body = ctx.body(fn)
        if not paths:
            continue
        seen = {}
        for p in paths:
            v = None
            key_ok = True
            for (t, fact) in discr_facts(p):
                st = strip_refs(t)
                if is_call(st, ET_FROM) or (isinstance(st, tuple) and st[0] == "field" and st[3] == "filetype") or is_call(st, "EntryType as std::convert::From"):
                    if fact[0] == "eq":
                        v = variant_by_discr(fx, ET, fact[1])
            if v is None:
                continue
            touched = set()
            for e in p.events:
                if e.kind == "call":
                    for a in e.args:
                        touched |= map_field_of(a)
                    if ev_is(e, "Distinfo::get_distfile"):
                        touched.add("distfiles")
                    if ev_is(e, "Distinfo::get_patchfile"):
                        touched.add("patchfiles")
            seen.setdefault(v, set()).update(touched)
        for v, fld in sp["maps"].items():
            got = seen.get(v)
            ctx.check(got == {fld}, "D2-MAP", fn, "type=%s" % v, "%s -> self.%s" % (v, fld),
                      "%s entries are stored in / looked up from %s; expected only %s" % (v, sorted(got) if got else got, fld), fn_span(body))
    # classification key = map key
    upsert_fns = set()
    for fn in ("distinfo::Distinfo::update_size", "distinfo::Distinfo::update_checksum"):
        paths = ctx.paths(fn)
        body = ctx.body(fn)
        if not paths:
            continue
        # the get-or-insert spelling: map.entry(name).or_insert_with(|| Entry{filename: name, filetype, ..default}) then update what it returns.
        # It inserts (at the end: first-appearance order) exactly when the name is new, and the update that follows is the one the existing-entry
        # arm makes -- so the new-entry and existing-entry rules are decided on the one call and the one update
        ups = [e for p in ret_paths(paths) for e in p.events if ev_is(e, "Entry::or_insert_with", "Entry::or_insert", "Entry::or_default")]
        if ups:
            upsert_fns.add(fn)
            okall = True
            why = ""
            for p in ret_paths(paths):
                cl = [e for e in p.events if ev_is(e, ET_FROM) or (e.kind == "call" and "EntryType as std::convert::From" in e.name)]
                okc = bool(cl) and mentions(cl[0].args[0], lambda s: s == ("param", 2))
                ctx.check(okc, "D2-KEY", fn, "classified-name", "the line's own name is classified", "%s classifies something other than its path argument" % fn, fn_span(body), nontrivial=False)

                def literal_name(t):
                    return mentions(t, lambda s: s == ("param", 2)) and not mentions(t, lambda s: is_call(s) and (s[1].startswith("distinfo::") or "Path::file_name" in s[1] or "Path::strip_prefix" in s[1] or "Path::ends_with" in s[1]))
                u = [e for e in p.events if ev_is(e, "Entry::or_insert_with")]
                en = [e for e in p.events if ev_is(e, "IndexMap::entry")]
                ok1 = len(u) == 1 and len(en) == 1 and strip_refs(u[0].args[0]) == en[0].term and bool(map_field_of(en[0].args[0])) and literal_name(en[0].args[1])
                ctx.check(ok1, "D3-LOOKUP", fn, "lookup-by-name", "existing entry looked up by the line's name (map.entry(name))", "%s does not look the entry up by its path argument" % fn, fn_span(body), nontrivial=False)
                okf = False
                if ok1:
                    clo = strip_refs(u[0].args[1])
                    if isinstance(clo, tuple) and clo[:2] == ("agg", "closure"):
                        pe = mir.PathEval(ctx.fx, body, inline=ctx.inline_set, desugar=True)
                        alts = [v for (_, fs, v) in pe._apply(clo, (), 0) if v is not None]
                        ent = agg_variant(strip_refs(alts[0])) if len(alts) == 1 else None
                        if ent and ent[0] == "distinfo::Entry":
                            flds = dict(zip(strip_refs(alts[0])[5], ent[2]))
                            okf = literal_name(flds.get("filename")) and bool(cl) and strip_refs(flds.get("filetype")) == cl[0].term
                            # nothing else is pre-set: the update that follows supplies the line's value
                            for k_, v_ in flds.items():
                                if k_ not in ("filename", "filetype"):
                                    okf = okf and (is_call(strip_refs(v_), "Default>::default", "::default") or (isinstance(strip_refs(v_), tuple) and strip_refs(v_)[0] == "field" and is_call(strip_refs(strip_refs(v_)[1]), "Default>::default", "::default")))
                ctx.check(ok1 and okf, "D3-INSERT", fn, "new-entry", "a new entry is keyed and named by the line's name, typed by its classification, otherwise default (get-or-insert form)",
                          "%s inserts a new entry whose key/filename/type do not come from the line (or which is pre-filled)" % fn, fn_span(body))
                # the one update, made on the entry the call returns, unconditionally
                if ok1:
                    target = lambda t, u_=u[0]: mentions(t, lambda s_: s_ == u_.term)
                    if fn.endswith("update_size"):
                        st_ = [e for e in p.events if e.kind == "store" and mentions(e.place, lambda s_: s_[0] == "field" and s_[3] == "size")]
                        oku = len(st_) == 1 and unwrap_some(st_[0].value) == ("param", 3) and target(st_[0].place)
                        what = "size = Some(size)"
                    else:
                        pu_ = [e for e in p.events if ev_is(e, "Vec::push") and mentions(e.args[0], lambda s_: s_[0] == "field" and s_[3] == "checksums")]
                        a_ = agg_variant(pu_[0].args[1]) if len(pu_) == 1 else None
                        oku = bool(a_) and a_[0] == "distinfo::Checksum" and a_[2] == (("param", 3), ("param", 4)) and target(pu_[0].args[0])
                        what = "checksums.push(Checksum{digest, hash})"
                    iu = [i for i, e in enumerate(p.events) if e is u[0]][0]
                    after = [e for e in p.events[iu + 1:] if e.kind == "cond"]
                    ctx.check(oku, "D3-APPEND", fn, "existing-entry", "the entry (existing or new): %s" % what, "the entry returned by the get-or-insert is not updated by %s exactly once" % what, fn_span(body))
                    ctx.check(oku and not after, "D3-ALWAYS", fn, "existing-entry-always-updated", "the update is unconditional",
                              "%s decides after the lookup whether the line takes effect" % fn, fn_span(body))
            ctx.floor("D3-INSERT", fn, "insert sites", 1, 1)
            continue
        ins = 0
        for p in ret_paths(paths):
            cl = [e for e in p.events if ev_is(e, ET_FROM) or (e.kind == "call" and "EntryType as std::convert::From" in e.name)]
            insert = [e for e in p.events if ev_is(e, "IndexMap::insert", "IndexMap::insert_full") and map_field_of(e.args[0])]
            getm = [e for e in p.events if ev_is(e, "IndexMap::get_mut", "IndexMap::entry")]
            okc = bool(cl) and mentions(cl[0].args[0], lambda s: s == ("param", 2))
            ctx.check(okc, "D2-KEY", fn, "classified-name", "the line's own name is classified", "%s classifies something other than its path argument" % fn, fn_span(body), nontrivial=False)
            # ... by the line's own name and nothing derived from it through the library's fuzzy lookups (find_entry matches trailing components)
            def literal_name(t):
                return mentions(t, lambda s: s == ("param", 2)) and not mentions(t, lambda s: is_call(s) and (s[1].startswith("distinfo::") or "Path::file_name" in s[1] or "Path::strip_prefix" in s[1] or "Path::ends_with" in s[1]))
            okg = bool(getm) and all(literal_name(e.args[1]) for e in getm)
            ctx.check(okg, "D3-LOOKUP", fn, "lookup-by-name", "existing entry looked up by the line's name", "%s does not look the entry up by its path argument" % fn, fn_span(body), nontrivial=False)
            for e in insert:
                ins += 1
                key = e.args[1]
                ent = agg_variant(strip_refs(e.args[2])) if len(e.args) > 2 else None
                okk = literal_name(key)
                okf = False
                if ent and ent[0] == "distinfo::Entry":
                    flds = dict(zip(strip_refs(e.args[2])[5], ent[2]))
                    okf = mentions(flds.get("filename"), lambda s: s == ("param", 2))
                    # the new entry's own type is the classification that selected the map
                    ft = flds.get("filetype")
                    okf = okf and bool(cl) and ft == cl[0].term
                    if fn.endswith("update_size"):
                        sz = unwrap_some(flds.get("size"))
                        okf = okf and sz == ("param", 3)
                    else:
                        okf = okf and flows_from(p, flds.get("checksums"), lambda s: s == ("param", 3)) and flows_from(p, flds.get("checksums"), lambda s: s == ("param", 4))
                ctx.check(okk and okf, "D3-INSERT", fn, "new-entry", "new entry keyed and named by the line's name, carrying the line's value",
                          "%s inserts a new entry whose key/filename/value do not come from the line" % fn, body.span_of(e.bb))
        ctx.floor("D3-INSERT", fn, "insert sites", ins, 1)
    # in-place update
    fn = "distinfo::Distinfo::update_checksum"
    paths = ctx.paths(fn)
    if paths and fn not in upsert_fns:
        body = ctx.body(fn)
        ps = [p for p in ret_paths(paths) if any(ev_is(e, "Vec::push") and mentions(e.args[0], lambda s: s[0] == "field" and s[3] == "checksums") for e in p.events)]
        ok = bool(ps)
        for p in ps:
            e = [e for e in p.events if ev_is(e, "Vec::push") and mentions(e.args[0], lambda s: s[0] == "field" and s[3] == "checksums")][0]
            a = agg_variant(e.args[1])
            ok = ok and bool(a) and a[0] == "distinfo::Checksum" and a[2] == (("param", 3), ("param", 4)) and mentions(e.args[0], lambda s: is_call(s, "IndexMap::get_mut"))
        ctx.check(ok, "D3-APPEND", fn, "existing-entry", "existing entry: checksums.push(Checksum{digest, hash})",
                  "an existing entry's checksum list is not extended by push(Checksum{digest, hash}) in place", fn_span(body))
    fn = "distinfo::Distinfo::update_size"
    paths = ctx.paths(fn)
    if paths and fn not in upsert_fns:
        body = ctx.body(fn)
        st = [e for p in ret_paths(paths) for e in p.events if e.kind == "store" and mentions(e.place, lambda s: s[0] == "field" and s[3] == "size")]
        ok = bool(st) and all(unwrap_some(e.value) == ("param", 3) and mentions(e.place, lambda s: is_call(s, "IndexMap::get_mut")) for e in st)
        ctx.check(ok, "D3-APPEND", fn, "existing-entry", "existing entry: size = Some(size)", "an existing entry's size is not set in place to Some(size)", fn_span(body))
    # ... and unconditionally: every path on which the entry exists (get_mut found it) performs the update, exactly once; nothing about
    #     the entry's present contents (a size already there, a checksum of the same algorithm) decides whether the line takes effect
    for fn, what, is_upd in (("distinfo::Distinfo::update_checksum", "appends the checksum",
                              lambda e_: ev_is(e_, "Vec::push") and mentions(e_.args[0], lambda s_: s_[0] == "field" and s_[3] == "checksums")),
                             ("distinfo::Distinfo::update_size", "sets the size",
                              lambda e_: e_.kind == "store" and mentions(e_.place, lambda s_: s_[0] == "field" and s_[3] == "size"))):
        ps_ = ctx.paths(fn)
        if not ps_ or fn in upsert_fns:
            continue
        body = ctx.body(fn)
        exist = [p for p in ret_paths(ps_) if any(c.term[0] == "discr" and is_call(strip_refs(c.term[1]), "IndexMap::get_mut", "IndexMap::get", "::entry") and
                                                 (c.fact == ("eq", 1) or (c.fact[0] == "ne" and 0 in c.fact[1])) for c in p.conds())]
        bad = [p for p in exist if sum(1 for e_ in p.events if is_upd(e_)) != 1]
        ctx.check(bool(exist) and not bad, "D3-ALWAYS", fn, "existing-entry-always-updated", "every path that found the entry %s once" % what,
                  "%s has a path on which the entry exists but the line has no (or a repeated) effect%s: a recognised line must always land on its file"
                  % (fn, (" (decided by %s)" % term_str(bad[0].conds()[-1].term)[:80]) if bad and bad[0].conds() else ""), fn_span(body))
    di = fx.adts.get("distinfo::Distinfo")
    for fld in ("distfiles", "patchfiles"):
        ty = next((f["ty"] for f in di["variants"][0]["fields"] if f["name"] == fld), None) if di else None
        ok = ty is not None and (ty.startswith("indexmap::IndexMap<") or ty.startswith("indexmap::map::IndexMap<") or ty.startswith("std::vec::Vec<"))
        ctx.check(ok, "D3-ORDERED-MAP", "distinfo::Distinfo", "field=%s" % fld, "insertion-ordered container",
                  "field %s has type %s: first-appearance order of files is not preserved by this container" % (fld, ty))
    ent = fx.adts.get("distinfo::Entry")
    cty = next((f["ty"] for f in ent["variants"][0]["fields"] if f["name"] == "checksums"), None) if ent else None
    ctx.check(cty is not None and cty.startswith("std::vec::Vec<"), "D3-ORDERED-MAP", "distinfo::Entry", "field=checksums", "Vec keeps line order", "checksums has type %s" % cty)

    # ---- D4
    n = bytews_sites(ctx, LFB, rule="D4-BYTEWS")
    for ck in fx.find(r"distinfo::Line::from_bytes::\{closure#\d+\}"):
        n += bytews_sites(ctx, ck, rule="D4-BYTEWS")
    ctx.note("unicode char-predicate sites in Line::from_bytes: %d" % n)

    # ---- D5
    paths = ctx.paths(LFB)
    body = ctx.body(LFB)
    if paths:
        kinds = {}
        for p in ret_paths(paths):
            a = agg_variant(p.end[1])
            if not a or a[0] != LINE:
                continue
            kinds.setdefault(a[1], []).append((p, a))
        ctx.floor("D5-LINE", LFB, "returned line kinds", len(kinds), 4)
        for p, a in kinds.get("Size", []):
            sz = [c for c in p.conds() if str_eq_lit(c.term) and str_eq_lit(c.term)[2] == sp["size_keyword"]]
            okk = bool(sz) and (sz[-1].fact == ("eq", True)) != str_eq_lit(sz[-1].term)[0]
            n_t = a[2][1]
            okn = mentions(n_t, lambda s: is_call(s, "FromStr for u64>::from_str", "str>::parse")) and isinstance(n_t, tuple) and n_t[0] == "field" and n_t[1][0] == "downcast" and n_t[1][2] == "Ok"
            ctx.check(okk and okn, "D5-LINE", LFB, "Size", "Size line: keyword == \"Size\" and value parsed as u64 (Ok arm)",
                      "Line::Size is produced without the keyword test or without a successful u64 parse", fn_span(body))
        for p, a in kinds.get("Checksum", []):
            d_t = a[2][0]
            okd = isinstance(d_t, tuple) and d_t[0] == "field" and d_t[1][0] == "downcast" and d_t[1][2] == "Ok" and is_call(d_t[1][1], "Digest as std::str::FromStr>::from_str")
            ctx.check(okd, "D5-LINE", LFB, "Checksum", "Checksum line only for a digest name that parses", "Line::Checksum is produced without Digest::from_str succeeding", fn_span(body))
        # failures of the two parsers return None
        for what, callee in (("bad-size", "FromStr for u64>::from_str"), ("unknown-algorithm", "Digest as std::str::FromStr>::from_str")):
            def is_parser(t, callee=callee):
                # (value.parse::<u64>() is u64::from_str(value))
                return is_call(t, callee) or (callee.startswith("FromStr for u64") and is_call(t, "str>::parse") and any("u64" == str(g).strip() for g in t[2]))
            errs = [p for p in ret_paths(paths) if any(c.term[0] == "discr" and is_parser(c.term[1]) and (c.fact == ("eq", 1) or (c.fact[0] == "ne" and 0 in c.fact[1])) for c in p.conds())]
            ok = bool(errs) and all(agg_variant(p.end[1]) and agg_variant(p.end[1])[1] == "None" for p in errs)
            ctx.check(ok, "D5-DROP", LFB, what, "%s -> Line::None" % what, "a line with %s does not become Line::None" % what, fn_span(body))
    # D5-WHOLE-LINE: the fields are cut from the whole line (leading blanks skipped, nothing else removed): a line is never truncated
    #                at some byte before it is split into fields (the bytes of a file name never end the line)
    lps = ctx.paths(LFB)
    if lps:
        lbody = ctx.body(LFB)
        fsplits = {}
        for p in lps:
            for e in p.events:
                if e.kind == "call" and e.path.endswith(">::split") and "[T]" in e.path and strip_refs(e.args[0]) != ("param", 1):
                    fsplits[e.bb] = e
        ctx.floor("D5-WHOLE-LINE", LFB, "field-splitting sites", len(fsplits), 1)
        for bb, e in sorted(fsplits.items()):
            x = strip_refs(e.args[0])
            steps = []
            for _ in range(8):
                if is_index_call(x) and agg_variant(call_args(x)[1]) and agg_variant(call_args(x)[1])[1] == "RangeFrom":
                    steps.append("[start..]")
                    x = strip_refs(call_args(x)[0])
                elif is_call(x, "::trim_ascii_start", "::as_ref", "Deref>::deref", "::as_slice") and call_args(x):
                    steps.append(mir.norm_path(x[1]).rsplit("::", 1)[-1])
                    x = strip_refs(call_args(x)[0])
                elif isinstance(x, tuple) and x and x[0] == "deref":
                    x = strip_refs(x[1])
                else:
                    break
            # what remains is the line itself: an element of the '\n' split of the input (or the input)
            is_line = x == ("param", 1) or (isinstance(x, tuple) and x[0] == "field" and x[2] == 0 and isinstance(x[1], tuple) and x[1][0] == "downcast" and x[1][2] == "Some"
                                               and is_call(strip_refs(x[1][1]), "slice::Split<'a, T, P> as std::iter::Iterator>::next", "slice::Split as std::iter::Iterator>::next")
                                               and mentions(x[1][1], lambda s_: s_ == ("param", 1)))
            ctx.check(is_line, "D5-WHOLE-LINE", LFB, "fields-from-whole-line", "fields = whole line minus leading blanks (%s)" % (",".join(steps) or "as is"),
                      "the text split into fields is %s: the line is cut or altered before its fields are taken, so a byte inside a file name can end the line" % term_str(x)[:160],
                      lbody.span_of(bb))
        # D5-LINE-TESTS: a line as a whole is classified only by how it BEGINS (a comment starts with '#', the RCS Id line with "$NetBSD") or
        #                by being empty; any other predicate over the whole line (contains, ends_with, a search) would let bytes inside a file name
        #                decide what kind of line it is
        def whole_line(x):
            x = strip_refs(x)
            for _ in range(8):
                if is_index_call(x) and agg_variant(call_args(x)[1]) and agg_variant(call_args(x)[1])[1] == "RangeFrom":
                    x = strip_refs(call_args(x)[0])
                elif is_call(x, "::trim_ascii_start", "::as_ref", "Deref>::deref", "::as_slice") and call_args(x):
                    x = strip_refs(call_args(x)[0])
                elif isinstance(x, tuple) and x and x[0] == "deref":
                    x = strip_refs(x[1])
                else:
                    break
            if x == ("param", 1):
                return True
            if not (isinstance(x, tuple) and len(x) > 2 and x[0] == "field" and x[2] == 0 and isinstance(x[1], tuple) and x[1][0] == "downcast" and x[1][2] == "Some"
                    and is_call(strip_refs(x[1][1]), "slice::Split<'a, T, P> as std::iter::Iterator>::next", "slice::Split as std::iter::Iterator>::next")):
                return False
            # a piece of the split of the INPUT (the line), not a piece of the split of a line (a field)
            it = call_args(strip_refs(x[1][1]))[0]
            for _ in range(6):
                while isinstance(it, tuple) and it and it[0] in ("ref", "refmut"):
                    it = it[1]
                if isinstance(it, tuple) and it and it[0] == "loc" and len(it) > 2:
                    it = it[2]
                elif isinstance(it, tuple) and it and it[0] == "havoc" and len(it) > 3:
                    it = it[3]
                elif is_call(it, "IntoIterator>::into_iter") and call_args(it):
                    it = call_args(it)[0]
                else:
                    break
            return is_call(it, "[T]>::split") and strip_refs(call_args(it)[0]) == ("param", 1)
        tests = {}
        for p in lps:
            for c in p.conds():
                t = c.term
                while isinstance(t, tuple) and t and t[0] == "unop" and t[1] == "Not":
                    t = t[2]
                if is_call(t) and call_args(t) and whole_line(call_args(t)[0]) and t[1].split("::")[-1] not in ("next", "split", "iter", "len"):
                    nm = mir.norm_path(t[1]).rsplit("::", 1)[-1]
                    lit = const_bytes(call_args(t)[1]) if len(call_args(t)) > 1 else None
                    tests.setdefault((nm, lit), c.bb)
        # `line.first()` compared with b'#' (or line[0] == b'#' after an emptiness test) is the same beginning-of-line test
        for p in lps:
            for c in p.conds():
                ae = asserts_eq_const(c)
                if ae is None or ae[1] != 35:
                    continue
                x = deval(ae[0])
                src = None
                if isinstance(x, tuple) and len(x) > 2 and x[0] == "field" and x[2] == 0 and isinstance(x[1], tuple) and x[1][0] == "downcast" and x[1][2] == "Some" and is_call(strip_refs(x[1][1]), "[T]>::first"):
                    src = call_args(strip_refs(x[1][1]))[0]
                elif isinstance(x, tuple) and x and x[0] == "index" and const_int(x[2]) == 0:
                    src = x[1]
                if src is not None and whole_line(src):
                    tests.setdefault(("starts_with", "#"), c.bb)
        tests = {k: v for k, v in tests.items() if k[0] != "first"}
        extra = sorted((k for k in tests if not ((k[0] == "starts_with" and k[1]) or k == ("is_empty", None))), key=str)
        ctx.check(not extra and ("starts_with", "#") in tests, "D5-LINE-TESTS", LFB, "whole-line-predicates", "a line is classified by its beginning only (%s)" % sorted(tests),
                  "a whole line is tested with %s: only a test of how the line begins (`starts_with(b\"#\")`, `starts_with(b\"$NetBSD: \")`) or `is_empty()` may classify a line as a whole" % (extra or "no comment test at all"),
                  lbody.span_of(tests[extra[0]]) if extra else fn_span(lbody))
    # D4-BLANKSET: what counts as a blank between fields / before the first field, tabulated over all 256 byte values
    check_blank_sets(ctx, "D4-BLANKSET", LFB, floor=2)
    paths = ctx.paths(DFB)
    body = ctx.body(DFB)
    if paths:
        arms = {}
        for p in paths:
            v = None
            for (t, fact) in discr_facts(p):
                if is_call(strip_refs(t), LFB) and fact[0] == "eq":
                    v = variant_by_discr(fx, LINE, fact[1])
            if v is None:
                continue
            effects = [e for e in p.events if e.kind == "call" and e.path.startswith("distinfo::Distinfo::update_")] + [e for e in p.events if e.kind == "store" and mentions(e.place, lambda s: s[0] == "field" and s[3] == "rcsid")]
            arms.setdefault(v, []).append((p, effects))
        for v, want in (("None", None), ("Size", "distinfo::Distinfo::update_size"), ("Checksum", "distinfo::Distinfo::update_checksum"), ("RcsId", "store")):
            ent = arms.get(v)
            if not ent:
                ctx.violation("D5-APPLY", DFB, "line=%s" % v, "no arm handles Line::%s" % v, fn_span(body))
                continue
            ok = True
            for p, eff in ent:
                if want is None:
                    ok = ok and not eff
                elif want == "store":
                    ok = ok and len(eff) == 1 and eff[0].kind == "store"
                else:
                    ok = ok and len(eff) == 1 and eff[0].kind == "call" and eff[0].path == want
                    if ok:
                        # arguments are this line's own fields, in order
                        src = [strip_refs(a) for a in eff[0].args[1:]]
                        ok = all(isinstance(a, tuple) and mentions(a, lambda s: s[0] == "downcast" and s[2] == v) for a in src)
                        idx = [next((s[2] for s in subterms(a) if s[0] == "field" and isinstance(s[1], tuple) and s[1][0] == "downcast" and s[1][2] == v), None) for a in src]
                        want_idx = [0, 1] if v == "Size" else [1, 0, 2]
                        ok = ok and idx == want_idx
            ctx.check(ok, "D5-APPLY", DFB, "line=%s" % v, "Line::%s -> %s" % (v, want or "no effect"),
                      "Line::%s is not handled as `%s` with the line's own fields" % (v, want or "no effect"), fn_span(body))
        # D5-LINES: every line of the input reaches Line::from_bytes as raw bytes: the lines are the pieces of a byte-level split of the
        # input at b'\n' (no UTF-8 decoding, no adapter that can end or thin the stream), and the loop ends only when the pieces are exhausted
        lfb = [e for p in paths for e in p.events if e.kind == "call" and e.path == LFB]
        ctx.floor("D5-LINES", DFB, "Line::from_bytes call sites reached", len({e.bb for e in lfb}), 1)
        seen_bb = set()
        for e in lfb:
            if e.bb in seen_bb:
                continue
            seen_bb.add(e.bb)
            a = strip_refs(e.args[0])
            nx = a[1][1] if isinstance(a, tuple) and a[0] == "field" and a[2] == 0 and isinstance(a[1], tuple) and a[1][0] == "downcast" and a[1][2] == "Some" else None
            okn = is_call(nx, "slice::Split<'a, T, P> as std::iter::Iterator>::next", "slice::Split as std::iter::Iterator>::next")
            sp_calls = find_calls(nx, "[T]>::split") if okn else []
            oks = bool(sp_calls) and strip_refs(call_args(sp_calls[0])[0]) == ("param", 1)
            okc = False
            if oks:
                cl = call_args(sp_calls[0])[1]
                ck = cl[2] if isinstance(cl, tuple) and cl[0] == "agg" and cl[1] == "closure" else None
                cps = ctx.paths(ck) if ck else None
                okc = bool(cps) and all(isinstance(cp.end[1], tuple) and cp.end[1][0] == "binop" and cp.end[1][1] == "Eq" and 10 in (const_int(cp.end[1][2]), const_int(cp.end[1][3])) for cp in ret_paths(cps))
            # nothing but into_iter between the split and the loop
            direct = okn and all(is_call(s_, "IntoIterator>::into_iter", "[T]>::split", "Iterator>::next") for s_ in subterms(nx) if is_call(s_))
            ctx.check(okn and oks and okc and direct, "D5-LINES", DFB, "line-source", "lines = bytes.split(|c| *c == b'\\n'), passed to Line::from_bytes as raw bytes",
                      "the argument of Line::from_bytes is %s: lines must be the pieces of a byte-level split of the input at '\\n' (a UTF-8 line reader or an adapter that stops at an error drops recognised lines)" % term_str(a)[:200],
                      body.span_of(e.bb))
        rets = ret_paths(paths)
        exh = [p for p in rets if any(c.term[0] == "discr" and is_call(c.term[1], "Iterator>::next") and c.fact == ("eq", 0) for c in p.conds())]
        ctx.check(bool(rets) and len(exh) == len(rets), "D5-LINES", DFB, "exhaustive", "returns only after the line iterator is exhausted",
                  "Distinfo::from_bytes can return before every line was looked at (%d of %d returning paths leave the loop early)" % (len(rets) - len(exh), len(rets)), fn_span(body), nontrivial=False)

    # ---- the accessors through which the recorded entries are observed
    distinfo_accessors(ctx, "D3-ACCESSOR")

    # ---- which field of a line is the keyword / the name / the value (shared with C10, where the positions are derived from the writer's line shape)
    import rules.c10 as c10
    from check import Ctx, Record
    sub = Ctx("C10", ctx.tier, ctx.fx)
    sub.no_share = True
    sub.inline_set = ctx.inline_set
    sub.desugar = bool(getattr(c10, "DESUGAR", False))
    sub.splice = getattr(c10, "SPLICE_LOOP_HELPERS", False)
    try:
        c10.run(sub)
        shared = [r for r in sub.records if r.rule in ("D3-POSITIONS", "D2-NAME-RAW", "D3-KEYWORD")]
    except Exception:
        shared = None
    if shared is None:
        ctx.violation("D5-FIELDS", LFB, "positions", "the field-position rules could not be evaluated", "")
    else:
        ctx.floor("D5-FIELDS", LFB, "shared field-position rule instances", len(shared), 3)
        for r in shared:
            ctx.records.append(Record("D5-FIELDS", r.item, "%s:%s" % (r.rule, r.instance), r.verdict, r.detail, r.span, r.nontrivial))

