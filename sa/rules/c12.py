"""C12 — checksum and size verification passes only for files that really match (structural clauses)."""
from lib import *
from rules.distinfo_common import *
from rules.c13 import patch_filter

EXPLANATION = (
    "D1 hash-by-type table: Distfile -> Digest::hash_file, Patchfile -> Digest::hash_patch, identical in verify_checksum_internal and calculate_checksum; the patch hash skips exactly the lines containing $NetBSD (filter-shape rule shared with C13); "
    "D2 verdicts are full equality tests (String != String on computed vs recorded hash, u64 != on file length vs recorded size) with error payloads in (expected, actual) order; "
    "absent size -> MissingSize, no matching digest -> MissingChecksum, digest filter by PartialEq on Digest; I/O and digest errors propagated with `?`; "
    "D3 find_entry grows the candidate key by prepending components in reverse order and returns the first hit, exhaustion -> NotFound; the Distinfo::verify_* wrappers call find_entry first and propagate its error; `the first checksum with the requested digest, else MissingChecksum` is decided on the first_match normal form (for-loop with continue, or .iter().find(..) with let-else); Distinfo::verify_checksums may delegate to Entry::verify_checksums of the entry found for the same path"
    " D4-DIGEST-DISPATCH each algorithm dispatches to its own hasher and patches to the patch-filtering routine: C13's D1-DISPATCH verdicts are shared instances."
    " D3-LOOKUP#every-component find_entry walks all components of the path (rev() of the path's own iterator, no other adaptor).")
NOT_DECIDED = ["digest correctness (C13 / RustCrypto)", "file-system semantics (File::open, metadata().len())", "Path component semantics"]
CONFIG_SENSITIVE = False
DESUGAR = True

VCI = "distinfo::Entry::verify_checksum_internal"
CC = "distinfo::Distinfo::calculate_checksum"
VS = "distinfo::Entry::verify_size"
FE = "distinfo::Distinfo::find_entry"
HASHERS = {"Distfile": "digest::Digest::hash_file", "Patchfile": "digest::Digest::hash_patch"}


def type_table(ctx, fn, scrut_pred):
    fx = ctx.fx
    out = {}
    for p in ctx.paths(fn) or []:
        v = None
        for (t, fact) in discr_facts(p):
            if scrut_pred(strip_refs(t)) and fact[0] == "eq":
                v = variant_by_discr(fx, ET, fact[1])
        if v is None:
            continue
        hs = {e.path for e in p.events if e.kind == "call" and e.path.startswith("digest::Digest::hash_")}
        out.setdefault(v, set()).update(hs)
    return out


def run(ctx):
    fx = ctx.fx
    # the patch hash that verification compares against must drop every line containing $NetBSD (shared with C13 D5)
    patch_filter(ctx, fx, spec("digests.json"))
    # ---- D1
    tabs = {}
    for fn, pred in ((VCI, lambda t: isinstance(t, tuple) and t[0] == "field" and t[3] == "filetype"),
                     (CC, lambda t: is_call(t, ET_FROM) or is_call(t, "EntryType as std::convert::From"))):
        body = ctx.body(fn)
        if body is None:
            continue
        tab = type_table(ctx, fn, pred)
        tabs[fn] = tab
        for v, h in HASHERS.items():
            ctx.check(tab.get(v) == {h}, "D1-HASH-BY-TYPE", fn, "type=%s" % v, "%s -> %s" % (v, h.split("::")[-1]),
                      "%s entries are hashed with %s; expected %s" % (v, sorted(tab.get(v, [])), h), fn_span(body))
    if len(tabs) == 2:
        ctx.check(tabs[VCI] == tabs[CC], "D1-SIBLINGS", "distinfo", "verify-vs-calculate", "verification and generation hash alike",
                  "verify_checksum_internal and calculate_checksum dispatch differently: %s vs %s" % (tabs[VCI], tabs[CC]))
    # calculate_checksum classifies the path it opens and uses the requested digest
    ps = ctx.paths(CC)
    if ps:
        body = ctx.body(CC)
        for i, p in enumerate(x for x in ret_paths(ps) if unwrap_ok(x.end[1]) is not None):
            h = [e for e in p.events if e.kind == "call" and e.path.startswith("digest::Digest::hash_")]
            op = p.calls("File::open")
            cl = [e for e in p.events if ev_is(e, ET_FROM) or (e.kind == "call" and "EntryType as std::convert::From" in e.name)]
            ok = len(h) == 1 and strip_refs(h[0].args[0]) == ("param", 2) and bool(op) and mentions(op[0].args[0], lambda s: s == ("param", 1)) \
                and bool(cl) and mentions(cl[0].args[0], lambda s: s == ("param", 1))
            ctx.check(ok, "D1-CALCULATE", CC, "ok-path-%d" % i, "hash(requested digest) of the opened path, type from the same path",
                      "calculate_checksum does not hash the given path with the requested digest / classify the same path", fn_span(body))

    # ---- D2 verify_checksum_internal
    ps = ctx.paths(VCI)
    if ps:
        body = ctx.body(VCI)
        rets = ret_paths(ps)
        # "the first recorded checksum with the requested digest, or MissingChecksum": the for-loop with `continue` and
        # `.iter().find(|c| c.digest == digest)` have one normal form; on the found paths the digest test is a condition either way
        fm = first_match(ctx, VCI, ps)
        ctx.check(fm is not None and isinstance(fm["coll"], tuple) and fm["coll"][0] == "field" and fm["coll"][3] == "checksums", "D2-DIGEST-FILTER", VCI, "first-match-over-checksums",
                  "works on the first recorded checksum that passes a test (%s form)" % (fm["form"] if fm else "?"),
                  "verify_checksum_internal is not `the first checksum of self.checksums passing a test, else a fallback`", fn_span(body), nontrivial=False)
        if fm is not None:
            rets = [p for p in rets if p not in [getattr(q, "p", q) for q in fm["found"]]] + list(fm["found"])
        exhausted = [getattr(q, "p", q) for q in fm["exhausted"]] if fm else []
        oks = [p for p in rets if unwrap_ok(p.end[1]) is not None]
        errs = [(p, agg_variant(unwrap_err(p.end[1]))) for p in rets if unwrap_err(p.end[1]) is not None and agg_variant(unwrap_err(p.end[1]))]

        def cmp_cond(p):
            for c in reversed(p.conds()):
                e = eq_call(c.term)
                if e and any(mentions(x, lambda s: s[0] == "field" and s[3] == "hash") for x in (e[1], e[2])):
                    return c, e
            return None, None
        ctx.floor("D2-CHECKSUM", VCI, "Ok paths", len(oks), 1)
        for i, p in enumerate(oks):
            c, e = cmp_cond(p)
            ok = c is not None
            if ok:
                neg, a, b = e
                equal = (c.fact == ("eq", True)) != neg
                comp = a if not mentions(a, lambda s: s[0] == "field" and s[3] == "hash") else b
                okc = bool(find_calls(comp, "digest::Digest::hash_file", "digest::Digest::hash_patch"))
                full = "String" in eq_self_type(c.term) or "str" in eq_self_type(c.term)
                ok = equal and okc and full and not find_calls(c.term, "starts_with", "ends_with", "contains", "eq_ignore_ascii_case")
            ctx.check(ok, "D2-CHECKSUM", VCI, "ok-path-%d" % i, "Ok only when computed hash == recorded hash (String equality)",
                      "verify_checksum returns Ok on a path where the computed hash was not compared equal (full String equality) to the recorded hash", fn_span(body))
            # the digest filter
            df = [x for x in p.conds() if eq_call(x.term) and "digest::Digest" in eq_self_type(x.term)]
            okd = bool(df) and any(((x.fact == ("eq", True)) != eq_call(x.term)[0]) and
                                   {strip_refs(eq_call(x.term)[1]), strip_refs(eq_call(x.term)[2])} >= {("param", 3)} for x in df)
            ctx.check(okd, "D2-DIGEST-FILTER", VCI, "ok-path-%d" % i, "the compared checksum has the requested digest",
                      "verify_checksum can succeed on a checksum whose digest differs from the requested one", fn_span(body))
        ck = [(p, a) for p, a in errs if a[1] == "Checksum"]
        ctx.floor("D2-CHECKSUM", VCI, "Checksum-error paths", len(ck), 1)
        for i, (p, a) in enumerate(ck):
            ops = a[2]
            c, e = cmp_cond(p)
            ok = c is not None and len(ops) == 4
            if ok:
                neg, x, y = e
                equal = (c.fact == ("eq", True)) != neg
                ok = (not equal) and mentions(ops[0], lambda s: s[0] == "field" and s[3] == "filename") \
                    and mentions(ops[1], lambda s: s[0] == "field" and s[3] == "digest") \
                    and mentions(ops[2], lambda s: s[0] == "field" and s[3] == "hash") \
                    and bool(find_calls(ops[3], "digest::Digest::hash_file", "digest::Digest::hash_patch")) \
                    and not mentions(ops[3], lambda s: s[0] == "field" and s[3] == "hash")
            ctx.check(ok, "D2-CHECKSUM-ERR", VCI, "err-path-%d" % i, "Checksum(filename, digest, expected=recorded, actual=computed)",
                      "the Checksum error is not raised exactly on inequality with payload (filename, digest, recorded, computed)", fn_span(body))
        mc = [(p, a) for p, a in errs if a[1] == "MissingChecksum"]
        ok = bool(mc)
        for p, a in mc:
            ok = ok and getattr(p, "p", p) in exhausted and strip_refs(a[2][1]) == ("param", 3)
        # ... and nothing else is returned when no checksum has the digest
        ok = ok and all(any(p is q or getattr(p, "p", p) is q for p, a in mc) for q in exhausted)
        ctx.check(ok, "D2-MISSING", VCI, "missing-checksum", "loop exhausted -> MissingChecksum(path, digest)",
                  "MissingChecksum is not returned exactly when no recorded checksum has the requested digest", fn_span(body))
        errprop(ctx, VCI, ps, body, rule="D2-ERRPROP", no_effects_after_error=(), floor=2)

    # ---- D2 verify_size
    ps = ctx.paths(VS)
    if ps:
        body = ctx.body(VS)
        rets = ret_paths(ps)

        def size_cmp(p):
            for c in reversed(p.conds()):
                t = c.term
                if isinstance(t, tuple) and t[0] == "binop" and t[1] in ("Ne", "Eq"):
                    return c
            return None
        for i, p in enumerate(rets):
            okv = unwrap_ok(p.end[1])
            er = agg_variant(unwrap_err(p.end[1])) if unwrap_err(p.end[1]) is not None else None
            c = size_cmp(p)
            if okv is not None:
                good = c is not None
                if good:
                    t = c.term
                    equal = (c.fact == ("eq", True)) == (t[1] == "Eq")
                    sides = (t[2], t[3])
                    good = equal and any(is_call(s, "Metadata::len") for s in sides) and any(mentions(s, lambda u: u[0] == "field" and u[3] == "size") for s in sides)
                ctx.check(good, "D2-SIZE", VS, "ok-path-%d" % i, "Ok only when metadata().len() == recorded size",
                          "verify_size returns Ok without the file length having been compared equal to the recorded size", fn_span(body))
            elif er and er[1] == "Size":
                t = c.term if c else None
                equal = c is not None and ((c.fact == ("eq", True)) == (t[1] == "Eq"))
                ops = er[2]
                good = c is not None and not equal and len(ops) == 3 and mentions(ops[0], lambda s: s[0] == "field" and s[3] == "filename") \
                    and mentions(ops[1], lambda s: s[0] == "field" and s[3] == "size") and is_call(strip_refs(ops[2]), "Metadata::len")
                ctx.check(good, "D2-SIZE-ERR", VS, "err-path-%d" % i, "Size(filename, expected=recorded, actual=length)",
                          "the Size error is not raised exactly on inequality with payload (filename, recorded, actual)", fn_span(body))
            elif er and er[1] == "MissingSize":
                sd = [c2 for c2 in p.conds() if c2.term[0] == "discr" and mentions(c2.term[1], lambda s: s[0] == "field" and s[3] == "size")]
                good = bool(sd) and (sd[-1].fact == ("eq", 0) or (sd[-1].fact[0] == "ne" and 1 in sd[-1].fact[1]))
                ctx.check(good, "D2-MISSING", VS, "missing-size", "no recorded size -> MissingSize", "MissingSize is returned although a size is recorded", fn_span(body))
        # every outcome of verify_size is one of the four the property names: Ok, Size, MissingSize, or a propagated I/O error; and the
        # path on which no size is recorded ends in MissingSize (not in some other error)
        nosize = [p for p in ret_paths(ps) if any(c2.term[0] == "discr" and mentions(c2.term[1], lambda s_: s_[0] == "field" and s_[3] == "size") and
                                                  (c2.fact == ("eq", 0) or (c2.fact[0] == "ne" and 1 in c2.fact[1])) for c2 in p.conds())]
        okm = bool(nosize) and all(unwrap_err(p.end[1]) is not None and agg_variant(unwrap_err(p.end[1])) and agg_variant(unwrap_err(p.end[1]))[1] == "MissingSize" for p in nosize)
        ctx.check(okm, "D2-MISSING", VS, "no-size-is-missing-size", "an entry without a recorded size -> Err(MissingSize(path))",
                  "verify_size does not answer MissingSize when the entry records no size (%s)" % sorted({str(agg_variant(unwrap_err(p.end[1]))[1]) if unwrap_err(p.end[1]) is not None and agg_variant(unwrap_err(p.end[1])) else "?" for p in nosize}), fn_span(body))
        errprop(ctx, VS, ps, body, rule="D2-ERRPROP", no_effects_after_error=(), floor=2)

    # ---- D3 find_entry
    ps = ctx.paths(FE)
    if ps:
        body = ctx.body(FE)
        nexts = [e for p in ps for e in p.events if e.kind == "call" and e.bb in body.loops and e.name.endswith("::next")]
        okrev = bool(nexts) and all(mentions(e.args[0], lambda s: is_call(s, "::rev")) and mentions(e.args[0], lambda s: is_call(s, "Path::iter", "Path::components")) and mentions(e.args[0], lambda s: s == ("param", 2)) for e in nexts)
        ctx.check(okrev, "D3-LOOKUP", FE, "reverse-components", "iterates the path's components last to first",
                  "find_entry does not iterate the components of its path argument in reverse", fn_span(body))
        # ... all of them: nothing between the path's iterator and the loop but rev() (take / skip / step_by / filter would leave trailing sub-paths untried)
        from lib import _iter_source
        def only_rev(t):
            t = strip_refs(t)
            for _ in range(8):
                while isinstance(t, tuple) and t and t[0] in ("ref", "refmut"):
                    t = t[1]
                if isinstance(t, tuple) and t and t[0] == "loc" and len(t) > 2:
                    t = t[2]
                elif isinstance(t, tuple) and t and t[0] == "havoc" and len(t) > 3:
                    t = t[3]
                elif is_call(t, "Iterator::rev", "IntoIterator>::into_iter") and call_args(t):
                    t = call_args(t)[0]
                else:
                    break
            return is_call(t, "Path::iter", "Path::components")
        ctx.check(bool(nexts) and all(only_rev(e.args[0]) for e in nexts), "D3-LOOKUP", FE, "every-component", "every trailing sub-path is tried (rev() of the path's own iterator, nothing else)",
                  "the loop does not walk all components of the path (an adaptor other than rev() sits on the iterator): some trailing sub-paths are never looked up", fn_span(body))
        hits = [p for p in ret_paths(ps) if unwrap_ok(p.end[1]) is not None]
        ctx.floor("D3-LOOKUP", FE, "hit paths", len(hits), 2)
        shapes = set()

        def lookups(p):
            """[(which map, event)] for the map lookups on a path: through the accessors get_distfile / get_patchfile (D5-ACCESSOR), or
            directly with IndexMap::get on self.distfiles / self.patchfiles (also through a reference selected once before the loop)"""
            out = []
            for e in p.events:
                if ev_is(e, "Distinfo::get_distfile"):
                    out.append(("distfiles", e))
                elif ev_is(e, "Distinfo::get_patchfile"):
                    out.append(("patchfiles", e))
                elif ev_is(e, "IndexMap::get") and e.args:
                    fl = [x[3] for x in subterms(e.args[0]) if x[0] == "field" and x[3] in ("distfiles", "patchfiles") and strip_refs(x[1]) in (("param", 1), ("deref", ("param", 1)))]
                    if len(set(fl)) == 1:
                        out.append((fl[0], e))
            return out
        for p in hits:
            g = [e for _, e in lookups(p)]
            key = strip_refs(g[-1].args[1]) if g else None
            while is_call(key, "PathBuf::as_path", "Deref>::deref", "AsRef", "::as_ref", "Borrow") and call_args(key):
                key = strip_refs(call_args(key)[0])
            comp = lambda s: s[0] == "field" and isinstance(s[1], tuple) and s[1][0] == "downcast" and is_call(s[1][1], "::next")
            if is_call(key, "Path::join"):
                a, b = call_args(key)
                pre = mentions(a, comp) and isinstance(strip_refs(b), tuple) and strip_refs(b)[0] == "havoc" and not mentions(b, comp)
                shapes.add("component.join(previous)" if pre else "other-join")
            elif is_call(key, "::from") and mentions(key, comp):
                shapes.add("component")
            else:
                shapes.add("other")
            okret = unwrap_ok(p.end[1]) is not None and g and mentions(unwrap_ok(p.end[1]), lambda s: s == g[-1].term)
            ctx.check(bool(okret), "D3-LOOKUP", FE, "first-hit-returns", "the first hit is returned", "a hit does not return the entry that was found", fn_span(body), nontrivial=False)
        ctx.check(shapes == {"component", "component.join(previous)"}, "D3-LOOKUP", FE, "key-growth", "candidate = component, then component.join(previous candidate)",
                  "the lookup key grows as %s; expected the trailing sub-path to grow by prepending each earlier component" % sorted(shapes), fn_span(body))
        # which map is searched: the one the given path's name classifies into (patch names in patchfiles, everything else in distfiles)
        ET = "distinfo::EntryType"
        sel = {}
        cls_ok = True
        for p in ps:
            v = None
            for (t, fact) in discr_facts(p):
                st = strip_refs(t)
                if is_call(st, "EntryType as std::convert::From<P>>::from", "EntryType::from") and fact[0] == "eq":
                    v = variant_by_discr(fx, ET, fact[1])
                    arg = content(call_args(st)[0])
                    if arg != ("param", 2) and not (is_call(arg, "AsRef", "::as_ref") and content(call_args(arg)[0]) == ("param", 2)):
                        cls_ok = False
            if v is None:
                continue
            for m_, e in lookups(p):
                sel.setdefault(v, set()).add(m_)
        ctx.check(sel.get("Distfile") == {"distfiles"} and sel.get("Patchfile") == {"patchfiles"} and cls_ok, "D3-LOOKUP", FE, "map-by-name-class",
                  "patch names are looked up among patch entries, other names among distfiles; the class is that of the given path",
                  "find_entry searches %s (class taken from the path argument itself: %s): an entry recorded as a patch must be looked up among the patches and vice versa" % (
                      {k: sorted(v) for k, v in sel.items()}, cls_ok), fn_span(body))
        nf = [p for p in ret_paths(ps) if unwrap_err(p.end[1]) is not None]
        ok = bool(nf) and all(agg_variant(unwrap_err(p.end[1])) and agg_variant(unwrap_err(p.end[1]))[1] == "NotFound" and
                              any(c.term[0] == "discr" and is_call(c.term[1], "::next") and c.fact == ("eq", 0) for c in p.conds()) for p in nf)
        ctx.check(ok, "D3-LOOKUP", FE, "not-found", "exhaustion -> NotFound", "find_entry does not return NotFound exactly when every trailing sub-path misses", fn_span(body))
        # the loop-carried candidate is updated with the new key
        backs = [p for p in ps if p.end[0] == "back"]
        okb = bool(backs) and all(not (isinstance(v, tuple) and v[0] == "havoc") for p in backs for l, v in p.env.items() if body.local_name(l) == "file")
        ctx.check(okb, "D3-LOOKUP", FE, "candidate-carried", "the candidate is carried to the next iteration", "the candidate key is not updated on a miss", fn_span(body), nontrivial=False)
    for fn in ("distinfo::Distinfo::verify_size", "distinfo::Distinfo::verify_checksum"):
        ps = ctx.paths(fn)
        if not ps:
            continue
        body = ctx.body(fn)
        for i, p in enumerate(ret_paths(ps)):
            fe = p.calls(FE)
            inner = [e for e in p.events if e.kind == "call" and e.path in (VS, VCI, "distinfo::Entry::verify_checksum")]
            if inner:
                ok = bool(fe) and mentions(inner[0].args[0], lambda s: s == fe[0].term) and mentions(fe[0].args[1], lambda s: s == ("param", 2)) and p.end[1] == inner[0].term \
                    and mentions(inner[0].args[1], lambda s: s == ("param", 2)) and not mentions(inner[0].args[1], lambda s: s == fe[0].term)
                ctx.check(ok, "D3-WRAPPER", fn, "ok-path-%d" % i, "find_entry(path)?.verify(path)", "%s does not verify against the entry found for the same path" % fn, fn_span(body))
        errprop(ctx, fn, ps, body, rule="D3-ERRPROP", no_effects_after_error=("Entry::verify_",), floor=1, skip=("Entry::verify_",))

    # verify_checksums: one verdict per recorded checksum, in order, each for that checksum's own digest
    for fn in ("distinfo::Entry::verify_checksums", "distinfo::Distinfo::verify_checksums"):
        ps = ctx.paths(fn)
        if not ps:
            continue
        body = ctx.body(fn)
        backs = [p for p in ps if p.end[0] == "back"]
        ok = bool(backs)
        if not backs and fn == "distinfo::Distinfo::verify_checksums":
            # delegation: the verdicts are Entry::verify_checksums of the entry found for the same path (that function carries this rule itself)
            EV = "distinfo::Entry::verify_checksums"
            okp = [p for p in ret_paths(ps) if is_call(strip_refs(p.end[1]), EV)]
            ok = bool(okp) and bool(ctx.paths(EV))
            for p in okp:
                t = strip_refs(p.end[1])
                ent = strip_refs(call_args(t)[0])
                fe = find_calls(ent, FE)
                ok = ok and isinstance(ent, tuple) and ent[0] == "field" and isinstance(ent[1], tuple) and ent[1][0] == "downcast" and ent[1][2] == "Ok" and bool(fe) \
                    and strip_refs(fe[0]) == strip_refs(ent[1][1]) and mentions(call_args(fe[0])[1], lambda s: s == ("param", 2)) and strip_refs(call_args(fe[0])[0]) == ("param", 1) \
                    and mentions(call_args(t)[1], lambda s: s == ("param", 2)) and not mentions(call_args(t)[1], lambda s: is_call(s, FE))
        if not backs and not ok:
            # the same list built with .iter().map(|c| verify_checksum_internal(path, c.digest)).collect() (lib.accumulation: one item per element, in order)
            rp = ret_paths(ps)
            acc = accumulation(ctx, fn, rp[0].end[1], ps) if len(rp) == 1 else None
            if acc is not None and acc["form"] == "collect":
                it = strip_refs(acc["item"])
                ok = isinstance(acc["src"], tuple) and acc["src"][0] == "field" and acc["src"][3] == "checksums" and is_call(it, VCI) and len(call_args(it)) == 3 \
                    and mentions(call_args(it)[2], lambda s: s[0] == "field" and s[3] == "digest") and is_elem(call_args(it)[2]) \
                    and mentions(call_args(it)[1], lambda s: s == ("param", 2)) and not is_elem(call_args(it)[1]) \
                    and strip_refs(acc["src"][1]) == deval(call_args(it)[0])
        for p in backs:
            pu = [e for e in p.events if ev_is(e, "Vec::push")]
            nx = [e for e in p.events if e.kind == "call" and e.name.endswith("::next") and e.bb in body.loops]
            ok = ok and len(pu) == 1 and bool(nx) and is_call(pu[0].args[1], VCI) and mentions(nx[0].args[0], lambda s: s[0] == "field" and s[3] == "checksums") \
                and mentions(call_args(pu[0].args[1])[2], lambda s: s[0] == "field" and s[3] == "digest" and mentions(s, lambda u: u == nx[0].term)) \
                and mentions(call_args(pu[0].args[1])[1], lambda s: s == ("param", 2)) and not mentions(nx[0].args[0], lambda s: is_call(s, "::rev", "::skip", "::take", "::filter"))
        ctx.check(ok, "D2-ALL-CHECKSUMS", fn, "one-verdict-per-checksum", "results.push(verify_checksum_internal(path, c.digest)) for every recorded checksum, in order",
                  "%s does not produce exactly one verdict per recorded checksum (in order, for that checksum's own digest, on the given path)" % fn, fn_span(body))

    # ---- the lookups verification starts from
    distinfo_accessors(ctx, "D5-ACCESSOR", only=("get_distfile", "get_patchfile"))

    # ---- D4-DIGEST-DISPATCH: verification compares against Digest::hash_file / hash_patch of the recorded algorithm: each algorithm must dispatch
    #      to its own hasher and, for patches, to the patch-filtering routine (C13's D1-DISPATCH verdicts, shared)
    share_rules(ctx, "C13", ("D1-DISPATCH",), "D4-DIGEST-DISPATCH", "digest::Digest::hash_patch", 12)
