"""C13 — digests equal the standard algorithms (structural clauses)."""
import re
from lib import *

EXPLANATION = (
    "D1 dispatch tables of hash_file/hash_patch/hash_str with resolved generic digest type and typenum-decoded output size; "
    "D2 name tables (from_str after lower-casing, Display) mutually inverse and equal to the spec; "
    "D3 error propagation in the three internals (io::copy / each split line through `?`, nothing hashed after an error); "
    "D4 hex encoding template {:02x} folded over the whole finalize() output; "
    "D5 patch filter shape: split on \\n, windows(len(marker)).any(== \"$NetBSD\"), skipped line -> no update, kept line -> update(line), update(\"\\n\"); the line source may be BufRead::split(b'\n') or one reused buffer with clear(); read_until(b'\n'); stop at 0; pop the delimiter if present (each step required)")
NOT_DECIDED = [
    "that the RustCrypto cores implement the standard algorithms (trusted base)",
    "io::copy / BufRead::split retry-on-Interrupted behaviour (std contract)",
    "equality of the hex string for every byte string (follows from D1,D3,D4 + std formatting)",
]
CONFIG_SENSITIVE = False
DESUGAR = True

ENUM = "digest::Digest"
DISPATCH = {
    "digest::Digest::hash_file": "digest::hash_file_internal",
    "digest::Digest::hash_patch": "digest::hash_patch_internal",
    "digest::Digest::hash_str": "digest::hash_str_internal",
}


def decode_digest_type(g):
    """(core type path, output bytes or None) from a normalised RustCrypto type string"""
    m = re.search(r"([A-Za-z0-9_]+::[A-Za-z0-9_]+Core)\b", g.replace("digest::core_api::", ""))
    core = m.group(1) if m else None
    out = None
    if "CtVariableCoreWrapper" in g:
        bits = re.findall(r"typenum::B([01])", g)
        if bits:
            out = int("".join(bits), 2)
    return core, out


def run(ctx):
    fx = ctx.fx
    sp = spec("digests.json")
    algs = sp["algorithms"]
    variants = enum_variants(fx, ENUM)
    ctx.check(sorted(variants) == sorted(algs), "D1-ENUM", ENUM, "variants",
              "enum variants %s" % variants, "enum variants %s differ from spec %s" % (variants, sorted(algs)), nontrivial=True)

    # ---- D1 dispatch
    for fn, internal in DISPATCH.items():
        paths = ctx.paths(fn)
        body = ctx.body(fn)
        if not paths:
            continue
        rows = {}
        for p in ret_paths(paths):
            v = self_discr_variant(fx, p, ENUM, lambda t: strip_refs(t) == ('param', 1))
            calls = [e for e in p.events if e.kind == "call" and e.path.startswith("digest::hash_")]
            rows.setdefault(v, []).append((p, calls))
        n = 0
        for name, a in algs.items():
            inst = "variant=%s" % name
            ent = rows.get(name)
            if not ent:
                ctx.violation("D1-DISPATCH", fn, inst, "no path selects variant %s" % name, fn_span(body))
                continue
            for (p, calls) in ent:
                n += 1
                if len(calls) != 1:
                    ctx.violation("D1-DISPATCH", fn, inst, "expected exactly one hash_*_internal call, found %d" % len(calls), fn_span(body))
                    continue
                e = calls[0]
                core, out = decode_digest_type(e.func["gargs"][-1] if e.func["gargs"] else "")
                okfam = e.path == internal
                okcore = core == a["core"]
                oksize = (out is None) or out == a["out_bytes"]
                # argument is the caller's input, result is returned unchanged
                inp = strip_refs(e.args[0]) if e.args else None
                okarg = inp == ("param", 2)
                okret = p.end[1] == e.term
                ctx.check(okfam and okcore and oksize and okarg and okret, "D1-DISPATCH", fn, inst,
                          "%s -> %s::<%s,%s bytes>" % (name, e.path, core, out if out is not None else a["out_bytes"]),
                          "%s dispatches to %s with digest core %s (output %s bytes), input %s, returned=%s; spec: %s with %s (%d bytes), input = caller's argument, result returned unchanged"
                          % (name, e.path, core, out, term_str(inp), okret, internal, a["core"], a["out_bytes"]),
                          body.span_of(e.bb))
        ctx.floor("D1-DISPATCH", fn, "dispatch rows", n, 6)

    # ---- D2 name tables
    fs = "<digest::Digest as std::str::FromStr>::from_str"
    paths = ctx.paths(fs)
    parse = {}
    if paths:
        body = ctx.body(fs)
        default_err = False
        for p in ret_paths(paths):
            pos, negs = true_str_lits(p)
            okv = unwrap_ok(p.end[1])
            if pos:
                lit, scrut = pos[0]
                a = agg_variant(okv) if okv else None
                parse[lit] = a[1] if a else None
                lowered = bool(find_calls(scrut, "::to_lowercase", "::to_ascii_lowercase"))
                src = [s for s in subterms(scrut) if s == ("param", 1)]
                ctx.check(lowered and bool(src), "D2-CASEFOLD", fs, "literal=%s" % lit,
                          "scrutinee is the lower-cased input",
                          "literal %r is compared against %s, which is not the lower-cased input: parsing is not case-insensitive" % (lit, term_str(scrut)),
                          fn_span(body))
            else:
                er = unwrap_err(p.end[1])
                a = agg_variant(er) if er else None
                default_err = bool(a and a[1] == "Unsupported")
                ctx.check(default_err, "D2-DEFAULT", fs, "default", "unknown names -> Err(Unsupported)",
                          "default arm returns %s, expected Err(Unsupported(..))" % term_str(p.end[1]), fn_span(body))
        for name in algs:
            got = parse.get(name.lower())
            ctx.check(got == name, "D2-PARSE", fs, "name=%s" % name, "%r -> %s" % (name.lower(), got),
                      "lower-cased name %r parses to %s, expected %s" % (name.lower(), got, name), fn_span(body))
        extra = sorted(set(parse) - {n.lower() for n in algs})
        ctx.check(not extra, "D2-PARSE", fs, "no-extra-literals", "accepted literals = spec",
                  "from_str accepts extra literals %s" % extra, fn_span(body))
        ctx.floor("D2-PARSE", fs, "literals", len(parse), 6)
    fd = "<digest::Digest as std::fmt::Display>::fmt"
    paths = ctx.paths(fd)
    if paths:
        body = ctx.body(fd)
        disp = {}
        for p in ret_paths(paths):
            v = self_discr_variant(fx, p, ENUM, lambda t: strip_refs(t) == ('param', 1))
            lits = fmt_literal_writes(p)
            disp.setdefault(v, []).append(lits)
        for name in algs:
            got = disp.get(name)
            ok = got is not None and all(l == [name] for l in got)
            ctx.check(ok, "D2-DISPLAY", fd, "variant=%s" % name, "%s prints %r" % (name, name),
                      "%s prints %s, expected exactly %r" % (name, got, name), fn_span(body))
            # round trip through the parser
            ctx.check(parse.get(name.lower()) == name, "D2-ROUNDTRIP", fd, "variant=%s" % name,
                      "Display(%s) lower-cased parses back to %s" % (name, name),
                      "Display(%s) does not parse back to the same variant" % name, fn_span(body))
        ctx.floor("D2-DISPLAY", fd, "rows", len([k for k in disp if isinstance(k, str)]), 6)

    # ---- D3 / D4 internals
    for fn in ("digest::hash_file_internal", "digest::hash_patch_internal", "digest::hash_str_internal"):
        paths = ctx.paths(fn)
        if not paths:
            continue
        body = ctx.body(fn)
        oks = [p for p in ret_paths(paths) if unwrap_ok(p.end[1]) is not None]
        ctx.floor("D4-HEX", fn, "Ok-returning paths", len(oks), 1)
        for i, p in enumerate(oks):
            v = unwrap_ok(p.end[1])
            # the same encoding moved into a helper that did not exist when the rules were written: to_hex(&hasher.finalize())
            hv = strip_refs(v)
            hk = hv[1] if is_call(hv) and hv[1] in ctx.inline_set else (mir.norm_path(hv[1]) if is_call(hv) and mir.norm_path(hv[1]) in ctx.inline_set else None)
            takes_hasher = hk is not None and len(call_args(hv)) == 1 and isinstance(strip_refs(call_args(hv)[0]), tuple) and strip_refs(call_args(hv)[0])[0] in ("havoc", "mutated", "loc") \
                and any(ev_is(e_, "Digest::finalize") and strip_refs(e_.args[0]) == ("param", 1) for q_ in (ctx.paths(hk) or []) for e_ in q_.events)
            if hk is not None and len(call_args(hv)) == 1 and (is_call(content(call_args(hv)[0]), "::finalize") or takes_hasher):
                okh, why = hex_helper(ctx, fx, hk, sp["hex_template"])
                ctx.check(okh, "D4-HEX", fn, "ok-path-%d" % i, "Ok(%s(finalize())) where the helper appends {:02x} of every byte in order" % hk.split("::")[-1],
                          "the result is %s(finalize()) but %s" % (hk, why), fn_span(body))
                continue
            if isinstance(hv, tuple) and hv and hv[0] in ("havoc", "mutated") and not is_call(v, "::fold"):
                # the same encoding as a loop in this function: for b in finalize().iter() { out.push_str(&format!("{b:02x}")) }  Ok(out)
                okh, why = hex_helper(ctx, fx, fn, sp["hex_template"], inline=True)
                ctx.check(okh, "D4-HEX", fn, "ok-path-%d" % i, "Ok(String built by a loop appending {:02x} of every finalize() byte in order)",
                          "the result is a String accumulated in this function but %s" % why, fn_span(body))
                continue
            if is_call(hv, "Iterator::collect") and len(call_args(hv)) == 1 and is_call(strip_refs(call_args(hv)[0]), "Iterator::map"):
                # the same encoding as finalize().iter().map(|b| format!("{b:02x}")).collect::<String>(): String's FromIterator<String> appends
                # the pieces in iteration order (the value is returned as the function's String, so the collection is a String)
                mp = strip_refs(call_args(hv)[0])
                it = strip_refs(call_args(mp)[0])
                good = is_call(it, "::iter") and is_call(strip_refs(call_args(it)[0]), "::finalize")
                clo = strip_refs(call_args(mp)[1])
                ckey = clo[2] if isinstance(clo, tuple) and clo[0] == "agg" and clo[1] == "closure" else None
                good = good and ckey is not None and check_hex_closure(ctx, fx, fn, ckey, sp["hex_template"], mapped=True)
                ctx.check(good, "D4-HEX", fn, "ok-path-%d" % i, "Ok(collect(map(iter(finalize(hasher)), hex closure)))",
                          "Ok value is %s; expected every byte of the whole finalize() output, in order, mapped to its two hex digits and collected" % term_str(v)[:200], fn_span(body))
                continue
            good = is_call(v, "::fold")
            detail = term_str(v)
            if good:
                it = strip_refs(call_args(v)[0])
                good = is_call(it, "::iter") and is_call(strip_refs(call_args(it)[0]), "::finalize")
                acc = call_args(v)[1]
                good = good and is_call(acc, "String::new")
                clo = call_args(v)[2]
                ckey = clo[2] if isinstance(clo, tuple) and clo[0] == "agg" and clo[1] == "closure" else None
                good = good and ckey is not None
                if ckey:
                    check_hex_closure(ctx, fx, fn, ckey, sp["hex_template"])
            ctx.check(good, "D4-HEX", fn, "ok-path-%d" % i,
                      "Ok(fold(iter(finalize(hasher)), String::new(), hex closure))",
                      "Ok value is %s; expected a fold over the whole finalize() output starting from an empty String" % detail,
                      fn_span(body))
        errprop(ctx, fn, paths, body, floor=0 if fn.endswith('hash_str_internal') else 1)

    # hash_file_internal: io::copy(reader, &mut hasher) then finalize(hasher)
    fn = "digest::hash_file_internal"
    paths = ctx.paths(fn)
    if paths:
        body = ctx.body(fn)
        for i, p in enumerate(p for p in ret_paths(paths) if unwrap_ok(p.end[1]) is not None):
            cp = p.calls("std::io::copy")
            ok = len(cp) == 1 and strip_refs(cp[0].args[0]) == ("param", 1)
            ups = [e for e in p.events if e.kind == "call" and e.path.endswith(("::update", "::chain_update"))]
            ctx.check(ok and not ups, "D3-FILE", fn, "ok-path-%d" % i, "io::copy(reader, hasher) is the only feeding call",
                      "expected exactly one io::copy from the reader argument and no other update", fn_span(body))
    # hash_str_internal: update(hasher, s) exactly once
    fn = "digest::hash_str_internal"
    paths = ctx.paths(fn)
    if paths:
        body = ctx.body(fn)
        for i, p in enumerate(ret_paths(paths)):
            ups = [e for e in p.events if e.kind == "call" and e.path.endswith(("::update", "::chain_update"))]
            u1 = strip_refs(ups[0].args[1]) if len(ups) == 1 else None
            chained_ok = True
            if len(ups) == 1 and ups[0].path.endswith("::chain_update"):
                # D::new().chain_update(s).finalize(): the hasher fed is a fresh one and the one finalised is the one that was fed
                fin = [e for e in p.events if e.kind == "call" and e.path.endswith("::finalize")]
                chained_ok = is_call(strip_refs(ups[0].args[0]), "Digest::new", "::new") and len(fin) == 1 and strip_refs(fin[0].args[0]) == strip_refs(ups[0].term)
            if is_call(u1, "str>::as_bytes", "String::as_bytes", "AsRef") and call_args(u1):
                u1 = strip_refs(call_args(u1)[0])       # the same bytes (update takes impl AsRef<[u8]>)
            ok = len(ups) == 1 and u1 == ("param", 1) and chained_ok
            ctx.check(ok, "D3-STR", fn, "path-%d" % i, "update(hasher, s) exactly once",
                      "expected exactly one update with the input string, found %s" % [term_str(u.args[1]) for u in ups], fn_span(body))

    patch_filter(ctx, fx, sp)


def hex_helper(ctx, fx, hk, template, inline=False):
    """a helper fn(bytes) -> String that encodes its argument: one loop driven by a slice iterator over the parameter, one format site
    with the hex template inside that loop whose argument is the loop element, the returned String starts empty and is only appended to.
    inline=True: the same loop written in the hashing function itself, over the output of finalize() of its hasher, the String returned in Ok(..)"""
    hb = ctx.body(hk)
    hps = ctx.paths(hk)
    if hb is None or not hps:
        return False, "its body is not available"
    tmpl = [fmt_template(s_) for s_ in fmt_sites_in(fx, hb)]
    nibbles = tmpl == []
    if not nibbles and tmpl != [template]:
        return False, "it formats with %s, expected exactly [%r] (two lower-case hex digits per byte)" % (tmpl, template)
    from lib import _iter_source
    if inline:
        # the loop that walks the finalize() output (the function may have another loop that feeds the hasher)
        cand = []
        for h_ in hb.loops:
            d_ = [c for p in hps for c in p.conds() if c.term[0] == "discr" and is_call(strip_refs(c.term[1]), "::next") and strip_refs(c.term[1])[4] == h_]
            if d_ and is_call(_iter_source(call_args(strip_refs(d_[0].term[1]))[0]), "::finalize"):
                cand.append(h_)
        if len(cand) != 1:
            return False, "it has %d loops over the finalize() output, expected one" % len(cand)
        h = cand[0]
    else:
        if len(hb.loops) != 1:
            return False, "it has %d loops, expected one over the bytes" % len(hb.loops)
        h = next(iter(hb.loops))
    drv = [c for p in hps for c in p.conds() if c.term[0] == "discr" and is_call(strip_refs(c.term[1]), "::next") and strip_refs(c.term[1])[4] == h]
    src = _iter_source(call_args(strip_refs(drv[0].term[1]))[0]) if drv else None
    # the bytes it is given, or the output of finalize() of the hasher it is given
    src_ok = src == ("param", 1) or (is_call(src, "::finalize") and strip_refs(call_args(src)[0]) == ("param", 1)) or (inline and is_call(src, "::finalize"))
    if not drv or "slice::Iter" not in strip_refs(drv[0].term[1])[1] or not src_ok:
        return False, "its loop is not a forward iteration over the slice it is given"
    if nibbles:
        # the same two lower-case hex digits per byte taken from a digit table: push(TABLE[b >> 4]); push(TABLE[b & 15]) with TABLE = "0123456789abcdef"
        nx = strip_refs(drv[0].term[1])
        elem = ("field", ("downcast", nx, "Some"), 0, "0")

        def digit(t, how):
            t = strip_refs(t)
            for _ in range(3):
                if is_call(t, "From for char>::from", "char::from", "::from") and len(call_args(t)) == 1:
                    t = strip_refs(call_args(t)[0])
                elif isinstance(t, tuple) and t and t[0] == "cast":
                    t = strip_refs(t[-1])
            if not (isinstance(t, tuple) and t and t[0] == "index"):
                return False
            tb = t[1]
            while isinstance(tb, tuple) and tb and tb[0] in ("deref", "ref"):
                tb = tb[1]
            if const_bytes(tb) != "0123456789abcdef" and const_str(tb) != "0123456789abcdef":
                return False
            ix = strip_refs(t[2])
            for _ in range(3):
                if is_call(ix, "for usize>::from", "usize::from", "::from") and len(call_args(ix)) == 1:
                    ix = strip_refs(call_args(ix)[0])
                elif isinstance(ix, tuple) and ix and ix[0] == "cast":
                    ix = strip_refs(ix[-1])
            if not (isinstance(ix, tuple) and ix and ix[0] == "binop"):
                return False
            b = ix[2]
            while isinstance(b, tuple) and b and b[0] in ("deref", "ref"):
                b = b[1]
            if b[:3] != elem[:3]:
                return False
            return (ix[1] == "Shr" and const_int(ix[3]) == 4) if how == "hi" else (ix[1] == "BitAnd" and const_int(ix[3]) == 15)
        backs = [p for p in hps if p.end[0] == "back" and p.end[1] == h]
        if not backs:
            return False, "its loop has no iteration path"
        for p in backs:
            pu = [e for e in p.events if ev_is(e, "String::push") and e.bb in hb.loops[h]]
            if not (len(pu) == 2 and digit(pu[0].args[1], "hi") and digit(pu[1].args[1], "lo")):
                return False, "a byte is not appended as TABLE[b >> 4] followed by TABLE[b & 15] with TABLE = \"0123456789abcdef\""
    wf = [] if nibbles else [e for p in hps for e in p.events if e.kind == "call" and fmt_site_for_call(fx, hb, e.bb) is not None and e.bb in hb.loops[h]]
    args = [a for e in wf for (_, a) in fmt_call_args(e.term if hasattr(e, "term") else None) or []]
    elem_ok = any(mentions(a, lambda s_: s_[0] == "downcast" and s_[2] == "Some" and is_call(strip_refs(s_[1]), "::next")) for e in wf for a in e.args) or \
        any(mentions(e2.args[-1] if e2.args else None, lambda s_: s_[0] == "downcast" and s_[2] == "Some" and is_call(strip_refs(s_[1]), "::next"))
            for p in hps for e2 in p.events if e2.kind == "call" and e2.bb in hb.loops[h] and ("Argument" in e2.path))
    if not elem_ok and not nibbles:
        return False, "the formatted value is not the byte the loop is looking at"
    rets = ret_paths(hps)
    if inline:
        rets = [PathWith(p, []) for p in rets if unwrap_ok(p.end[1]) is not None]
        for p in rets:
            p.end = ("return", unwrap_ok(p.end[1]))
    locs = {p.end[1][1] for p in rets if isinstance(p.end[1], tuple) and p.end[1][0] in ("havoc", "mutated")}
    if len(locs) != 1 or len(rets) != sum(1 for p in rets if isinstance(p.end[1], tuple) and p.end[1][0] in ("havoc", "mutated")):
        return False, "it does not return the String it accumulates"
    loc_ = next(iter(locs))
    mu = mutators_of(hps, lambda t: isinstance(t, tuple) and t[0] == "loc" and t[1] == loc_)
    bad = sorted(k for k in mu if k not in ("push_str", "write_fmt", "write_str", "push", "add_assign", "extend"))
    if bad or not mu:
        return False, "the accumulated String is also modified through %s" % (bad or "nothing")
    init = [p.end[1][3] for p in rets if isinstance(p.end[1], tuple) and p.end[1][0] == "havoc" and len(p.end[1]) > 3]
    if not all(is_call(strip_refs(x), "String::new", "String::with_capacity") for x in init if x is not None):
        return False, "the accumulated String does not start empty"
    return True, ""


def check_hex_closure(ctx, fx, owner, ckey, template, mapped=False):
    body = ctx.body(ckey)
    if body is None:
        return False
    sites = fmt_sites_in(fx, body)
    tmpl = [fmt_template(s) for s in sites]
    ctx.check(tmpl == [template], "D4-HEXFMT", ckey, "template",
              "format template %s" % tmpl, "hex closure formats with %s, expected exactly [%r] (two lower-case hex digits per byte)" % (tmpl, template),
              fn_span(body))
    paths = ctx.paths(ckey)
    if mapped:
        # |b| format!("{b:02x}"): the value returned is the formatted byte handed in
        allok = bool(ret_paths(paths))
        for i, p in enumerate(ret_paths(paths)):
            hx = [e for e in p.events if e.kind == "call" and "Argument" in e.path and "::new_" in e.path]
            okarg = len(hx) == 1 and hx[0].path.endswith("new_lower_hex") and deval(hx[0].args[0]) == ("param", 2)
            r = strip_refs(p.end[1])
            if is_call(r, "hint::must_use") and len(call_args(r)) == 1:
                r = strip_refs(call_args(r)[0])
            okret = is_call(r, "fmt::format") and len(find_calls(p.end[1], "fmt::format")) == 1
            ctx.check(okarg and okret, "D4-HEXFMT", ckey, "body-%d" % i, "returns format!(LowerHex(byte))",
                      "closure does not return the formatted byte it is handed (arg=%s ret=%s)" % (okarg, term_str(p.end[1])[:120]), fn_span(body))
            allok = allok and okarg and okret
        return allok and tmpl == [template]
    for i, p in enumerate(ret_paths(paths)):
        hx = [e for e in p.events if e.kind == "call" and "Argument" in e.path and "::new_" in e.path]
        okarg = len(hx) == 1 and hx[0].path.endswith("new_lower_hex") and strip_refs(hx[0].args[0]) == ("param", 3)
        push = [e for e in p.events if e.kind == "call" and e.path.endswith("String::push_str")]
        okpush = len(push) == 1 and isinstance(push[0].args[0], tuple) and push[0].args[0][0] == "refmut" and push[0].args[0][1][:2] == ("loc", 2)
        okfmt = okpush and bool(find_calls(push[0].args[1], "fmt::format"))
        r = p.end[1]
        okret = isinstance(r, tuple) and r[0] == "mutated" and r[1] == 2
        ctx.check(okarg and okpush and okfmt and okret, "D4-HEXFMT", ckey, "body-%d" % i,
                  "pushes format!(LowerHex(byte)) onto the accumulator and returns it",
                  "closure does not push the formatted byte onto the accumulator and return it (arg=%s push=%s ret=%s)" % (okarg, okpush, term_str(r)),
                  fn_span(body))


def patch_filter(ctx, fx, sp):
    fn = "digest::hash_patch_internal"
    paths = ctx.paths(fn)
    if not paths:
        return
    body = ctx.body(fn)
    marker = sp["patch_marker"]
    splits = [e for p in paths for e in p.calls("::split") if "BufRead" in e.path]
    ru = [e for p in paths for e in p.calls("BufRead::read_until")]
    backs = [p for p in paths if p.end[0] == "back"]
    bufline = {}
    if not splits and ru:
        # the other way to take lines off a reader: one buffer, per iteration  clear(); n = read_until(b'\n', &mut buf)?; n == 0 ends the loop;
        # the delimiter, if it was read, is popped off.  What is left in the buffer is the line as BufRead::split would have delivered it.
        okp = all(const_int(e.args[1]) == 10 for e in ru) and bool(backs)

        def loc_of(a):
            return a[1][1] if isinstance(a, tuple) and a[0] == "refmut" and isinstance(a[1], tuple) and a[1][0] == "loc" else None
        for p in backs + [q for q in ret_paths(paths)]:
            r_ = [e for e in p.events if ev_is(e, "BufRead::read_until")]
            if len(r_) != 1:
                okp = okp and p not in backs and not r_
                continue
            L = loc_of(r_[0].args[2])
            muts = [e for e in p.events if e.kind == "call" and e.args and loc_of(e.args[0]) == L and L is not None] + ([r_[0]])
            muts = sorted({id(e): e for e in muts}.values(), key=lambda e: p.events.index(e))
            names = [mir.norm_path(e.path).rsplit("::", 1)[-1] for e in muts]
            zero = [c for c in p.conds() if isinstance(c.term, tuple) and c.term[0] == "binop" and c.term[1] in ("Eq", "Ne") and const_int(c.term[3]) == 0 and mentions(c.term[2], lambda s_: s_ == r_[0].term)]
            okd = [c for c in p.conds() if c.term[0] == "discr" and strip_refs(c.term[1]) == r_[0].term]
            if okd and okd[-1].fact != ("eq", 0):
                continue            # the read failed: the error path (D5-ERRPROP)
            ended = bool(zero) and ((zero[-1].fact == ("eq", True)) == (zero[-1].term[1] == "Eq"))
            # the buffer is empty when read_until appends to it: cleared at the top of every iteration, or created empty and cleared at the bottom
            clear_first = names[:2] == ["clear", "read_until"]
            hvL = [x for x in subterms(r_[0].args[2]) if x[0] == "havoc" and x[1] == L and len(x) > 3]
            clear_last = names[:1] == ["read_until"] and bool(hvL) and all(is_call(strip_refs(x[3]), "Vec::new", "Vec::<T>::new", "Vec::with_capacity") for x in hvL)
            okp = okp and L is not None and (clear_first or clear_last) and bool(zero)
            rest = names[2:] if clear_first else names[1:]
            if p in backs:
                lastc = [c for c in p.conds() if eq_call(c.term) and mentions(c.term, lambda s_: is_call(s_, "[T]>::last")) and mentions(c.term, lambda s_: s_[0] == "agg" and s_[3] == "Some" and const_int(s_[4][0]) == 10)]
                has_nl = bool(lastc) and ((lastc[-1].fact == ("eq", True)) != eq_call(lastc[-1].term)[0])
                okp = okp and not ended and bool(lastc) and rest == (["pop"] if has_nl else []) + ([] if clear_first else ["clear"])
                bufline[id(p)] = L
            else:
                okp = okp and ended and rest == []
        rd = [e.args[0] for e in ru]
        okr = all(mentions(a, lambda s_: is_call(s_, "BufReader::new", "BufReader::<R>::new") and strip_refs(call_args(s_)[0]) == ("param", 1)) for a in rd)
        ok = okp and okr
        ctx.check(ok, "D5-SPLIT", fn, "delimiter", "lines are read with clear(); read_until(b'\\n'); stop at 0; pop the delimiter (one reused buffer)",
                  "the read_until line loop is not `clear, read up to byte 10, stop when nothing was read, drop the delimiter if present`", fn_span(body))
    else:
        ok = bool(splits) and all(const_int(e.args[1]) == 10 for e in splits)
        ctx.check(ok, "D5-SPLIT", fn, "delimiter", "lines come from BufRead::split(b'\\n')",
                  "lines are not produced by BufRead::split on byte 10", fn_span(body))
    ctx.floor("D5-FILTER", fn, "loop back-edge paths", len(backs), 2)
    saw_skip = saw_keep = False
    for i, p in enumerate(backs):
        anyc = [e for e in p.events if e.kind == "call" and e.path.endswith("::any")]
        ups = [e for e in p.events if e.kind == "call" and e.path.endswith(("::update", "::chain_update"))]
        if not anyc:
            ctx.violation("D5-FILTER", fn, "back-path-%d" % i, "a loop iteration reaches the back edge without evaluating the $NetBSD filter", body.span_of(p.blocks[-1]))
            continue
        a = anyc[0]
        win = strip_refs(a.args[0])
        win = win if is_call(win, "::windows") else None
        n = const_int(call_args(win)[1]) if win else None
        line_t = strip_refs(call_args(win)[0]) if win else None
        clo = a.args[1]
        ckey = clo[2] if isinstance(clo, tuple) and clo[0] == "agg" and clo[1] == "closure" else None
        mk = None
        if ckey:
            cps = ctx.paths(ckey)
            for cp in ret_paths(cps or []):
                e = eq_call(cp.end[1])
                if e:
                    for side in (e[1], e[2]):
                        b = const_bytes(strip_refs(resolve_promoted(ctx, strip_refs(side))))
                        if b is not None:
                            mk = b
                    other = [s for s in (e[1], e[2]) if strip_refs(s) == ("param", 2)]
                    if not other or e[0]:
                        mk = None
        ctx.check(mk == marker and n == len(marker), "D5-MARKER", fn, "back-path-%d" % i,
                  "windows(%s).any(w == %r)" % (n, mk),
                  "filter is windows(%s).any(== %r); expected window size %d and marker %r" % (n, mk, len(marker), marker),
                  body.span_of(a.bb))
        cond = [c for c in p.conds() if c.term == a.term]
        skipped = bool(cond) and cond[0].fact == ("eq", True)
        if skipped:
            saw_skip = True
            ctx.check(not ups, "D5-FILTER", fn, "skip-path-%d" % i, "a matching line is not hashed",
                      "a line containing the marker still reaches update()", body.span_of(a.bb))
        else:
            saw_keep = True
            # the line as the splitter delivered it: the Ok payload of Split::next()'s item, not a local that was edited in between (pop, truncate, retain ...)
            lt = line_t
            pristine = isinstance(lt, tuple) and lt and lt[0] != "mutated" and not is_call(lt) and mentions(lt, lambda s_: is_call(s_, "io::Split<B> as std::iter::Iterator>::next", "Split as std::iter::Iterator>::next"))
            if id(p) in bufline:
                # the buffer of the read_until loop, as left by clear / read_until / pop-of-the-delimiter (D5-SPLIT), not edited again before it is hashed
                L = bufline[id(p)]
                l0 = lt
                while is_call(l0, "Deref>::deref", "::as_slice") and call_args(l0):
                    l0 = strip_refs(call_args(l0)[0])
                later = [e for e in p.events if e.kind == "call" and e.args and isinstance(e.args[0], tuple) and e.args[0][0] == "refmut" and isinstance(e.args[0][1], tuple)
                         and e.args[0][1][:2] == ("loc", L) and p.events.index(e) > p.events.index(a) and not (ev_is(e, "Vec::clear") and not any(p.events.index(u_) > p.events.index(e) for u_ in ups))]
                pristine = isinstance(l0, tuple) and l0[0] == "mutated" and l0[1] == L and not later
                line_t = l0
                ups = [u_ for u_ in ups]
                if len(ups) == 2:
                    u0 = strip_refs(ups[0].args[1])
                    while is_call(u0, "Deref>::deref", "::as_slice") and call_args(u0):
                        u0 = strip_refs(call_args(u0)[0])
                    if u0 == l0:
                        line_t = strip_refs(ups[0].args[1])
            ok = len(ups) == 2 and strip_refs(ups[0].args[1]) == line_t and const_bytes(ups[1].args[1]) == "\n" and pristine
            if not ok and pristine and len(ups) == 1:
                # the same bytes in one call: line.push(b'\n'); update(&line) - the only edit of the line between the filter and the update
                # is appending the newline that the splitter removed
                ua = ups[0].args[1]
                ul = [x for x in subterms(ua) if x[0] in ("mutated", "loc") and isinstance(x[1], int)]
                lloc = ul[0][1] if ul else None
                muts = [e for e in p.events if e.kind == "call" and e.args and isinstance(e.args[0], tuple) and e.args[0][0] == "refmut" and isinstance(e.args[0][1], tuple)
                        and e.args[0][1][0] == "loc" and e.args[0][1][1] == lloc and p.events.index(e) > p.events.index(a)]
                ok = lloc is not None and len(muts) == 1 and ev_is(muts[0], "Vec::push") and const_int(muts[0].args[1]) == 10 \
                    and strip_refs(muts[0].args[0][1][2]) == line_t and p.events.index(muts[0]) < p.events.index(ups[0])
            ctx.check(ok, "D5-FILTER", fn, "keep-path-%d" % i, "kept line: update(line); update(b\"\\n\")",
                      "kept line is followed by %s; expected exactly update(line) then update(b\"\\n\")" % [term_str(u.args[1]) for u in ups],
                      body.span_of(a.bb))
    ctx.check(saw_skip and saw_keep, "D5-FILTER", fn, "both-arms", "skip and keep arms both present",
              "the line loop lacks a %s arm" % ("skip" if not saw_skip else "keep"), fn_span(body))
