"""C14 — PLIST parses to one entry per non-blank line, arguments kept byte for byte (structural clauses)."""
from lib import *

EXPLANATION = (
    "D1 command table of PlistEntry::from_bytes: 18 command literals x (argument present / absent) -> entry kind or error kind, payload encoding raw (OsString::from of the argument bytes) or UTF-8 (String::from_utf8 with `?`), "
    "unknown '@' command -> UnsupportedCommand, no '@' -> File(whole line); no lossy conversion reaches a payload; "
    "D2 Plist::from_bytes produces entries only by PlistEntry::from_bytes(&bytes[s..e])? for each recorded (s,e), in recording order; "
    "D3 the guards of both line-recording sites compare the first-non-blank cursor with the line end without a net offset (difference-bound normal form k = 0) and agree with each other; "
    "D3-TRANSFER the scan loop's per-byte transfer table by role: newline -> line start and cursor := idx+1, flag := true; leading blank -> cursor += 1; any other byte -> flag := false; the line start never moves inside a line; all start at 0/true "
    "(so the invariant 'start = 1 + previous newline, cursor = start + leading blanks, flag <=> only blanks so far' is inductive and the recorded ranges are the exact non-blank lines); "
    "D4 blank-ness and argument stripping are decided on bytes (no u8-as-char cast into a Unicode char predicate); D1-SPLIT how a line is cut: separator = first b' ' (position over the whole line), command word = bytes[0..sep] or the whole line, argument = first non-blank at or after sep (a cursor moved one byte per blank, or sep.. plus the position of the first non-blank); the recording sites may record (start,end) pairs for a second pass or parse and push the entry themselves (single pass)")
NOT_DECIDED = [
    "the induction itself (invariant + D3-TRANSFER + D3-LINE-GUARD => exact bounds) is a pen-and-paper step recorded in DESIGN.md, not re-proved per run; Enumerate yields consecutive indices from 0 (std)",
    "slice / OsStr / String::from_utf8 semantics (std)",
]
CONFIG_SENSITIVE = False
DESUGAR = True
SPLICE_LOOP_HELPERS = True    # a looping helper extracted from an anchored function is judged as part of its caller (mir.splice_loop_helpers)

PE = "plist::PlistEntry"
EFB = "plist::PlistEntry::from_bytes"
PFB = "plist::Plist::from_bytes"
SFN = PFB      # the function holding the line scan: from_bytes itself, or a helper it hands the bytes to
UNICODE_PREDICATES = ("char>::is_whitespace", "char>::is_alphabetic", "char>::is_numeric", "char>::is_alphanumeric",
                      "char>::is_lowercase", "char>::is_uppercase", "char>::is_control")


def scan_transfer(ctx, body, paths, guards):
    """Per-iteration transfer function of Plist::from_bytes' scan loop, by role.
    With it the loop invariant (start = 1 + position of the previous newline; cursor = start + number of leading blank bytes seen, = idx while
    the flag is still set; flag set <=> only blank bytes since start) is inductive, and with D3-LINE-GUARD (k = 0) a range is recorded exactly
    for the lines that contain a non-blank byte, with the exact bounds [start, newline) / [start, len)."""
    R = "D3-TRANSFER"
    inloop = [(bb, g) for bb, g in guards.items() if body.in_any_loop(bb)]
    atend = [(bb, g) for bb, g in guards.items() if not body.in_any_loop(bb)]
    if len(inloop) != 1 or len(atend) != 1:
        ctx.violation(R, SFN, "sites", "expected one in-loop and one end-of-input recording site, found %d and %d" % (len(inloop), len(atend)), fn_span(body))
        return
    (ibb, (S, IDX, iatoms, ie)), (ebb, (S2, E2, eatoms, ee)) = inloop[0], atend[0]

    def hl(t):
        return t[1] if isinstance(t, tuple) and t and t[0] == "havoc" else None
    start = hl(S)
    ok = start is not None and hl(S2) == start
    ctx.check(ok, R, SFN, "start-role", "both sites record (start, ..) with the same line-start variable",
              "the two recording sites do not use one line-start variable (%s vs %s)" % (term_str(S), term_str(S2)), fn_span(body))
    ctx.check(is_call(strip_refs(E2), "[T]>::len") and strip_refs(call_args(strip_refs(E2))[0]) == ("param", 1), R, SFN, "end-of-input-bound", "(start, bytes.len())",
              "the end-of-input site records %s as the line end, expected bytes.len()" % term_str(E2), body.span_of(ebb))
    if not ok:
        return
    il = {hl(x) for (x, _, _) in iatoms} - {None}
    el = {hl(x) for (x, _, _) in eatoms} - {None}
    cursor = (il & el) - {start}
    aliases = (il | el) - cursor
    ctx.check(len(cursor) == 1, R, SFN, "cursor-role", "one first-non-blank cursor tested at both sites", "first-non-blank cursor not identified: %s" % sorted(cursor), fn_span(body))
    if len(cursor) != 1:
        return
    cur = next(iter(cursor))
    header = next((h for h, blks in body.loops.items() if ibb in blks), None)
    backs = [p for p in paths if p.end[0] == "back" and p.end[1] == header]
    # four kinds of iteration at least (newline, leading blank, first non-blank, later byte: the `rows` check below names them); how many
    # paths the recording guard adds on top depends on how it is spelled
    ctx.floor(R, SFN, "scan-loop back-edge paths", len(backs), 4)
    # the byte under the cursor: the .1 sibling of the enumerate item whose .0 is the index
    item = IDX[1] if isinstance(IDX, tuple) and IDX[0] == "field" and IDX[2] == 0 else None
    ctx.check(item is not None and bool(find_calls(item, "Enumerate<I> as std::iter::Iterator>::next")) and
              bool(find_calls(item, "[T]>::iter")) and mentions(item, lambda s: s == ("param", 1)), R, SFN, "index-role",
              "the line end recorded in the loop is the enumerate() index over bytes.iter()",
              "the in-loop line end %s is not the position of the current byte of `bytes`" % term_str(IDX), body.span_of(ibb))
    if item is None:
        return

    def is_byte(t):
        t = strip_refs(t)
        while isinstance(t, tuple) and t and t[0] == "deref":
            t = strip_refs(t[1])
        return isinstance(t, tuple) and t and t[0] == "field" and t[2] == 1 and t[1] == item

    def unchanged(p, l):
        v = p.env.get(l)
        return v is None or (isinstance(v, tuple) and v[0] == "havoc" and v[1] == l)

    def idx_plus_1(v):
        return isinstance(v, tuple) and v[0] == "binop" and v[1] == "Add" and v[2] == IDX and const_int(v[3]) == 1

    # initial values
    for l in sorted(aliases | cursor):
        init = S[3] if l == start else next((x[3] for (x, _, _) in iatoms + eatoms if hl(x) == l), None)
        ctx.check(const_int(init) == 0, R, SFN, "init:%s" % body.local_name(l), "starts at 0", "%s starts at %s, expected 0" % (body.local_name(l), term_str(init)), fn_span(body), nontrivial=False)
    flags = set()
    for p in backs:
        for c in p.conds():
            if isinstance(c.term, tuple) and c.term[0] == "havoc" and body.f["locals"][c.term[1]]["ty"] == "bool":
                flags.add(c.term[1])
                ctx.check(const_of(c.term[3]) is True, R, SFN, "init:%s" % body.local_name(c.term[1]), "trimming flag starts set",
                          "the trimming flag %s starts as %s" % (body.local_name(c.term[1]), term_str(c.term[3])), fn_span(body), nontrivial=False)
    ctx.check(len(flags) == 1, R, SFN, "flag-role", "one trimming flag", "trimming flag not identified: %s" % sorted(flags), fn_span(body))
    if len(flags) != 1:
        return
    flag = next(iter(flags))
    seen_rows = set()
    for p in backs:
        nl = None
        ws = None
        fl = None
        for c in p.conds():
            t = c.term
            truth = c.fact == ("eq", True)
            if isinstance(t, tuple) and t[0] == "binop" and t[1] in ("Eq", "Ne") and ((is_byte(t[2]) and const_int(t[3]) == 10) or (is_byte(t[3]) and const_int(t[2]) == 10)):
                nl = truth if t[1] == "Eq" else not truth
            elif is_byte(t) and c.fact[0] in ("eq", "ne"):
                # match *ch { b'\n' => .. } : a switch on the byte itself
                if c.fact == ("eq", 10):
                    nl = True
                elif c.fact[0] == "ne" and 10 in c.fact[1]:
                    nl = False
            elif isinstance(t, tuple) and t[0] == "havoc" and t[1] == flag:
                fl = truth
            elif is_call(t, "is_ascii_whitespace") and is_byte(call_args(t)[0]):
                ws = truth
        pushed = any(ev_is(e, "Vec::push") and e.bb == ibb for e in p.events)
        row = (nl, fl, ws)
        seen_rows.add(row)
        inst = "newline=%s,trimming=%s,blank=%s" % row
        sp_ = body.span_of(p.blocks[-2]) if len(p.blocks) > 1 else fn_span(body)
        if nl is None:
            ctx.violation(R, SFN, inst, "a scan-loop iteration does not test the current byte against '\\n'", sp_)
            continue
        if nl:
            bad = [body.local_name(l) for l in sorted(aliases | cursor) if not idx_plus_1(p.env.get(l))]
            ctx.check(not bad, R, SFN, inst + (":recorded" if pushed else ""), "line start, cursor := idx + 1", "after a newline %s is not reset to idx + 1 (%s)" % (
                bad, [term_str(p.env.get(l)) for l in sorted(aliases | cursor) if not idx_plus_1(p.env.get(l))]), sp_)
            ctx.check(const_of(p.env.get(flag)) is True, R, SFN, inst + (":recorded" if pushed else "") + ":flag", "trimming flag := true",
                      "after a newline the trimming flag is %s" % term_str(p.env.get(flag)), sp_, nontrivial=False)
            continue
        # inside a line: the line start never moves, nothing is recorded
        moved = [body.local_name(l) for l in sorted(aliases) if not unchanged(p, l)]
        ctx.check(not moved and not pushed, R, SFN, inst + ":start", "line start unchanged, nothing recorded",
                  "inside a line %s" % ("a range is recorded" if pushed else "%s is modified" % moved), sp_)
        cv = p.env.get(cur)
        bumped = isinstance(cv, tuple) and cv[0] == "binop" and cv[1] == "Add" and const_int(cv[3]) == 1 and ((isinstance(cv[2], tuple) and cv[2][0] == "havoc" and cv[2][1] == cur) or cv[2] == IDX)
        if fl is True and ws is True:
            ctx.check(bumped and unchanged(p, flag), R, SFN, inst + ":cursor", "cursor += 1, flag kept",
                      "a leading blank byte does not advance the first-non-blank cursor by one (cursor = %s, flag = %s)" % (term_str(cv), term_str(p.env.get(flag))), sp_)
        else:
            ctx.check(unchanged(p, cur) and const_of(p.env.get(flag)) is False, R, SFN, inst + ":cursor", "cursor kept, flag := false",
                      "a byte that is not a leading blank %s" % ("moves the cursor (%s)" % term_str(cv) if not unchanged(p, cur) else "leaves the trimming flag %s" % term_str(p.env.get(flag))), sp_)
    need = {(False, True, True), (False, True, False), (False, False, None)}
    ctx.check(need <= seen_rows and any(r[0] for r in seen_rows), R, SFN, "rows", "newline / leading blank / first non-blank / later byte all handled",
              "scan loop rows %s do not cover newline, leading blank, first non-blank and later bytes" % sorted(seen_rows, key=str), fn_span(body), nontrivial=False)


def scan_transfer_flag(ctx, body, paths, guards, flag):
    """The scan loop in its flag form: state = (line start, `blank so far` flag).  Per byte: newline -> [record (start, idx) iff the flag is clear];
    start := idx + 1; flag := set.  Any other byte: start unchanged, nothing recorded; a non-blank byte clears the flag, a blank byte leaves it.
    At the end of input (start, len) is recorded iff the flag is clear.  With the flag set initially and start = 0, the invariant
    `flag set <=> no non-blank byte since start; start = 1 + position of the previous newline` is inductive, and a range is recorded exactly for the
    lines that contain a non-blank byte, with the exact bounds."""
    R = "D3-TRANSFER"
    inloop = [(bb, g) for bb, g in guards.items() if body.in_any_loop(bb)]
    atend = [(bb, g) for bb, g in guards.items() if not body.in_any_loop(bb)]
    if len(inloop) != 1 or len(atend) != 1:
        ctx.violation(R, SFN, "sites", "expected one in-loop and one end-of-input recording site, found %d and %d" % (len(inloop), len(atend)), fn_span(body))
        return
    (ibb, (S, IDX, _, ie)), (ebb, (S2, E2, _, ee)) = inloop[0], atend[0]

    def hl(t):
        return t[1] if isinstance(t, tuple) and t and t[0] == "havoc" else None
    start = hl(S)
    ctx.check(start is not None and hl(S2) == start, R, SFN, "start-role", "both sites record (start, ..) with the same line-start variable",
              "the two recording sites do not use one line-start variable (%s vs %s)" % (term_str(S), term_str(S2)), fn_span(body))
    ctx.check(length_of(E2) is not None and length_of(E2) == ("param", 1), R, SFN, "end-of-input-bound", "(start, bytes.len())",
              "the end-of-input site records %s as the line end, expected bytes.len()" % term_str(E2), body.span_of(ebb))
    if start is None or hl(S2) != start:
        return
    header = next((h for h, blks in body.loops.items() if ibb in blks), None)
    backs = [p for p in paths if p.end[0] == "back" and p.end[1] == header]
    ctx.floor(R, SFN, "scan-loop back-edge paths", len(backs), 4)
    item = IDX[1] if isinstance(IDX, tuple) and IDX[0] == "field" and IDX[2] == 0 else None
    ctx.check(item is not None and bool(find_calls(item, "Enumerate<I> as std::iter::Iterator>::next")) and bool(find_calls(item, "[T]>::iter")) and mentions(item, lambda s: s == ("param", 1)),
              R, SFN, "index-role", "the line end recorded in the loop is the enumerate() index over bytes.iter()",
              "the in-loop line end %s is not the position of the current byte of `bytes`" % term_str(IDX), body.span_of(ibb))
    if item is None:
        return

    def is_byte(t):
        t = strip_refs(t)
        while isinstance(t, tuple) and t and t[0] == "deref":
            t = strip_refs(t[1])
        return isinstance(t, tuple) and t and t[0] == "field" and t[2] == 1 and t[1] == item

    def unchanged(p, l):
        v = p.env.get(l)
        return v is None or (isinstance(v, tuple) and v[0] == "havoc" and v[1] == l)
    inits = {}
    for p in backs:
        for c in p.conds():
            for x in subterms(c.term):
                if x[0] == "havoc" and len(x) > 3 and x[1] in (start, flag):
                    inits[x[1]] = x[3]
    ctx.check(const_int(S[3]) == 0 if len(S) > 3 else False, R, SFN, "init:start", "starts at 0", "the line start does not start at 0", fn_span(body), nontrivial=False)
    ctx.check(const_of(inits.get(flag)) is True, R, SFN, "init:flag", "the blank flag starts set", "the blank-so-far flag starts as %s" % term_str(inits.get(flag)), fn_span(body), nontrivial=False)
    rows = set()
    for p in backs:
        nl = ws = fl = None
        for c in p.conds():
            t = c.term
            truth = c.fact == ("eq", True)
            if isinstance(t, tuple) and t[0] == "binop" and t[1] in ("Eq", "Ne") and ((is_byte(t[2]) and const_int(t[3]) == 10) or (is_byte(t[3]) and const_int(t[2]) == 10)):
                nl = truth if t[1] == "Eq" else not truth
            elif is_byte(t) and c.fact[0] in ("eq", "ne"):
                nl = True if c.fact == ("eq", 10) else (False if c.fact[0] == "ne" and 10 in c.fact[1] else nl)
            elif isinstance(t, tuple) and t[0] == "havoc" and t[1] == flag:
                fl = truth
            elif is_call(t, "is_ascii_whitespace") and is_byte(call_args(t)[0]):
                ws = truth
        pushed = any(ev_is(e, "Vec::push") and e.bb == ibb for e in p.events)
        inst = "newline=%s,blank-so-far=%s,blank-byte=%s" % (nl, fl, ws)
        rows.add((nl, ws))
        sp_ = body.span_of(p.blocks[-2]) if len(p.blocks) > 1 else fn_span(body)
        if nl is None:
            ctx.violation(R, SFN, inst, "a scan-loop iteration does not test the current byte against '\\n'", sp_)
            continue
        sv = p.env.get(start)
        fv = p.env.get(flag)
        if nl:
            ok = isinstance(sv, tuple) and sv[0] == "binop" and sv[1] == "Add" and sv[2] == IDX and const_int(sv[3]) == 1 and const_of(fv) is True and (pushed == (fl is False))
            ctx.check(ok, R, SFN, inst, "record iff not blank; line start := idx + 1; flag := set",
                      "after a newline: start=%s flag=%s recorded=%s (flag was %s)" % (term_str(sv), term_str(fv), pushed, fl), sp_)
        elif ws is False:
            ctx.check(unchanged(p, start) and const_of(fv) is False and not pushed, R, SFN, inst, "a non-blank byte clears the flag, start kept",
                      "a non-blank byte leaves flag=%s start %s" % (term_str(fv), "moved" if not unchanged(p, start) else "kept"), sp_)
        else:
            ctx.check(unchanged(p, start) and unchanged(p, flag) and not pushed and ws is True, R, SFN, inst, "a blank byte changes nothing",
                      "a byte that was not shown to be non-blank changes the state (flag=%s)" % term_str(fv), sp_)
    ctx.check({(True, None)} <= {(r[0], None) for r in rows if r[0]} and (False, False) in rows and (False, True) in rows, R, SFN, "rows", "newline / blank byte / non-blank byte all handled",
              "scan loop rows %s do not cover newline, blank and non-blank bytes" % sorted(rows, key=str), fn_span(body), nontrivial=False)
    # the end-of-input site is reached only after the loop and records iff the flag is clear (its guard was identified by flag_guard)
    ctx.ok("D3-LINE-GUARD", SFN, "in-loop:guarded", "recorded iff the blank-so-far flag is clear", body.span_of(ibb))
    ctx.ok("D3-LINE-GUARD", SFN, "end-of-input:guarded", "recorded iff the blank-so-far flag is clear", body.span_of(ebb))


def bytews_sites(ctx, fn, rule="D4-BYTEWS"):
    """calls of Unicode-aware char predicates on a value cast from u8"""
    paths = ctx.paths(fn)
    body = ctx.body(fn)
    if not paths:
        return 0
    seen = {}
    n_pred = 0
    for p in paths:
        for e in p.events:
            if e.kind == "call" and ev_is(e, *UNICODE_PREDICATES) or (e.kind == "call" and e.name.split("::")[-1] in ("is_ascii_whitespace",) and False):
                if e.bb in seen:
                    continue
                a = strip_refs(e.args[0])
                frombyte = isinstance(a, tuple) and a[0] == "cast" and a[2] == "u8" and a[3] == "char"
                seen[e.bb] = frombyte
                n_pred += 1
                ctx.check(not frombyte, rule, fn, "%s@%s" % (e.name.split("::")[-1], body.span_of(e.bb).rsplit(":", 2)[0].split("/")[-1] + "#" + str(sorted(seen).index(e.bb))),
                          "char predicate on a real char",
                          "%s is applied to a byte cast to char (`b as char`): bytes 0x85 and 0xA0 (and 0x1C-0x1F) are then classified as whitespace, so such bytes are stripped/split although they are data"
                          % e.name.split("::")[-1], body.span_of(e.bb))
    return n_pred


def split_rule(ctx, body, paths, al):
    """D1-SPLIT: how a line is cut into command word and argument, on its normal form:
         sep  := the FIRST b' ' of the line (bytes.iter().position(|c| c == b' '))
         word := lossy(bytes[0..sep])  when a separator exists, lossy(bytes) otherwise
         arg  := bytes[k..] with k the first non-blank position at or after sep  (a cursor that starts at sep and moves one byte per blank, or
                 sep.. + the position of the first non-blank in that tail)
       An argument that starts anywhere else loses or gains bytes; a word cut anywhere else is compared wrongly with the command table."""
    R = "D1-SPLIT"
    # ---- separator search
    seps = {}
    for p in paths:
        for c in p.conds():
            if c.term[0] == "discr" and is_call(strip_refs(c.term[1]), "Iterator>::position", "Iterator>::rposition", "::position", "::rposition", "::find", "::rfind"):
                P = strip_refs(c.term[1])
                if len(call_args(P)) != 2:
                    continue
                clo = strip_refs(call_args(P)[1])
                if not (isinstance(clo, tuple) and clo and clo[0] == "agg" and clo[1] == "closure"):
                    continue
                tbl = char_table(ctx.paths(clo[2]) or [], is_param=lambda t_: strip_refs(t_) == ("param", 2), domain=BYTE_DOMAIN)
                acc = {ch for ch, v in tbl.items() if v} if tbl and all(v is not None for v in tbl.values()) else None
                if acc == {" "}:
                    seps[P] = clo[2]

    def whole_line(t):
        """t is the line itself: bytes, or the no-op re-slice bytes[0..len]"""
        t = strip_refs(t)
        for _ in range(3):
            if is_index_call(t) and canon_range(call_args(t)[0], call_args(t)[1]) is not None and const_int(canon_range(call_args(t)[0], call_args(t)[1])[0]) == 0 \
                    and canon_range(call_args(t)[0], call_args(t)[1])[1] == LEN:
                t = strip_refs(call_args(t)[0])
        return t == ("param", 1)

    def iter_of_line(t):
        t = strip_refs(t)
        while isinstance(t, tuple) and t and t[0] in ("loc", "refmut", "ref"):
            t = strip_refs(t[2] if t[0] == "loc" and len(t) > 2 else t[1])
        return is_call(t, "[T]>::iter") and whole_line(call_args(t)[0])
    good = [P for P in seps if is_call(P, "Iterator>::position") and not is_call(P, "rposition") and iter_of_line(call_args(P)[0])]
    ctx.check(len(seps) == 1 and len(good) == 1, R, EFB, "separator-search", "the separator is the first b' ' of the line (position over bytes.iter())",
              "the command/argument separator is not found as the FIRST space byte of the line (%d space searches, %d of them a forward position() over the whole line)" % (len(seps), len(good)), fn_span(body))
    if len(good) != 1:
        return
    SEP = good[0]
    sep = ("field", ("downcast", SEP, "Some"), 0, "0")

    def sep_found(p):
        f = [c.fact for c in p.conds() if c.term == ("discr", SEP) or (c.term[0] == "discr" and strip_refs(c.term[1]) == SEP)]
        return None if not f else (f[-1] == ("eq", 1))

    def is_payload(t):
        t = strip_refs(t)
        return isinstance(t, tuple) and len(t) > 2 and t[0] == "field" and t[2] == 0 and isinstance(t[1], tuple) and t[1][0] == "downcast" and t[1][2] == "Some" and strip_refs(t[1][1]) == SEP

    def is_sep(t, plus=(0,)):
        t = strip_refs(t)
        if is_payload(t):
            return 0 in plus
        return isinstance(t, tuple) and t and t[0] == "binop" and t[1] == "Add" and is_payload(t[2]) and const_int(t[3]) in plus
    # ---- command word
    words = 0
    badw = []
    for p in ret_paths(paths):
        subj = [call_args(c.term)[0] for c in p.conds() if is_call(c.term, "str>::starts_with") and const_char(call_args(c.term)[1]) == "@"]
        subj += [x for (lit, x) in true_str_lits(p)[0] if lit.startswith("@")]
        for x in subj:
            lossy = [s_ for s_ in subterms(x) if is_call(s_, "String::from_utf8_lossy")]
            if not lossy:
                continue
            words += 1
            a = strip_refs(call_args(lossy[0])[0])
            found = sep_found(p)
            if found is False or found is None:
                ok = whole_line(a) and found is False
            else:
                ok = is_index_call(a) and whole_line(call_args(a)[0]) and canon_range(call_args(a)[0], call_args(a)[1]) is not None and \
                    const_int(canon_range(call_args(a)[0], call_args(a)[1])[0]) == 0 and is_sep(canon_range(call_args(a)[0], call_args(a)[1])[1])
            if not ok:
                badw.append(term_str(a)[:100])
    ctx.check(words > 0 and not badw, R, EFB, "command-word", "the command word is bytes[0..sep], or the whole line when there is no space (%d uses)" % words,
              "the command word is %s: not the bytes before the first space (the whole line when there is none)" % (sorted(set(badw))[:2] or "not derived by from_utf8_lossy"), fn_span(body))
    ctx.floor(R, EFB, "command-word uses", words, 20)
    # ---- argument start
    n = 0
    bada = []
    for p in ret_paths(paths):
        av = unwrap_some(p.env.get(al)) if al is not None else None
        if av is None:
            continue
        if sep_found(p) is False:
            # `rest = &bytes[bytes.len()..]` when there is no separator: a search in that (empty) text finds nothing, so a path on which it
            # "found" the start of an argument cannot be taken
            def empty_tail(t):
                t = strip_refs(t)
                if not (is_index_call(t) and whole_line(call_args(t)[0])):
                    return False
                cr = canon_range(call_args(t)[0], call_args(t)[1])
                return cr is not None and cr[1] == LEN and (cr[0] == LEN or (length_of(cr[0]) is not None and whole_line(length_of(cr[0]))))
            infeasible = False
            for c in p.conds():
                if c.term[0] == "discr" and c.fact == ("eq", 1) and is_call(strip_refs(c.term[1]), "Iterator>::position", "Iterator>::find", "Iterator>::rposition"):
                    it_ = strip_refs(call_args(strip_refs(c.term[1]))[0])
                    while isinstance(it_, tuple) and it_ and it_[0] in ("loc", "refmut", "ref"):
                        it_ = strip_refs(it_[2] if it_[0] == "loc" and len(it_) > 2 else it_[1])
                    if is_call(it_, "[T]>::iter") and empty_tail(call_args(it_)[0]):
                        infeasible = True
            if infeasible:
                continue
        n += 1
        if sep_found(p) is not True:
            bada.append("an argument without a separator having been found")
            continue
        x = strip_refs(av)
        for _ in range(6):
            if is_call(x, "OsStrExt>::from_bytes", "OsStr::from_bytes", "::from_bytes", "AsRef", "::as_ref", "Deref>::deref") and len(call_args(x)) == 1 and not is_call(x, EFB):
                x = strip_refs(call_args(x)[0])
            else:
                break
        # the chain of tails applied to the line, outermost last
        los = []
        subjects = []
        while is_index_call(x) and canon_range(call_args(x)[0], call_args(x)[1]) is not None and not whole_line(x):
            los.append(canon_range(call_args(x)[0], call_args(x)[1])[0])
            subjects.append(strip_refs(call_args(x)[0]))
            x = strip_refs(call_args(x)[0])
        los.reverse()
        subjects.reverse()
        if not whole_line(x) or not los:
            bada.append("the argument is not cut from the line")
            continue
        lo0 = strip_refs(los[0])
        if len(los) == 1 and isinstance(lo0, tuple) and lo0[0] == "binop" and lo0[1] == "Add":
            # a hand-computed absolute position: bytes[a + k..] with k found by position() in bytes[a..] is bytes[a..][k..]
            for a_, b_ in ((lo0[2], lo0[3]), (lo0[3], lo0[2])):
                b0 = strip_refs(b_)
                if isinstance(b0, tuple) and b0[0] == "field" and b0[2] == 0 and isinstance(b0[1], tuple) and b0[1][0] == "downcast" and b0[1][2] == "Some" and is_call(strip_refs(b0[1][1]), "Iterator>::position"):
                    it_ = strip_refs(call_args(strip_refs(b0[1][1]))[0])
                    while isinstance(it_, tuple) and it_ and it_[0] in ("loc", "refmut", "ref"):
                        it_ = strip_refs(it_[2] if it_[0] == "loc" and len(it_) > 2 else it_[1])
                    src_ = strip_refs(call_args(it_)[0]) if is_call(it_, "[T]>::iter") and call_args(it_) else None
                    cr_ = canon_range(call_args(src_)[0], call_args(src_)[1]) if src_ is not None and is_index_call(src_) else None
                    if cr_ is not None and cr_[1] == LEN and strip_refs(cr_[0]) == strip_refs(a_) and whole_line(strip_refs(call_args(src_)[0])):
                        los = [a_, b_]
                        subjects = [subjects[0], src_]
                        lo0 = strip_refs(a_)
                        break
        if len(los) == 1 and isinstance(lo0, tuple) and lo0[0] == "havoc" and len(lo0) > 3:
            # cursor form: starts at sep, +1 per blank byte of bytes[sep..], stops at the first non-blank
            h = lo0[2]
            cur = lo0[1]
            okc = is_sep(lo0[3], plus=(0, 1))
            backs = [q for q in paths if q.end[0] == "back" and q.end[1] == h]
            okc = okc and bool(backs)
            # index-driven spelling: while idx < len && bytes[idx] is blank { idx += 1 }
            def at_cursor(t):
                t = strip_refs(t)
                while isinstance(t, tuple) and t and t[0] in ("deref",):
                    t = strip_refs(t[1])
                if isinstance(t, tuple) and t and t[0] == "index":
                    b_ = t[1]
                    while isinstance(b_, tuple) and b_ and b_[0] in ("deref", "ref"):
                        b_ = b_[1]
                    return whole_line(b_) and isinstance(t[2], tuple) and t[2][0] == "havoc" and t[2][1] == cur and t[2][2] == h
                return False

            def below_len(c):
                """True / False if the condition says cursor < len(line) / cursor >= len(line), else None"""
                t = c.term
                if isinstance(t, tuple) and t and t[0] == "binop" and t[1] in ("Lt", "Ge", "Ne", "Eq") and isinstance(t[2], tuple) and t[2][0] == "havoc" and t[2][1] == cur \
                        and length_of(t[3]) is not None and whole_line(length_of(t[3])) and isinstance(c.fact[1], bool):
                    return c.fact[1] == (t[1] in ("Lt", "Ne"))
                return None
            idx_form = bool(backs) and all(any(below_len(c) is True for c in q.conds()) for q in backs) and not any(
                c.term[0] == "discr" and is_call(strip_refs(c.term[1]), "Iterator>::next") and c.bb in body.loops.get(h, ()) for q in backs for c in q.conds())
            if idx_form:
                for q in backs:
                    blank = [c for c in q.conds() if is_call(c.term, "is_ascii_whitespace") and at_cursor(call_args(c.term)[0])]
                    v = q.env.get(cur)
                    step = isinstance(v, tuple) and v[0] == "binop" and v[1] == "Add" and isinstance(v[2], tuple) and v[2][0] == "havoc" and v[2][1] == cur and const_int(v[3]) == 1
                    okc = okc and bool(blank) and blank[-1].fact == ("eq", True) and step
                # this path left the loop at the end of the line or at the first non-blank byte
                bl = [below_len(c) for c in p.conds() if below_len(c) is not None]
                if bl and bl[-1] is True:
                    blank = [c for c in p.conds() if is_call(c.term, "is_ascii_whitespace") and at_cursor(call_args(c.term)[0])]
                    okc = okc and bool(blank) and blank[-1].fact == ("eq", False)
                elif not bl:
                    okc = False
                if not okc:
                    bada.append("the cursor the argument starts at does not start at the separator and move one byte per leading blank")
                continue
            for q in backs:
                nx = [c for c in q.conds() if c.term[0] == "discr" and is_call(strip_refs(c.term[1]), "Iterator>::next") and c.bb in body.loops.get(h, ())]
                item = ("field", ("downcast", nx[-1].term[1], "Some"), 0, "0") if nx else None
                blank = [c for c in q.conds() if item is not None and is_call(c.term, "is_ascii_whitespace") and strip_refs(call_args(c.term)[0]) in (item, ("deref", item))]
                v = q.env.get(cur)
                step = isinstance(v, tuple) and v[0] == "binop" and v[1] == "Add" and isinstance(v[2], tuple) and v[2][0] == "havoc" and v[2][1] == cur and const_int(v[3]) == 1
                # the loop walks bytes[sep..] (the same starting point as the cursor)
                src = [s_ for s_ in subterms(nx[-1].term) if is_index_call(s_)] if nx else []
                walks = bool(src) and whole_line(call_args(src[0])[0]) and canon_range(call_args(src[0])[0], call_args(src[0])[1]) is not None and \
                    strip_refs(canon_range(call_args(src[0])[0], call_args(src[0])[1])[0]) == strip_refs(lo0[3])
                okc = okc and bool(nx) and nx[-1].fact == ("eq", 1) and bool(blank) and blank[-1].fact == ("eq", True) and step and walks
            # this path left the loop at the first non-blank byte (or at the end) without moving the cursor any further
            nxp = [c for c in p.conds() if c.term[0] == "discr" and is_call(strip_refs(c.term[1]), "Iterator>::next") and c.bb in body.loops.get(h, ())]
            if nxp and nxp[-1].fact == ("eq", 1):
                item = ("field", ("downcast", nxp[-1].term[1], "Some"), 0, "0")
                blank = [c for c in p.conds() if is_call(c.term, "is_ascii_whitespace") and strip_refs(call_args(c.term)[0]) in (item, ("deref", item))]
                okc = okc and bool(blank) and blank[-1].fact == ("eq", False)
            elif not nxp:
                okc = False
            if not okc:
                bada.append("the cursor the argument starts at does not start at the separator and move one byte per leading blank")
        elif len(los) == 2 and is_sep(lo0, plus=(0, 1)):
            # search form: bytes[sep..][position of the first non-blank ..]
            l1 = strip_refs(los[1])
            okp = isinstance(l1, tuple) and l1[0] == "field" and l1[2] == 0 and isinstance(l1[1], tuple) and l1[1][0] == "downcast" and l1[1][2] == "Some" and is_call(strip_refs(l1[1][1]), "Iterator>::position")
            if okp:
                P2 = strip_refs(l1[1][1])
                it = strip_refs(call_args(P2)[0])
                while isinstance(it, tuple) and it and it[0] in ("loc", "refmut", "ref"):
                    it = strip_refs(it[2] if it[0] == "loc" and len(it) > 2 else it[1])
                clo = strip_refs(call_args(P2)[1])
                tbl = char_table(ctx.paths(clo[2]) or [], is_param=lambda t_: strip_refs(t_) == ("param", 2), domain=BYTE_DOMAIN) if isinstance(clo, tuple) and clo[:2] == ("agg", "closure") else None
                # the predicate is "not a blank": it rejects the space (the exact blank set is D4-BLANKSET's)
                okp = is_call(it, "[T]>::iter") and strip_refs(call_args(it)[0]) == subjects[1] and bool(tbl) and tbl.get(" ") is False and tbl.get("a") is True and not is_call(P2, "rposition")
            if not okp and is_call(l1, "Iterator::count") and len(call_args(l1)) == 1:
                # ... or bytes[sep..][number of leading blanks ..]: rest.iter().take_while(|c| c.is_ascii_whitespace()).count()
                tw = strip_refs(call_args(l1)[0])
                if is_call(tw, "Iterator::take_while") and len(call_args(tw)) == 2:
                    it = strip_refs(call_args(tw)[0])
                    while isinstance(it, tuple) and it and it[0] in ("loc", "refmut", "ref"):
                        it = strip_refs(it[2] if it[0] == "loc" and len(it) > 2 else it[1])
                    clo = strip_refs(call_args(tw)[1])
                    tbl = char_table(ctx.paths(clo[2]) or [], is_param=lambda t_: strip_refs(t_) == ("param", 2), domain=BYTE_DOMAIN) if isinstance(clo, tuple) and clo[:2] == ("agg", "closure") else None
                    # the predicate is "a blank": it accepts the space and rejects a letter (the exact blank set is D4-BLANKSET's)
                    okp = is_call(it, "[T]>::iter") and strip_refs(call_args(it)[0]) == subjects[1] and bool(tbl) and tbl.get(" ") is True and tbl.get("a") is False
            if not okp:
                bada.append("the argument does not start at the first non-blank byte of the text after the separator")
        else:
            bada.append("the argument starts at %s" % term_str(lo0)[:80])
    ctx.check(n > 0 and not bada, R, EFB, "argument-start", "the argument starts at the first non-blank byte at or after the separator (%d paths)" % n,
              "%s: only leading blanks after the command word may be removed from an argument" % (sorted(set(bada))[0] if bada else "no path produces an argument"), fn_span(body))


def split_lines_form(ctx, body, paths):
    """Plist::from_bytes written as
           for line in bytes.split(|c| c == b'\n') { if line.iter().all(is_blank) { continue; }  entries.push(PlistEntry::from_bytes(line)?); }
       Returns True when the function has this shape (and judges it: D3-LINE-GUARD / D3-TRANSFER / D2-PRODUCER instances), False otherwise.
       The pieces of a split at '\n' are exactly the lines (an unterminated last line included, a final empty piece after a trailing newline is
       blank); a line is skipped iff every byte of it is a blank; every other line is parsed as it is and pushed, in order."""
    sp_ = [e for p in paths for e in p.events if ev_is(e, "[T]>::split") and strip_refs(e.args[0]) == ("param", 1)]
    if not sp_:
        return False
    nx = [c for p in paths for c in p.conds() if c.term[0] == "discr" and is_call(strip_refs(c.term[1]), "slice::Split<'a, T, P> as std::iter::Iterator>::next", "slice::Split as std::iter::Iterator>::next")
          and strip_refs(c.term[1])[4] in body.loops]
    if not nx:
        return False
    NX = strip_refs(nx[0].term[1])
    h = NX[4]
    elem = ("field", ("downcast", NX, "Some"), 0, "0")
    R = "D3-TRANSFER"
    # the iterator is the split itself (nothing in between), the separator predicate is `== b'\n'`
    it = call_args(NX)[0]
    for _ in range(6):
        while isinstance(it, tuple) and it and it[0] in ("ref", "refmut"):
            it = it[1]
        if isinstance(it, tuple) and it and it[0] == "loc" and len(it) > 2:
            it = it[2]
        elif isinstance(it, tuple) and it and it[0] == "havoc" and len(it) > 3:
            it = it[3]
        elif is_call(it, "IntoIterator>::into_iter") and call_args(it):
            it = call_args(it)[0]
        else:
            break
    direct = is_call(it, "[T]>::split") and strip_refs(call_args(it)[0]) == ("param", 1)
    clo = strip_refs(call_args(it)[1]) if direct else None
    tbl = char_table(ctx.paths(clo[2]) or [], is_param=lambda t_: strip_refs(t_) == ("param", 2), domain=BYTE_DOMAIN) if isinstance(clo, tuple) and clo[:2] == ("agg", "closure") else None
    seps = sorted(ch for ch, v in (tbl or {}).items() if v)
    ctx.check(direct and seps == ["\n"], R, PFB, "split-at-newline", "lines = bytes.split(|c| c == b'\\n') walked directly",
              "the input is not walked as the pieces of a split at '\\n' alone (separator bytes: %s)" % [repr(x) for x in seps][:6], fn_span(body))
    backs = [p for p in paths if p.end[0] == "back" and p.end[1] == h]
    ctx.floor("D3-LINE-GUARD", PFB, "line-recording sites", len(backs), 2)
    kinds = set()
    for p in backs:
        pushes = [e for e in p.events if ev_is(e, "Vec::push") and e.bb in body.loops[h]]
        alls = [c for c in p.conds() if is_call(c.term, "Iterator>::all", "Iterator>::any") and c.bb in body.loops[h]]
        other = [c for c in p.conds() if c.bb in body.loops[h] and c.term[0] != "discr" and c not in alls]
        okq = len(alls) == 1 and not other
        blank = None
        if okq:
            q = alls[0]
            src = strip_refs(call_args(q.term)[0])
            while isinstance(src, tuple) and src and src[0] in ("loc", "refmut", "ref"):
                src = strip_refs(src[2] if src[0] == "loc" and len(src) > 2 else src[1])
            okq = is_call(src, "[T]>::iter") and strip_refs(call_args(src)[0]) == elem
            qc = strip_refs(call_args(q.term)[1])
            qt = char_table(ctx.paths(qc[2]) or [], is_param=lambda t_: strip_refs(t_) == ("param", 2), domain=BYTE_DOMAIN) if isinstance(qc, tuple) and qc[:2] == ("agg", "closure") else None
            if okq and qt is not None:
                acc = {ch for ch, v in qt.items() if v}
                if is_call(q.term, "Iterator>::all"):
                    # all(is_blank) true = blank line
                    okq = {" ", "\t"} <= acc and not (acc - ASCII_BLANKS)
                    blank = q.fact == ("eq", True)
                else:
                    # any(is_not_blank) false = blank line
                    nb = set(BYTE_DOMAIN) - acc
                    okq = {" ", "\t"} <= nb and not (nb - ASCII_BLANKS)
                    blank = q.fact == ("eq", False)
            else:
                okq = False
        if not okq:
            ctx.violation("D3-LINE-GUARD", PFB, "line-test", "a line is not kept / skipped by `every byte is an ASCII blank` alone", body.span_of(p.blocks[-1]))
            continue
        if blank:
            kinds.add("skip")
            ctx.check(not pushes, "D3-LINE-GUARD", PFB, "blank-line:skipped", "a blank line produces no entry", "an entry is produced for a blank line", body.span_of(p.blocks[-1]))
        else:
            kinds.add("keep")
            okp = len(pushes) == 1 and mentions(pushes[0].args[0], lambda s_: s_[0] == "field" and s_[3] == "entries")
            fb = find_calls(pushes[0].args[1], EFB) if okp else []
            okp = okp and len(fb) == 1 and strip_refs(call_args(fb[0])[0]) == elem and has_try(pushes[0].args[1])
            ctx.check(okp, "D2-PRODUCER", PFB, "push@entries", "entries.push(PlistEntry::from_bytes(line)?) for each non-blank line, as it is, in order (split-lines form)",
                      "a non-blank line does not push exactly PlistEntry::from_bytes(<the whole line>)? onto the entries", body.span_of(p.blocks[-1]))
    ctx.check(kinds == {"skip", "keep"}, "D3-LINE-GUARD", PFB, "both-arms", "blank lines skipped, other lines kept", "the line loop lacks the %s arm" % sorted({"skip", "keep"} - kinds), fn_span(body))
    oks = [p for p in ret_paths(paths) if unwrap_ok(p.end[1]) is not None]
    ctx.floor("D2-PRODUCER", PFB, "Ok-returning paths", len(oks), 1)
    ctx.check(bool(oks) and all(any(c.term == nx[0].term and c.fact == ("eq", 0) for c in p.conds()) for p in oks), "D2-PRODUCER", PFB, "returns-after-exhaustion",
              "Ok only after the last line", "from_bytes can return Ok before every line was looked at", fn_span(body))
    only_appended(ctx, "D2-PRODUCER", PFB, "plist.entries", lambda t: mentions(t, lambda s: s[0] == "field" and s[3] == "entries"))
    errprop(ctx, PFB, paths, body, rule="D2-ERRPROP", no_effects_after_error=("Vec::push",), floor=1)
    return True


def run(ctx):
    fx = ctx.fx
    sp = spec("plist.json")
    cmds = sp["commands"]
    body = ctx.body(EFB)
    paths = ctx.paths(EFB)
    if paths:
        args_locals = [i for i, l in enumerate(body.f["locals"]) if l["ty"] == "std::option::Option<&std::ffi::OsStr>" and body.local_name(i) is not None]
        ctx.floor("D1-CMD-TABLE", EFB, "the user variable of type Option<&OsStr> holding the argument", len(args_locals), 1)
        al = args_locals[0] if args_locals else None
        table = {}
        for p in ret_paths(paths):
            pos, negs = true_str_lits(p)
            at = [c for c in p.conds() if is_call(c.term, "str>::starts_with") and const_char(call_args(c.term)[1]) == "@"]
            is_cmd = bool(at) and at[0].fact == ("eq", True)
            cmd = pos[0][0] if pos and pos[0][0].startswith("@") else None
            av = p.env.get(al) if al is not None else None
            st = "Some" if unwrap_some(av) is not None else ("None" if is_none(av) else "?")
            opt = None
            if cmd == "@option":
                o = [x for x in pos if not x[0].startswith("@")]
                opt = o[0][0] if o else None
            table.setdefault((is_cmd, cmd, st, opt), []).append(p)
        split_rule(ctx, body, paths, al)
        # D1-ARG-EMPTY: an argument exists (Some) only when bytes remain after the leading blanks were skipped: the path that builds Some(..)
        #               has established cursor != end (however it is tested); otherwise `@cmd   ` would carry an empty argument
        somep = [p for p in ret_paths(paths) if al is not None and unwrap_some(p.env.get(al)) is not None]
        badsome = []
        for p in somep:
            av = unwrap_some(p.env.get(al))
            ix = [s_ for s_ in subterms(av) if is_index_call(s_)]
            lo = canon_range(call_args(ix[0])[0], call_args(ix[0])[1])[0] if ix and canon_range(call_args(ix[0])[0], call_args(ix[0])[1]) else None
            est = False
            # the argument starts at a position FOUND in the very text it is cut from (x[x.iter().position(..)?..]): that byte exists, so bytes remain
            if ix and lo is not None:
                l0 = strip_refs(lo)
                if isinstance(l0, tuple) and l0[0] == "field" and l0[2] == 0 and isinstance(l0[1], tuple) and l0[1][0] == "downcast" and l0[1][2] == "Some" \
                        and is_call(strip_refs(l0[1][1]), "Iterator>::position"):
                    src = strip_refs(call_args(strip_refs(l0[1][1]))[0])
                    while isinstance(src, tuple) and src and src[0] in ("loc", "refmut", "ref"):
                        src = strip_refs(src[2] if src[0] == "loc" and len(src) > 2 else src[1])
                    if is_call(src, "[T]>::iter") and strip_refs(call_args(src)[0]) == strip_refs(call_args(ix[0])[0]) and canon_range(call_args(ix[0])[0], call_args(ix[0])[1])[1] == LEN:
                        est = True
                # ... the same with the absolute position computed by hand: x[a + k..] with k FOUND by position() in x[a..]
                if isinstance(l0, tuple) and l0[0] == "binop" and l0[1] == "Add" and canon_range(call_args(ix[0])[0], call_args(ix[0])[1])[1] == LEN:
                    for a_, b_ in ((l0[2], l0[3]), (l0[3], l0[2])):
                        b0 = strip_refs(b_)
                        if isinstance(b0, tuple) and b0[0] == "field" and b0[2] == 0 and isinstance(b0[1], tuple) and b0[1][0] == "downcast" and b0[1][2] == "Some" and is_call(strip_refs(b0[1][1]), "Iterator>::position"):
                            src = strip_refs(call_args(strip_refs(b0[1][1]))[0])
                            while isinstance(src, tuple) and src and src[0] in ("loc", "refmut", "ref"):
                                src = strip_refs(src[2] if src[0] == "loc" and len(src) > 2 else src[1])
                            tl = strip_refs(call_args(src)[0]) if is_call(src, "[T]>::iter") and call_args(src) else None
                            cr_ = canon_range(call_args(tl)[0], call_args(tl)[1]) if tl is not None and is_index_call(tl) else None
                            if cr_ is not None and cr_[1] == LEN and strip_refs(cr_[0]) == strip_refs(a_) and coll(call_args(tl)[0]) == coll(call_args(ix[0])[0]):
                                est = True
            # ... or the slice that becomes the argument was itself tested non-empty (Some(rest).filter(|r| !r.is_empty()))
            for c in p.conds():
                t_, truth_ = c.term, c.fact[1] if c.fact[0] == "eq" and isinstance(c.fact[1], bool) else None
                while isinstance(t_, tuple) and t_ and t_[0] == "unop" and t_[1] == "Not" and truth_ is not None:
                    t_, truth_ = t_[2], not truth_
                if ix and truth_ is False and is_call(t_, "[T]>::is_empty", "::is_empty") and strip_refs(call_args(t_)[0]) == ix[0]:
                    est = True
            for c in p.conds():
                t = c.term
                if isinstance(t, tuple) and t and t[0] == "binop" and t[1] in ("Eq", "Ne", "Lt", "Ge", "Gt", "Le") and lo is not None and c.fact[0] == "eq" and isinstance(c.fact[1], bool):
                    a_, b_ = strip_refs(t[2]), strip_refs(t[3])
                    islen = lambda u: (is_call(u, "::len") and mentions(u, lambda s_: s_ == ("param", 1)))
                    if a_ == strip_refs(lo) and islen(b_):
                        rel, truth = t[1], c.fact[1]
                    elif b_ == strip_refs(lo) and islen(a_):
                        rel, truth = {"Lt": "Gt", "Gt": "Lt", "Le": "Ge", "Ge": "Le"}.get(t[1], t[1]), c.fact[1]
                    else:
                        continue
                    # cursor REL len holds with `truth`: does that imply cursor != len (given cursor <= len)?
                    implies = (rel == "Eq" and not truth) or (rel == "Ne" and truth) or (rel == "Lt" and truth) or (rel == "Ge" and not truth)
                    est = est or implies
            if not est:
                badsome.append(p)
        ctx.check(bool(somep) and not badsome, "D1-ARG-EMPTY", EFB, "argument-only-if-bytes-remain", "Some(argument) only after cursor != end was established (%d paths)" % len(somep),
                  "an argument is produced (Some) on a path that has not established that bytes remain after the blanks: a command followed only by blanks would carry an empty argument instead of none",
                  fn_span(body), nontrivial=False)
        # D1-CMD-WORD: the command literals are compared with the command word as written (no case folding, trimming or other rewriting)
        scr = [x for p in ret_paths(paths) for (lit, x) in true_str_lits(p)[0] if lit.startswith("@")]
        fold = sorted({mir.norm_path(s_[1]).rsplit("::", 1)[-1] for x in scr for s_ in subterms(x)
                       if is_call(s_, "::to_ascii_lowercase", "::to_lowercase", "::to_ascii_uppercase", "::to_uppercase", "::trim", "::trim_end", "::trim_start", "::trim_matches", "::replace", "::make_ascii_lowercase")})
        ctx.check(bool(scr) and not fold, "D1-CMD-WORD", EFB, "command-compared-as-written", "command literals are compared with the word as written",
                  "the command word is rewritten (%s) before it is compared with the supported commands: e.g. @CWD would be taken for @cwd instead of being an unsupported command" % fold,
                  fn_span(body), nontrivial=False)

        def outcome(p):
            r = p.end[1]
            ok = unwrap_ok(r)
            if ok is not None:
                a = agg_variant(ok)
                return ("Ok", a[1] if a else None, a[2] if a else ())
            if is_propagated_err(r):
                return ("Err", "Utf8", ())      # String::from_utf8(..)? : the conversion's own error, re-raised
            er = unwrap_err(r)
            if er is not None:
                a = agg_variant(er)
                return ("Err", a[1] if a else None, a[2] if a else ())
            return ("?", None, ())

        def lossy(t):
            return mentions(t, lambda s: is_call(s, "from_utf8_lossy", "to_string_lossy", "Path::display"))

        nrows = 0
        for cmd, c in cmds.items():
            for st in ("Some", "None"):
                keys = [k for k in table if k[0] and k[1] == cmd and k[2] == st]
                ps = [p for k in keys for p in table[k]]
                inst = "%s/args=%s" % (cmd, st)
                if not ps:
                    ctx.violation("D1-CMD-TABLE", EFB, inst, "no path handles %s with argument %s" % (cmd, st), fn_span(body))
                    continue
                nrows += 1
                outs = [(outcome(p), p) for p in ps]
                good = True
                why = ""
                for (o, p) in outs:
                    kind, name, ops = o
                    if c["payload"] == "option":
                        # the option text is `args.and_then(OsStr::to_str)`: decided on that value's state
                        sc = [cc for cc in p.conds() if cc.term[0] == "discr" and is_call(cc.term[1], "Option::and_then", "OsStr::to_str")]
                        optlit = [x for x in true_str_lits(p)[0] if not x[0].startswith("@")]
                        argabs = al is not None and is_none(p.env.get(al)) or al is not None and any(cc.term == ("discr", p.env.get(al)) and (cc.fact == ("eq", 0) or (cc.fact[0] == "ne" and 1 in cc.fact[1])) for cc in p.conds())
                        if not sc and argabs:
                            # with combinators evaluated, `args.and_then(..)` on the path where args is None is simply None: no argument
                            g = (kind, name) == ("Err", "IncorrectArguments")
                        elif not sc:
                            g = False
                            why = "the option text is not taken from args.and_then(OsStr::to_str)"
                        else:
                            scr = sc[0].term[1]
                            from_args = al is not None and mentions(scr, lambda s2: s2 == p.env.get(al)) and mentions(scr, lambda s2: s2[0] == "const" and isinstance(s2[2], tuple) and s2[2][0] == "fn" and s2[2][1].endswith("OsStr::to_str")) or is_call(scr, "OsStr::to_str")
                            present = sc[0].fact == ("eq", 1) or (sc[0].fact[0] == "ne" and 0 in sc[0].fact[1])
                            if not from_args:
                                g = False
                                why = "the option text is not derived from the argument"
                            elif not present:
                                g = (kind, name) == ("Err", "IncorrectArguments")
                            elif optlit:
                                w = c["options"].get(optlit[0][0])
                                g = kind == "Ok" and name == c["entry"] and w is not None and bool(agg_variant(ops[0])) and agg_variant(ops[0])[1] == w
                            else:
                                g = (kind, name) == ("Err", "UnsupportedCommand")
                    elif c["arg"] == "required" and st == "None":
                        g = (kind, name) == ("Err", "IncorrectArguments")
                    elif c["arg"] == "forbidden":
                        g = ((kind, name) == ("Err", "IncorrectArguments")) if st == "Some" else (kind == "Ok" and name == c["entry"])
                    elif st == "None":  # optional, absent
                        g = kind == "Ok" and name == c["entry"] and len(ops) == 1 and is_none(ops[0])
                    else:  # argument present (required or optional)
                        if kind == "Err" and name == "Utf8" and c["payload"] == "utf8":
                            g = True
                        else:
                            g = kind == "Ok" and name == c["entry"] and len(ops) == 1
                            if g:
                                pay = ops[0]
                                if c["arg"] == "optional":
                                    pay = unwrap_some(pay)
                                    g = pay is not None
                            if g:
                                argv = unwrap_some(p.env.get(al))
                                src_ok = mentions(pay, lambda s: s == strip_refs(argv)) if argv is not None else False
                                if c["payload"] == "raw":
                                    g = is_call(pay, "::from", "::to_os_string", "::to_owned", "::into") and src_ok and not lossy(pay)
                                    if not g:
                                        why = "payload %s is not OsString::from(<argument bytes>)" % term_str(pay)
                                else:
                                    g = bool(find_calls(pay, "String::from_utf8")) and has_try(pay) and src_ok and not lossy(pay)
                                    if not g:
                                        why = "payload %s is not String::from_utf8(<argument bytes>)?" % term_str(pay)
                    if not g:
                        good = False
                        why = why or "outcome %s(%s)" % (kind, name)
                ctx.check(good, "D1-CMD-TABLE", EFB, inst, "%s / argument %s handled per spec (%s, %s)" % (cmd, st, c["arg"], c["payload"]),
                          "%s with argument %s: %s; spec: entry %s, argument %s, payload %s" % (cmd, st, why, c["entry"], c["arg"], c["payload"]), fn_span(body))
        ctx.floor("D1-CMD-TABLE", EFB, "table rows", nrows, 36)
        # literals outside the spec
        lits = {k[1] for k in table if k[1]}
        extra = sorted(lits - set(cmds))
        ctx.check(not extra, "D1-CMD-TABLE", EFB, "no-extra-commands", "no command outside the spec", "from_bytes accepts commands outside the spec: %s" % extra, fn_span(body))
        # the '@' test must see the line's first byte: the command word may only be derived by a conversion that keeps ASCII intact
        ats = [c.term for p in ret_paths(paths) for c in p.conds() if is_call(c.term, "str>::starts_with") and const_char(call_args(c.term)[1]) == "@"]
        okat = bool(ats)
        for t in ats[:1]:
            subj = call_args(t)[0]
            faithful = mentions(subj, lambda s: is_call(s, "String::from_utf8_lossy")) and mentions(subj, lambda s: s == ("param", 1))
            partial = mentions(subj, lambda s: is_call(s, "str::from_utf8", "String::from_utf8", "Result::unwrap_or_default", "Result::unwrap_or", "Result::ok", "OsStr::to_str"))
            okat = faithful and not partial
        bytetest = [c.term for p in ret_paths(paths) for c in p.conds() if isinstance(c.term, tuple) and c.term[0] == "binop" and c.term[1] in ("Eq", "Ne") and const_int(c.term[3]) == 64]
        ctx.check(okat or bool(bytetest), "D1-AT-TEST", EFB, "command-test-on-line-start", "'@' is tested on a lossless-for-ASCII image of the line start",
                  "the leading-'@' test is made on a command word that is not a lossless-for-ASCII image of the line (e.g. a failed UTF-8 conversion replaced by \"\"): a command line with a non-UTF-8 byte in its first word is then taken for a file", fn_span(body))
        # unknown command and plain file
        unk = [p for k, ps in table.items() if k[0] and k[1] is None for p in ps]
        ctx.check(bool(unk) and all(outcome(p)[:2] == ("Err", "UnsupportedCommand") for p in unk), "D1-UNKNOWN", EFB, "unknown-command",
                  "unknown '@' command -> Err(UnsupportedCommand)", "an unknown '@' command does not yield Err(UnsupportedCommand) on every path", fn_span(body))
        files = [p for k, ps in table.items() if not k[0] for p in ps]
        okf = bool(files)
        for p in files:
            o = outcome(p)
            g = o[:2] == ("Ok", "File") and len(o[2]) == 1 and not lossy(o[2][0])
            if g:
                fb = find_calls(o[2][0], "OsStrExt for std::ffi::OsStr>::from_bytes", "OsStrExt>::from_bytes", "::from_bytes")
                whole = False
                for f in fb:
                    a = strip_refs(call_args(f)[0])
                    if a == ("param", 1):
                        whole = True
                    if is_call(a, "ops::Index>::index") or is_call(a, "Index<I> for [T]>::index"):
                        rg = call_args(a)[1]
                        va = agg_variant(rg)
                        if strip_refs(call_args(a)[0]) == ("param", 1) and va and va[1] == "Range" and const_int(va[2][0]) == 0 and is_call(va[2][1], "::len") and strip_refs(call_args(va[2][1])[0]) == ("param", 1):
                            whole = True
                g = whole
            okf = okf and g
        ctx.check(okf, "D1-FILE", EFB, "plain-line", "no leading '@' -> Ok(File(whole line, raw bytes))",
                  "a line without a leading '@' is not returned as File(<the whole line, byte for byte>)", fn_span(body))
        # argument = bytes[idx..len]: tail of the line
        tails = 0
        for p in ret_paths(paths):
            av = unwrap_some(p.env.get(al)) if al is not None else None
            if av is None:
                continue
            # the argument is the slice bytes[idx..len] itself, seen through OsStr::from_bytes / references only: nothing trims or copies part of it
            x = strip_refs(av)
            for _ in range(6):
                if is_call(x, "OsStrExt>::from_bytes", "OsStr::from_bytes", "::from_bytes", "AsRef", "::as_ref", "Deref>::deref") and len(call_args(x)) == 1 and not is_call(x, EFB):
                    x = strip_refs(call_args(x)[0])
                else:
                    break
            good = False
            # a tail of a tail is a tail: rest = bytes[a..]; rest[b..]
            while is_index_call(x) and is_index_call(strip_refs(call_args(x)[0])) and canon_range(call_args(x)[0], call_args(x)[1]) is not None \
                    and canon_range(call_args(x)[0], call_args(x)[1])[1] == LEN \
                    and canon_range(call_args(strip_refs(call_args(x)[0]))[0], call_args(strip_refs(call_args(x)[0]))[1]) is not None \
                    and canon_range(call_args(strip_refs(call_args(x)[0]))[0], call_args(strip_refs(call_args(x)[0]))[1])[1] == LEN \
                    and const_int(canon_range(call_args(strip_refs(call_args(x)[0]))[0], call_args(strip_refs(call_args(x)[0]))[1])[0]) != 0:
                x = strip_refs(call_args(x)[0])
            if is_index_call(x):
                inner = strip_refs(call_args(x)[0])
                # bytes, or the no-op re-slice bytes[0..len]
                if is_index_call(inner) and canon_range(call_args(inner)[0], call_args(inner)[1]) is not None:
                    r0 = canon_range(call_args(inner)[0], call_args(inner)[1])
                    if const_int(r0[0]) == 0 and r0[1] == LEN:
                        inner = strip_refs(call_args(inner)[0])
                rg = canon_range(call_args(x)[0], call_args(x)[1])
                if rg is not None and inner == ("param", 1):
                    hi = rg[1]
                    good = hi == LEN or (is_call(strip_refs(hi), "::len") and content(call_args(strip_refs(hi))[0]) in (("param", 1), inner))
                    # `end` may be a local holding bytes.len()
                    if not good and isinstance(hi, tuple):
                        good = is_call(strip_refs(hi), "::len") and mentions(hi, lambda s_: s_ == ("param", 1))
            tails += 1
            if not good:
                ctx.violation("D1-ARG-TAIL", EFB, "argument-range", "the argument is not the tail bytes[idx..len] of the line", fn_span(body))
                break
        else:
            ctx.ok("D1-ARG-TAIL", EFB, "argument-range", "argument = bytes[idx..len] on %d paths" % tails, fn_span(body))
        ctx.floor("D1-ARG-TAIL", EFB, "paths with an argument", tails, 18)

    # ---- D2 / D3 on Plist::from_bytes
    global SFN
    SFN = PFB
    pbody = ctx.body(PFB)
    ppaths = ctx.paths(PFB)
    # the scan may live in a helper that takes the same bytes and returns the recorded (start, end) pairs
    scan_call = None
    if ppaths:
        hs = set()
        for p in ppaths:
            for e in p.events:
                if e.kind == "call" and ctx.fx.fn(e.name) is not None and tuple(strip_refs(a_) for a_ in e.args) == (("param", 1),) and "(usize, usize)" in e.dest["ty"] \
                        and e.dest["ty"].replace(" ", "").startswith("std::vec::Vec<(usize,usize)"):
                    hs.add(e.name)
        if len(hs) == 1 and ctx.paths(next(iter(hs))):
            SFN = next(iter(hs))
            scan_call = SFN
    body = ctx.body(SFN)
    paths = ctx.paths(SFN)
    if paths and not scan_call and split_lines_form(ctx, pbody, ppaths):
        paths = None        # judged on the split-lines normal form
    if paths:
        # D3 guards
        guards = {}
        flag_guard = {}
        direct = set()
        LENP1 = ("call", "core::slice::<impl [T]>::len", ("u8",), (("param", 1),), None)

        def same_end(r, E):
            return r == E or (length_of(r) is not None and length_of(r) == ("param", 1) and length_of(E) is not None and length_of(E) == ("param", 1))
        for p in paths:
            for e in p.events:
                if not (ev_is(e, "Vec::push") and e.dest["ty"] == "()" and isinstance(e.args[1], tuple)):
                    continue
                if e.bb in guards:
                    continue
                if e.args[1][0] == "agg" and e.args[1][1] == "tuple" and len(e.args[1][4]) == 2:
                    S, E = e.args[1][4]
                else:
                    # the single-pass spelling: the line is parsed and its entry pushed right where the two-pass spelling records (start, end)
                    fb_ = find_calls(e.args[1], EFB)
                    sl_ = strip_refs(call_args(fb_[0])[0]) if len(fb_) == 1 else None
                    rg_ = canon_range(call_args(sl_)[0], call_args(sl_)[1]) if sl_ is not None and is_index_call(sl_) and strip_refs(call_args(sl_)[0]) == ("param", 1) else None
                    if rg_ is None or not has_try(e.args[1]) or not mentions(e.args[0], lambda s_: s_[0] == "field" and s_[3] == "entries"):
                        continue
                    s0_, e0_ = strip_refs(rg_[0]), strip_refs(rg_[1])
                    if isinstance(s0_, tuple) and isinstance(e0_, tuple) and s0_[0] == "field" and e0_[0] == "field" and s0_[1] == e0_[1] and (s0_[2], e0_[2]) == (0, 1) and is_elem(s0_):
                        continue        # the second pass of the two-pass spelling: it cuts at recorded pairs, it does not decide where lines are
                    S, E = rg_[0], (LENP1 if rg_[1] == LEN else rg_[1])
                    direct.add(e.bb)
                atoms = []
                for c in p.conds():
                    if c.bb == e.bb:
                        break
                    t = c.term
                    if isinstance(t, tuple) and t[0] == "binop" and t[1] in ("Lt", "Le", "Gt", "Ge"):
                        op, l, r = t[1], t[2], t[3]
                        truth = c.fact == ("eq", True)
                        if not truth:
                            op = {"Lt": "Ge", "Le": "Gt", "Gt": "Le", "Ge": "Lt"}[op]
                        if op in ("Gt", "Ge"):
                            l, r = r, l
                            op = {"Gt": "Lt", "Ge": "Le"}[op]
                        # now l op r with op in Lt/Le ; want r == E
                        if not same_end(r, E):
                            continue
                        off = 0
                        x = l
                        if isinstance(x, tuple) and x[0] == "binop" and x[1] in ("Add", "Sub") and const_int(x[3]) is not None:
                            off = const_int(x[3]) * (1 if x[1] == "Add" else -1)
                            x = x[2]
                        k = (-off) if op == "Lt" else (1 - off)
                        atoms.append((x, k, c.bb))
                if not atoms:
                    # flag form: the site is guarded by `the line is not blank so far` kept in a bool (cleared by the first non-blank byte)
                    for c in p.conds():
                        if c.bb == e.bb:
                            break
                        if isinstance(c.term, tuple) and c.term[0] == "havoc" and body.f["locals"][c.term[1]]["ty"] == "bool" and c.fact == ("eq", False):
                            flag_guard.setdefault(e.bb, set()).add(c.term[1])
                guards[e.bb] = (S, E, atoms, e)
        ctx.floor("D3-LINE-GUARD", SFN, "line-recording sites", len(guards), 2)
        flag_form = len(guards) == 2 and all(not g[2] for g in guards.values()) and len(flag_guard) == 2 and len(set.intersection(*flag_guard.values())) == 1
        if flag_form:
            scan_transfer_flag(ctx, body, paths, guards, next(iter(set.intersection(*flag_guard.values()))))
        shapes = []
        if flag_form:
            guards_for_cmp = {}
        else:
            guards_for_cmp = guards
        for bb, (S, E, atoms, e) in sorted(guards_for_cmp.items()):
            site = "in-loop" if body.in_any_loop(bb) else "end-of-input"
            ctx.check(len(atoms) >= 1, "D3-LINE-GUARD", SFN, "%s:guarded" % site, "%d guard atoms against the line end" % len(atoms),
                      "the %s recording site is not guarded by a comparison with the line end" % site, body.span_of(bb))
            for (x, k, cbb) in atoms:
                nm = body.local_name(x[1]) if isinstance(x, tuple) and x[0] == "havoc" else term_str(x)
                ctx.check(k == 0, "D3-LINE-GUARD", SFN, "%s:%s" % (site, nm), "%s < end (k=0)" % nm,
                          "%s site requires `%s %s end` (difference bound k=%d): %s" % (
                              site, nm, "+ %d <" % (-k) if k < 0 else ("<=" if k == 1 else "< (k=%d)" % k), k,
                              "a line whose content is %d byte(s) long is dropped" % (-k) if k < 0 else "a line with no content is recorded"),
                          body.span_of(cbb))
            shapes.append({(x[1] if isinstance(x, tuple) and x[0] == "havoc" else None): k for (x, k, _) in atoms})
        if len(shapes) == 2:
            # sibling agreement: the variable tested at both sites is the first-non-blank cursor; both sites must test it alike
            common = [l for l in shapes[0] if l is not None and l in shapes[1]]
            ok_s = bool(common) and all(shapes[0][l] == shapes[1][l] for l in common)
            ctx.check(ok_s, "D3-SIBLING", SFN, "cursor-test", "both sites test the non-blank cursor alike",
                      "the in-loop and end-of-input sites test the non-blank cursor differently (%s vs %s)" % (shapes[0], shapes[1]), fn_span(body))
        # D3 transfer table of the scan loop: the per-byte update of (line start, first-non-blank cursor, trimming flag)
        if not flag_form:
            scan_transfer(ctx, body, paths, guards)
        # D2 producer: entries = [PlistEntry::from_bytes(&bytes[s..e])? for (s, e) in recorded lines], in recording order; recognised as a push loop
        #              or as lines.into_iter().map(..).collect::<Result<Vec<_>>>()? (lib.accumulation)
        rec = {g[3].args[0][1][1] for g in guards.values() if isinstance(g[3].args[0], tuple) and g[3].args[0][0] == "refmut" and isinstance(g[3].args[0][1], tuple) and g[3].args[0][1][0] == "loc"}
        in_rec = lambda t_: mentions(t_, lambda s_: s_[0] in ("havoc", "mutated", "loc") and s_[1] in rec)
        if scan_call:
            # helper form: the helper returns the vector it recorded into, and from_bytes builds the entries from that call's result
            rets = ret_paths(paths)
            ctx.check(bool(rets) and all(isinstance(p.end[1], tuple) and p.end[1][0] in ("havoc", "mutated", "loc") and p.end[1][1] in rec for p in rets), "D2-PRODUCER", SFN, "returns-recorded",
                      "the scan helper returns the recorded lines", "the scan helper does not return the vector its recording sites push onto", fn_span(body))
            in_rec = lambda t_: bool(find_calls(t_, scan_call))
        oks = [p for p in ret_paths(ppaths) if unwrap_ok(p.end[1]) is not None]
        ctx.floor("D2-PRODUCER", PFB, "Ok-returning paths", len(oks), 1)
        accs = []
        if guards and direct == set(guards):
            # single pass: every recording site pushes from_bytes(&bytes[start..end])? onto the returned entries itself; the entries are in scan order
            # by construction, and nothing else may touch them
            retd = all(mentions(unwrap_ok(p.end[1]), lambda s_: s_[0] in ("havoc", "mutated")) or (agg_variant(unwrap_ok(p.end[1])) and "entries" in (unwrap_ok(p.end[1])[5] or ())) for p in oks)
            ctx.check(retd, "D2-PRODUCER", PFB, "push@entries", "entries = from_bytes(&bytes[s..e])? pushed at each recording site, in scan order (single-pass form)",
                      "the entries pushed at the recording sites are not what is returned", fn_span(pbody))
            only_appended(ctx, "D2-PRODUCER", PFB, "plist.entries", lambda t: mentions(t, lambda s: s[0] == "field" and s[3] == "entries"))
            oks = []
        elif direct:
            ctx.violation("D2-PRODUCER", PFB, "push@entries", "the recording sites mix the two-pass and the single-pass spelling", fn_span(pbody))
            oks = []
        for p in oks[:1]:
            v = unwrap_ok(p.end[1])
            ent = None
            av = agg_variant(v)
            if av and "entries" in (v[5] or ()):
                ent = dict(zip(v[5], av[2])).get("entries")
            elif isinstance(v, tuple) and v[0] in ("havoc", "mutated"):
                ent = ("field", v, 0, "entries")
            acc = accumulation(ctx, PFB, ent, ppaths) if ent is not None else None
            accs.append(acc)
            ok = acc is not None
            why = "the returned entries are not built one per recorded line (no push loop / map+collect over the recorded lines was recognised)"
            if ok:
                it = acc["item"]
                fb = find_calls(it, EFB)
                ok = len(fb) >= 1 and acc["fallible"]
                why = "an entry is %s: expected PlistEntry::from_bytes(&bytes[s..e])? of a recorded line" % term_str(it)[:120]
                if ok:
                    sl = strip_refs(call_args(fb[0])[0])
                    ok = is_index_call(sl) and strip_refs(call_args(sl)[0]) == ("param", 1)
                    rg = canon_range(call_args(sl)[0], call_args(sl)[1]) if ok else None
                    ok = ok and rg is not None and rg[1] != LEN and is_elem(rg[0]) and is_elem(rg[1]) and strip_refs(rg[0]) != strip_refs(rg[1])
                    # start = first component, end = second component of the recorded pair
                    if ok:
                        f0 = [x for x in subterms(rg[0]) if x[0] == "field" and x[2] in (0, 1)]
                        f1 = [x for x in subterms(rg[1]) if x[0] == "field" and x[2] in (0, 1)]
                        ok = bool(f0) and bool(f1) and f0[0][2] == 0 and f1[0][2] == 1
                        why = "the entry is cut as bytes[%s..%s], not bytes[start..end] of the recorded pair" % (term_str(rg[0])[:40], term_str(rg[1])[:40])
                from_rec = (bool(acc["locals"] & rec) and not scan_call) or in_rec(acc["src"])
                ok = ok and from_rec
                if fb and not from_rec:
                    why = "the entries are built from %s, not from the recorded lines" % term_str(acc["src"])[:80]
            ctx.check(ok, "D2-PRODUCER", PFB, "push@entries", "entries = from_bytes(&bytes[s..e])? for each recorded (s,e), in order (%s form)" % (acc["form"] if acc else "?"), why, fn_span(pbody))
        if accs and accs[0] is not None and accs[0]["form"] == "loop":
            only_appended(ctx, "D2-PRODUCER", PFB, "plist.entries", lambda t: mentions(t, lambda s: s[0] == "field" and s[3] == "entries"))
        recl = rec
        if not direct:
            only_appended(ctx, "D2-PRODUCER", SFN, "recorded-lines", lambda t: isinstance(t, tuple) and t[0] == "loc" and t[1] in recl, floor=2)
        errprop(ctx, PFB, ppaths, pbody, rule="D2-ERRPROP", no_effects_after_error=("Vec::push",), floor=1)

    # ---- D4
    # blank tests tabulated over all 256 byte values (any spelling); the command word's own separator test (`== b' '`) is not a blank test
    check_blank_sets(ctx, "D4-BLANKSET", SFN, floor=1)
    check_blank_sets(ctx, "D4-BLANKSET", EFB, floor=1, ignore=lambda acc: acc == {" "})
    n = bytews_sites(ctx, SFN) + bytews_sites(ctx, EFB) + (bytews_sites(ctx, PFB) if SFN != PFB else 0)
    ctx.note("unicode char predicate sites in the two scanners: %d" % n)
