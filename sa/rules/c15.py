"""C15 — PLIST queries agree with each other and with the entry sequence."""
from lib import *

EXPLANATION = (
    "D1 the four file views are extracted as finite-state transducers over (entry kind x ignore flag): 17 kinds x 2 flag values x 4 views = 136 transitions compared with the spec, "
    "the File/Ignore rows identical across the four; flag and prefix start as false/None and the closure is applied to self.entries.iter() by filter/filter_map and collected; "
    "D2 files_prefixed builds prefix (if any) + '/' unless it already ends in '/' + file; "
    "D3 kind filters: depends/build_depends/conflicts/pkgdirs/pkgrmdirs keep every entry of their kind (filter_map+collect), pkgname/display the first (find_map), is_preserve true iff a PkgOpt(Preserve) entry exists")
NOT_DECIDED = ["order preservation and completeness of Iterator::filter / filter_map / find_map / collect, and OsString::push (std semantics)"]
CONFIG_SENSITIVE = False
DESUGAR = True

PE = "plist::PlistEntry"


def entry_of(fx, path):
    """set of entry kinds this closure path applies to (from discriminant facts on the entry argument)"""
    kinds = enum_variants(fx, PE)
    sel = None
    for (t, fact) in discr_facts(path):
        if strip_refs(t) != ("param", 2):
            continue
        if fact[0] == "eq":
            n = variant_by_discr(fx, PE, fact[1])
            sel = {n} if sel is None else sel & {n}
        else:
            ex = {variant_by_discr(fx, PE, v) for v in fact[1]}
            s = set(kinds) - ex
            sel = s if sel is None else sel & s
    return sel if sel is not None else set(kinds)


def flag_place(t, name):
    return isinstance(t, tuple) and mentions(t, lambda s: s[0] == "field" and s[3] == name and strip_refs(s[1]) == ("param", 1))


def transitions(ctx, ckey):
    """(kind, ignore_in) -> dict(emit, ignore_out, prefix_write, path)"""
    fx = ctx.fx
    paths = ret_paths(ctx.paths(ckey) or [])
    table = {}
    for p in paths:
        kinds = entry_of(fx, p)
        ign = None
        for c in p.conds():
            if flag_place(c.term, "ignore") and c.term[0] == "deref":
                ign = (c.fact == ("eq", True))
        r = p.end[1]

        def under(t, iv):
            """the boolean value of t when the flag is iv: constants, `!`, and reads of the flag itself (e.g. `!mem::take(&mut ignore)`)"""
            t = strip_refs(t) if not (isinstance(t, tuple) and t and t[0] == "deref") else t
            if const_of(t) in (True, False):
                return const_of(t)
            if isinstance(t, tuple) and t and t[0] == "unop" and t[1] == "Not":
                v = under(t[2], iv)
                return None if v is None else (not v)
            if isinstance(t, tuple) and t and t[0] == "deref" and flag_place(t, "ignore") and not is_call(t):
                return iv
            return None
        flag_valued = ign is None and under(r, False) is not None and under(r, True) is not None and under(r, False) != under(r, True)
        if flag_valued:
            emit = "by-flag"
        elif const_of(r) is not None and isinstance(const_of(r), bool):
            emit = const_of(r)
        elif is_none(r):
            emit = False
        elif unwrap_some(r) is not None:
            emit = True
        else:
            emit = None
        ign_out = "same"
        pfx = None
        for e in p.events:
            if e.kind == "store" and flag_place(e.place, "ignore"):
                ign_out = const_of(e.value)
            if e.kind == "store" and flag_place(e.place, "prefix"):
                pfx = e.value
        for k in kinds:
            for iv in ((False, True) if ign is None else (ign,)):
                table.setdefault((k, iv), []).append(dict(emit=(under(r, iv) if emit == "by-flag" else emit), ign_out=(iv if ign_out == "same" else ign_out), prefix=pfx, path=p))
    return table


def run(ctx):
    fx = ctx.fx
    sp = spec("plist.json")
    kinds = sp["entry_kinds"]
    ctx.check(enum_variants(fx, PE) == kinds, "D1-KINDS", PE, "variants", "17 entry kinds", "PlistEntry variants %s differ from the spec %s" % (enum_variants(fx, PE), kinds))
    file_rows = {}
    for view, vs in sp["views"].items():
        fn = "plist::Plist::%s" % view
        ck = fn + "::{closure#0}"
        body = ctx.body(ck)
        if body is None:
            continue
        table = transitions(ctx, ck)
        n = 0
        for k in kinds:
            for iv in (False, True):
                rows = table.get((k, iv), [])
                inst = "%s/ignore=%s" % (k, iv)
                sig = {(r["emit"], r["ign_out"], r["prefix"] is not None) for r in rows}
                if len(sig) != 1:
                    ctx.violation("D1-TRANSDUCER", ck, inst, "closure paths for (%s, ignore=%s) disagree or are missing: %s" % (k, iv, sorted(sig, key=repr)), fn_span(body))
                    continue
                n += 1
                r = rows[0]
                if k == "Ignore":
                    want = dict(emit=False, ign_out=True)
                elif k == "File":
                    want = dict(emit=(not iv), ign_out=False)
                else:
                    want = dict(emit=(k in vs["emit"]), ign_out=iv)
                ok = r["emit"] == want["emit"] and r["ign_out"] == want["ign_out"]
                want_pfx = vs["prefix"] and k == "Cwd"
                okp = (r["prefix"] is not None) == want_pfx
                if want_pfx and okp:
                    # prefix := Some(this entry's directory)
                    some = unwrap_some(r["prefix"])
                    okp = some is not None and mentions(some, lambda s: s[0] == "field" and s[1] == ("downcast", ("deref", ("param", 2)), "Cwd") or
                                                        (s[0] == "downcast" and s[2] == "Cwd"))
                ctx.check(ok and okp, "D1-TRANSDUCER", ck, inst,
                          "emit=%s ignore'=%s" % (r["emit"], r["ign_out"]),
                          "%s on %s with ignore=%s: emit=%s ignore'=%s prefix-write=%s; spec: emit=%s ignore'=%s prefix-write=%s"
                          % (view, k, iv, r["emit"], r["ign_out"], r["prefix"] is not None, want["emit"], want["ign_out"], want_pfx),
                          body.span_of(r["path"].blocks[-1]))
                if k in ("File", "Ignore"):
                    file_rows.setdefault((k, iv), {})[view] = (r["emit"], r["ign_out"])
        ctx.floor("D1-TRANSDUCER", ck, "transitions", n, 34)
        # outer function: flag starts false, closure applied over all entries in order and collected
        ops = ctx.paths(fn)
        obody = ctx.body(fn)
        for i, p in enumerate(ret_paths(ops or [])):
            r = p.end[1]
            ok = is_call(r, "::collect")
            det = term_str(r)
            if ok:
                ad = strip_refs(call_args(r)[0])
                ok = is_call(ad, "::" + vs["kind"])
                if ok:
                    src = strip_refs(call_args(ad)[0])
                    ok = is_call(src, "::iter") and mentions(src, lambda s: s[0] == "field" and s[3] == "entries" and strip_refs(s[1]) == ("param", 1))
                    clo = call_args(ad)[1]
                    ok = ok and isinstance(clo, tuple) and clo[0] == "agg" and clo[1] == "closure" and clo[2] == ck
                    # captured initial values
                    caps = clo[4] if ok else ()
                    inits = [strip_refs(c) for c in caps]
                    okinit = any(const_of(x) is False for x in inits)
                    if vs["prefix"]:
                        okinit = okinit and any(is_none(x) for x in inits)
                    ok = ok and okinit
            ctx.check(ok, "D1-APPLY", fn, "pipeline-%d" % i, "entries.iter().%s(closure[ignore=false%s]).collect()" % (vs["kind"], ", prefix=None" if vs["prefix"] else ""),
                      "%s is not entries.iter().%s(closure).collect() with the flag starting as false%s (got %s)" % (view, vs["kind"], " and prefix as None" if vs["prefix"] else "", det), fn_span(obody))
    # sibling agreement on File / Ignore rows
    for key, per in sorted(file_rows.items()):
        vals = set(per.values())
        ctx.check(len(vals) == 1 and len(per) == 4, "D1-SIBLINGS", "plist::Plist", "%s/ignore=%s" % key, "identical in the four views",
                  "File/Ignore handling differs between the views: %s" % per)

    # ---- D2 prefix rule
    ck = "plist::Plist::files_prefixed::{closure#0}"
    ps = ret_paths(ctx.paths(ck) or [])
    body = ctx.body(ck)
    emitting = [p for p in ps if unwrap_some(p.end[1]) is not None]
    ctx.floor("D2-PREFIX", ck, "emitting paths", len(emitting), 2)
    for i, p in enumerate(emitting):
        pushes = [e for e in p.events if ev_is(e, "OsString::push")]
        has_pfx = None
        for c in p.conds():
            if c.term[0] == "discr" and flag_place(c.term[1], "prefix"):
                has_pfx = (c.fact == ("eq", 1))
        slash = None
        for c in p.conds():
            if is_call(c.term, "str>::ends_with") and const_char(call_args(c.term)[1]) == "/":
                slash = (c.fact == ("eq", True))
        seq = []
        for e in pushes:
            a = e.args[1]
            if const_str(a) is not None:
                seq.append("lit:" + const_str(a))
            elif mentions(a, lambda s: s[0] == "downcast" and s[2] == "File"):
                seq.append("file")
            elif flag_place(a, "prefix"):
                seq.append("prefix")
            else:
                seq.append("?")
        want = (["prefix"] if has_pfx else []) + ([] if slash else ["lit:/"]) + ["file"]
        ctx.check(has_pfx is not None and slash is not None and seq == want, "D2-PREFIX", ck, "path-prefix=%s-endslash=%s" % (has_pfx, slash),
                  "pushes %s" % seq, "with prefix=%s and ends-with-'/'=%s the path is built from %s; expected %s" % (has_pfx, slash, seq, want), fn_span(body))
        # the ends_with test is on the path built so far (the prefix), after the prefix push
        ok_on = False
        for c in p.conds():
            if is_call(c.term, "str>::ends_with"):
                ok_on = mentions(call_args(c.term)[0], lambda s: s[0] == "mutated" or is_call(s, "OsString::new"))
        ctx.check(ok_on, "D2-PREFIX", ck, "slash-test-%d" % i, "ends_with('/') is tested on the path built so far", "the '/' test is not made on the prefix that was just pushed", fn_span(body), nontrivial=False)

    # ---- D3 kind filters
    for name, (kind, mode) in sp["kind_filters"].items():
        fn = "plist::Plist::%s" % name
        ck = fn + "::{closure#0}"
        cps = ret_paths(ctx.paths(ck) or [])
        body = ctx.body(ck)
        if body is None:
            continue
        okrows = True
        seen = set()
        for p in cps:
            ks = entry_of(fx, p)
            some = unwrap_some(p.end[1])
            for k in ks:
                seen.add(k)
                if k == kind:
                    good = some is not None and mentions(some, lambda s: s[0] == "field" and isinstance(s[1], tuple) and s[1][0] == "downcast" and s[1][2] == kind)
                else:
                    good = is_none(p.end[1])
                okrows = okrows and good
        ctx.check(okrows and seen == set(kinds), "D3-KIND-FILTER", ck, "selects=%s" % kind, "Some(payload) iff %s" % kind,
                  "%s's closure does not select exactly the %s entries" % (name, kind), fn_span(body))
        obody = ctx.body(fn)
        for i, p in enumerate(ret_paths(ctx.paths(fn) or [])):
            r = p.end[1]
            if mode == "all":
                ok = is_call(r, "::collect") and is_call(strip_refs(call_args(r)[0]), "::filter_map")
                inner = strip_refs(call_args(strip_refs(call_args(r)[0]))[0]) if ok else None
            else:
                ok = is_call(r, "::find_map")
                inner = strip_refs(call_args(r)[0]) if ok else None
                if inner is not None and isinstance(inner, tuple) and inner[0] == "loc":
                    inner = inner[2]
            ok = ok and is_call(inner, "::iter") and mentions(inner, lambda s: s[0] == "field" and s[3] == "entries")
            ctx.check(ok, "D3-KIND-APPLY", fn, "pipeline-%d" % i, "entries.iter().%s" % ("filter_map(..).collect()" if mode == "all" else "find_map(..)"),
                      "%s is not entries.iter().%s (got %s)" % (name, "filter_map(..).collect()" if mode == "all" else "find_map(..)", term_str(r)), fn_span(obody))
    # is_preserve
    fn = "plist::Plist::is_preserve"
    ck = fn + "::{closure#0}"
    cps = ret_paths(ctx.paths(ck) or [])
    body = ctx.body(ck)
    if body is not None:
        ok = True
        seen = set()
        for p in cps:
            for k in entry_of(fx, p):
                seen.add(k)
                ok = ok and (const_of(p.end[1]) is (k == "PkgOpt"))
        ctx.check(ok and seen == set(kinds), "D3-PRESERVE", ck, "selects=PkgOpt", "true iff PkgOpt(Preserve)", "is_preserve's closure is not `entry is PkgOpt(Preserve)`", fn_span(body))
        po = fx.adts.get("plist::PlistOption")
        ctx.check(po is not None and [v["name"] for v in po["variants"]] == ["Preserve"], "D3-PRESERVE", "plist::PlistOption", "single-option",
                  "Preserve is the only option", "PlistOption gained variants: is_preserve must then inspect the option", nontrivial=False)
        obody = ctx.body(fn)
        for i, p in enumerate(ret_paths(ctx.paths(fn) or [])):
            r = p.end[1]
            ok = False
            if isinstance(r, tuple) and r[0] == "binop" and r[1] in ("Gt", "Ne", "Ge"):
                cnt, k = r[2], const_int(r[3])
                ok = is_call(cnt, "::count") and is_call(strip_refs(call_args(cnt)[0]), "::filter") and ((r[1] in ("Gt", "Ne") and k == 0) or (r[1] == "Ge" and k == 1))
            elif is_call(r, "::any"):
                ok = True
            ctx.check(ok, "D3-PRESERVE", fn, "pipeline-%d" % i, "filter(..).count() > 0", "is_preserve is not `some entry satisfies the closure` (got %s)" % term_str(r), fn_span(obody))
