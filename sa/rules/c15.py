"""C15 — PLIST queries agree with each other and with the entry sequence."""
from lib import *

EXPLANATION = (
    "D1 the four file views are extracted as finite-state transducers over (entry kind x ignore flag): 17 kinds x 2 flag values x 4 views = 136 transitions compared with the spec, "
    "the File/Ignore rows identical across the four; flag and prefix start as false/None and the closure is applied to self.entries.iter() by filter/filter_map and collected; "
    "D2 files_prefixed builds prefix (if any) + '/' unless it already ends in '/' + file; "
    "D3 kind filters: depends/build_depends/conflicts/pkgdirs/pkgrmdirs keep every entry of their kind (filter_map+collect), pkgname/display the first (find_map), is_preserve true iff a PkgOpt(Preserve) entry exists")
NOT_DECIDED = ["order preservation and completeness of Iterator::filter / filter_map / find_map / collect, and OsString::push (std semantics)"]
CONFIG_SENSITIVE = False
DESUGAR = True

PE = "plist::PlistEntry"


def entry_of(fx, path):
    """set of entry kinds this closure path applies to (from discriminant facts on the entry argument)"""
    kinds = enum_variants(fx, PE)
    sel = None
    for (t, fact) in discr_facts(path):
        if strip_refs(t) != ("param", 2):
            continue
        if fact[0] == "eq":
            n = variant_by_discr(fx, PE, fact[1])
            sel = {n} if sel is None else sel & {n}
        else:
            ex = {variant_by_discr(fx, PE, v) for v in fact[1]}
            s = set(kinds) - ex
            sel = s if sel is None else sel & s
    return sel if sel is not None else set(kinds)


def flag_place(t, name):
    return isinstance(t, tuple) and mentions(t, lambda s: s[0] == "field" and s[3] == name and strip_refs(s[1]) == ("param", 1))


def is_flag_read(t):
    """a read of the captured @ignore state: the captured bool itself (`*ignore`), or a bool field of a captured state struct (`ignore.pending`)"""
    if not (isinstance(t, tuple) and t and t[0] in ("deref", "field")):
        return False
    x = t
    while isinstance(x, tuple) and x and x[0] in ("deref", "field", "ref", "refmut"):
        x = x[1]
    return x == ("param", 1) and flag_place(t, "ignore")


def false_init(x):
    """the initial value of the captured state is `not ignoring`: false, or a state struct all of whose fields are false / bool::default()"""
    x = strip_refs(x)
    if isinstance(x, tuple) and x and x[0] == "loc" and len(x) > 2:
        x = strip_refs(x[2])
    if const_of(x) is False:
        return True
    if is_call(x, "<bool as std::default::Default>::default"):
        return True
    if isinstance(x, tuple) and x[:2] == ("agg", "adt") and x[4]:
        return all(false_init(f) for f in x[4])
    return False


def transitions(ctx, ckey, wanted=None):
    """(kind, ignore_in) -> dict(emit, ignore_out, prefix_write, path).  `wanted` = {kind: bool} when the closure delegates the decision for the
    kinds it does not handle itself to a predicate it captured (a shared `filter_cmds(wanted)` helper)"""
    fx = ctx.fx
    paths = ret_paths(ctx.paths(ckey) or [])
    table = {}
    for p in paths:
        kinds = entry_of(fx, p)
        rr = strip_refs(p.end[1])
        if wanted is not None and is_call(rr, "ops::function::Fn", "::call") and len(call_args(rr)) == 2 and flag_place(call_args(rr)[0], "wanted") \
                and mentions(call_args(rr)[1], lambda s_: s_ == ("param", 2)) and not any(e.kind == "store" for e in p.events):
            # the captured predicate applied to this very entry decides, and nothing else happens on this path
            for k in kinds:
                for iv in (False, True):
                    table.setdefault((k, iv), []).append(dict(emit=wanted.get(k), ign_out=iv, prefix=None, path=p))
            continue
        ign = None
        for c in p.conds():
            if is_flag_read(c.term):
                ign = (c.fact == ("eq", True))
        r = p.end[1]

        def under(t, iv):
            """the boolean value of t when the flag is iv: constants, `!`, and reads of the flag itself (e.g. `!mem::take(&mut ignore)`)"""
            t = strip_refs(t) if not (isinstance(t, tuple) and t and t[0] == "deref") else t
            if const_of(t) in (True, False):
                return const_of(t)
            if isinstance(t, tuple) and t and t[0] == "unop" and t[1] == "Not":
                v = under(t[2], iv)
                return None if v is None else (not v)
            if is_flag_read(t):
                return iv
            return None
        flag_valued = ign is None and under(r, False) is not None and under(r, True) is not None and under(r, False) != under(r, True)
        if flag_valued:
            emit = "by-flag"
        elif const_of(r) is not None and isinstance(const_of(r), bool):
            emit = const_of(r)
        elif is_none(r):
            emit = False
        elif unwrap_some(r) is not None:
            emit = True
        else:
            emit = None
        ign_out = "same"
        pfx = None
        for e in p.events:
            if e.kind == "store" and flag_place(e.place, "ignore"):
                ign_out = const_of(e.value)
            if e.kind == "store" and flag_place(e.place, "prefix"):
                pfx = e.value
        for k in kinds:
            for iv in ((False, True) if ign is None else (ign,)):
                table.setdefault((k, iv), []).append(dict(emit=(under(r, iv) if emit == "by-flag" else emit), ign_out=(iv if ign_out == "same" else ign_out), prefix=pfx, path=p))
    return table


def loop_transitions(ctx, fn):
    """The same transducer when a view is written as `for entry in &self.entries { match entry { .. } }` pushing onto a result vector:
    (kind, ignore_in) -> dict(emit, ign_out, prefix, path) from the loop's back-edge paths, plus a dict describing the skeleton
    (what is iterated, initial flag / prefix, what is returned), or (None, None) when the function is not of that form."""
    fx = ctx.fx
    body = ctx.body(fn)
    paths = ctx.paths(fn)
    if body is None or not paths or len(body.loops) != 1:
        return None, None
    h = next(iter(body.loops))
    backs = [p for p in paths if p.end[0] == "back" and p.end[1] == h]
    rets = ret_paths(paths)
    drv = [c for p in backs for c in p.conds() if c.term[0] == "discr" and is_call(strip_refs(c.term[1]), "::next") and strip_refs(c.term[1])[4] == h]
    if not backs or not drv or not rets:
        return None, None
    nx = strip_refs(drv[0].term[1])
    elem = ("field", ("downcast", nx, "Some"), 0, "0")
    res = [strip_refs(p.end[1]) for p in rets]
    if not all(isinstance(r, tuple) and r and r[0] in ("havoc", "mutated") for r in res) or len({r[1] for r in res}) != 1:
        return None, None
    rloc = res[0][1]
    flags = {l for l, ty in enumerate(x["ty"] for x in body.f["locals"]) if ty == "bool" and any(isinstance(p.env.get(l), tuple) for p in backs)
             and any(isinstance(c.term, tuple) and c.term[0] == "havoc" and c.term[1] == l for p in backs for c in p.conds())}
    if len(flags) != 1:
        return None, None
    flag = next(iter(flags))
    carried = {l for p in backs for l, v in p.env.items() if isinstance(v, tuple) and v and not (v[0] == "havoc" and v[1] == l)
               and any(isinstance(q.env.get(l), tuple) and q.env.get(l)[0] == "havoc" and q.env.get(l)[1] == l and q.env.get(l)[2] == h for q in backs)}
    # state carried from one entry to the next: written in some iteration AND read (as the value it had on entry to the iteration) in some iteration
    def read_carried(l):
        pr = lambda x: isinstance(x, tuple) and len(x) > 2 and x[0] == "havoc" and x[1] == l and x[2] == h
        for p in backs:
            for e in p.events:
                ts = [e.term] if e.kind == "cond" else (list(e.args) if e.kind == "call" else [])
                if any(mentions(t, pr) for t in ts if isinstance(t, tuple)):
                    return True
        return False
    pfx_locals = {l for l in carried - {flag, rloc} if read_carried(l) and body.local_name(l) is not None}
    kinds_all = enum_variants(fx, PE)
    table = {}
    for p in backs:
        sel = None
        for c in p.conds():
            t = c.term
            if t[0] == "discr":
                x = strip_refs(t[1])
                while isinstance(x, tuple) and x and x[0] == "deref":
                    x = strip_refs(x[1])
                if x == elem:
                    if c.fact[0] == "eq":
                        s_ = {variant_by_discr(fx, PE, c.fact[1])}
                    else:
                        s_ = set(kinds_all) - {variant_by_discr(fx, PE, v) for v in c.fact[1]}
                    sel = s_ if sel is None else sel & s_
        ks = sel if sel is not None else set(kinds_all)
        ign = None
        for c in p.conds():
            if isinstance(c.term, tuple) and c.term[0] == "havoc" and c.term[1] == flag and isinstance(c.fact[1], bool):
                ign = c.fact[1]
        pushes = [e for e in p.events if ev_is(e, "Vec::push") and isinstance(e.args[0], tuple) and e.args[0][0] == "refmut" and isinstance(e.args[0][1], tuple) and e.args[0][1][:2] == ("loc", rloc)]
        other = [e for e in p.events if e.kind == "call" and e.args and isinstance(e.args[0], tuple) and e.args[0][0] == "refmut" and isinstance(e.args[0][1], tuple)
                 and e.args[0][1][:2] == ("loc", rloc) and not ev_is(e, "Vec::push")]
        emit = None if (other or len(pushes) > 1) else bool(pushes)
        fv = p.env.get(flag)
        ign_out = "same" if (isinstance(fv, tuple) and fv[0] == "havoc" and fv[1] == flag) else const_of(fv)
        pw = None
        for l in pfx_locals:
            v = p.env.get(l)
            if isinstance(v, tuple) and not (v[0] == "havoc" and v[1] == l):
                pw = v
        for k in ks:
            for iv in ((False, True) if ign is None else (ign,)):
                table.setdefault((k, iv), []).append(dict(emit=emit, ign_out=(iv if ign_out == "same" else ign_out), prefix=pw, path=p, elem=elem))
    hv = [x for p in backs for c in p.conds() for x in subterms(c.term) if x[0] == "havoc" and len(x) > 3]
    finit = {const_of(x[3]) for x in hv if x[1] == flag}
    src = _iter_src(call_args(nx)[0])
    skel = dict(flag_init=finit, over_entries=isinstance(src, tuple) and src[0] == "field" and src[3] == "entries" and strip_refs(src[1]) in (("param", 1), ("deref", ("param", 1))),
                result_init=[x[3] for p in rets for x in [strip_refs(p.end[1])] if len(x) > 3], prefix_locals=pfx_locals, elem=elem, loop=h,
                exits_only_when_exhausted=all(any(c.term == drv[0].term and c.fact == ("eq", 0) for c in p.conds()) for p in rets))
    return table, skel


def _iter_src(t):
    from lib import _iter_source
    return _iter_source(t)


def ends_in_slash(c):
    """(subject, truth) if the path condition says whether `subject` ends in '/': x.ends_with('/') on the text or on its bytes, or
    x.as_bytes().last() == Some(&b'/') (either operand order, == or !=)"""
    t = c.term
    if not isinstance(c.fact[1], bool) or c.fact[0] != "eq":
        return None
    if is_call(t, "str>::ends_with", "[T]>::ends_with") and len(call_args(t)) == 2 and \
            (const_char(call_args(t)[1]) == "/" or const_bytes(call_args(t)[1]) == "/" or const_str(call_args(t)[1]) == "/"):
        return call_args(t)[0], c.fact[1]
    iq = inequality_fact(c)
    if iq is not None:
        for a, b in ((iq[0], iq[1]), (iq[1], iq[0])):
            av = agg_variant(b)
            if is_call(a, "[T]>::last") and len(call_args(a)) == 1 and av and av[1] == "Some" and av[2] and const_int(deval(av[2][0])) == 47:
                return call_args(a)[0], not iq[2]
    return None


def run(ctx):
    fx = ctx.fx
    sp = spec("plist.json")
    kinds = sp["entry_kinds"]
    ctx.check(enum_variants(fx, PE) == kinds, "D1-KINDS", PE, "variants", "17 entry kinds", "PlistEntry variants %s differ from the spec %s" % (enum_variants(fx, PE), kinds))
    file_rows = {}
    loop_views = {}
    for view, vs in sp["views"].items():
        fn = "plist::Plist::%s" % view
        ck = fn + "::{closure#0}"
        body = ctx.body(ck) if fx.fn(ck) is not None else None
        skel = None
        if body is None:
            # no closure: the view may be written as a for-loop over the entries pushing onto the result
            table, skel = loop_transitions(ctx, fn)
            if table is None:
                continue
            ck = fn
            body = ctx.body(fn)
        else:
            # the stateful closure may live in a helper the view hands its own (stateless) predicate to: self.filter_cmds(|e| matches!(e, ..))
            wanted = None
            for q in ret_paths(ctx.paths(fn) or []):
                r_ = strip_refs(q.end[1])
                if is_call(r_, "::collect") and call_args(r_):
                    ad_ = strip_refs(call_args(r_)[0])
                    clo_ = strip_refs(call_args(ad_)[1]) if is_call(ad_, "::filter", "::filter_map") and len(call_args(ad_)) == 2 else None
                    if isinstance(clo_, tuple) and clo_[:2] == ("agg", "closure") and clo_[2] != ck and fx.fn(clo_[2]) is not None:
                        own = [strip_refs(c_) for c_ in clo_[4] if isinstance(strip_refs(c_), tuple) and strip_refs(c_)[:2] == ("agg", "closure") and strip_refs(c_)[2] == ck]
                        if len(own) == 1 and not own[0][4]:
                            wanted = {}
                            for wp in ret_paths(ctx.paths(ck) or []):
                                for k_ in entry_of(fx, wp):
                                    v_ = const_of(wp.end[1])
                                    wanted[k_] = v_ if (k_ not in wanted or wanted[k_] == v_) and isinstance(v_, bool) else None
                            ck = clo_[2]
                            body = ctx.body(ck)
            table = transitions(ctx, ck, wanted)
        n = 0
        for k in kinds:
            for iv in (False, True):
                rows = table.get((k, iv), [])
                inst = "%s/ignore=%s" % (k, iv)
                sig = {(r["emit"], r["ign_out"], r["prefix"] is not None) for r in rows}
                if len(sig) != 1:
                    ctx.violation("D1-TRANSDUCER", ck, inst, "closure paths for (%s, ignore=%s) disagree or are missing: %s" % (k, iv, sorted(sig, key=repr)), fn_span(body))
                    continue
                n += 1
                r = rows[0]
                if k == "Ignore":
                    want = dict(emit=False, ign_out=True)
                elif k == "File":
                    want = dict(emit=(not iv), ign_out=False)
                else:
                    want = dict(emit=(k in vs["emit"]), ign_out=iv)
                ok = r["emit"] == want["emit"] and r["ign_out"] == want["ign_out"]
                want_pfx = vs["prefix"] and k == "Cwd"
                okp = (r["prefix"] is not None) == want_pfx
                if want_pfx and okp:
                    # prefix := Some(this entry's directory)   (loop form: the directory itself, no Option around it)
                    some = unwrap_some(r["prefix"]) if skel is None else r["prefix"]
                    okp = some is not None and mentions(some, lambda s: s[0] == "field" and s[1] == ("downcast", ("deref", ("param", 2)), "Cwd") or
                                                        (s[0] == "downcast" and s[2] == "Cwd"))
                ctx.check(ok and okp, "D1-TRANSDUCER", ck, inst,
                          "emit=%s ignore'=%s" % (r["emit"], r["ign_out"]),
                          "%s on %s with ignore=%s: emit=%s ignore'=%s prefix-write=%s; spec: emit=%s ignore'=%s prefix-write=%s"
                          % (view, k, iv, r["emit"], r["ign_out"], r["prefix"] is not None, want["emit"], want["ign_out"], want_pfx),
                          body.span_of(r["path"].blocks[-1]))
                if k in ("File", "Ignore"):
                    file_rows.setdefault((k, iv), {})[view] = (r["emit"], r["ign_out"])
        ctx.floor("D1-TRANSDUCER", ck, "transitions", n, 34)
        if skel is not None:
            oks_ = skel["flag_init"] == {False} and skel["over_entries"] and skel["exits_only_when_exhausted"] and bool(skel["result_init"]) \
                and all(is_call(strip_refs(x), "Vec::new", "Vec::<T>::new", "Vec::with_capacity") for x in skel["result_init"]) and (bool(skel["prefix_locals"]) == bool(vs["prefix"]))
            ctx.check(oks_, "D1-APPLY", fn, "pipeline-0", "for entry in &self.entries { .. push .. } with the flag starting as false, returning the pushed vector",
                      "%s is not a loop over all of self.entries (flag starting false, result starting empty, left only at the end)" % view, fn_span(body))
            loop_views[view] = skel
            continue
        # outer function: flag starts false, closure applied over all entries in order and collected
        ops = ctx.paths(fn)
        obody = ctx.body(fn)
        for i, p in enumerate(ret_paths(ops or [])):
            r = p.end[1]
            ok = is_call(r, "::collect")
            det = term_str(r)
            if ok:
                ad = strip_refs(call_args(r)[0])
                # a trailing element-wise `.map(|x| <a view of x>)` (as_os_str, as_ref, deref ..) changes neither which entries are emitted nor their order
                if is_call(ad, "Iterator::map", "::map") and len(call_args(ad)) == 2 and vs["kind"] == "filter_map":
                    mc = strip_refs(call_args(ad)[1])
                    view = False
                    if isinstance(mc, tuple) and mc[:2] == ("agg", "closure"):
                        rr = [q.end[1] for q in ret_paths(ctx.paths(mc[2]) or [])]
                        if len(rr) == 1:
                            x = strip_refs(rr[0])
                            for _ in range(4):
                                if is_call(x, "::as_os_str", "::as_ref", "Deref>::deref", "::as_path", "::as_str", "::as_slice") and len(call_args(x)) == 1:
                                    x = strip_refs(call_args(x)[0])
                            view = x == ("param", 2)
                    if view:
                        ad = strip_refs(call_args(ad)[0])
                # a stateless projection after the stateful filter: entries.iter().filter(state closure).filter_map(|e| match e { File(f) => Some(..), _ => None }):
                # what is emitted is what the filter lets through, provided the projection keeps every kind the filter can let through
                if vs["kind"] == "filter_map" and is_call(ad, "::filter_map") and is_call(strip_refs(call_args(ad)[0]), "Iterator::filter", "::filter") and len(call_args(ad)) == 2:
                    c1 = strip_refs(call_args(ad)[1])
                    inner = strip_refs(call_args(ad)[0])
                    c0 = strip_refs(call_args(inner)[1]) if len(call_args(inner)) == 2 else None
                    if isinstance(c1, tuple) and c1[:2] == ("agg", "closure") and not c1[4] and isinstance(c0, tuple) and c0[:2] == ("agg", "closure") and c0[2] == ck:
                        keeps, drops = set(), set()
                        for q in ret_paths(ctx.paths(c1[2]) or []):
                            if unwrap_some(q.end[1]) is not None:
                                keeps |= entry_of(fx, q)
                            elif is_none(q.end[1]):
                                drops |= entry_of(fx, q)
                            else:
                                drops |= set(kinds)
                        lets = {k_ for (k_, iv_), rows_ in table.items() if any(r_["emit"] for r_ in rows_)}
                        if lets and lets <= keeps and not (lets & drops):
                            ad = ("call", "std::iter::Iterator::filter_map", (), (call_args(inner)[0], c0), None)
                ok = is_call(ad, "::" + vs["kind"])
                if ok:
                    src = strip_refs(call_args(ad)[0])
                    ok = is_call(src, "::iter") and mentions(src, lambda s: s[0] == "field" and s[3] == "entries" and strip_refs(s[1]) == ("param", 1))
                    clo = call_args(ad)[1]
                    ok = ok and isinstance(clo, tuple) and clo[0] == "agg" and clo[1] == "closure" and clo[2] == ck
                    # captured initial values
                    caps = clo[4] if ok else ()
                    inits = [strip_refs(c) for c in caps]
                    okinit = any(false_init(x) for x in inits)
                    if vs["prefix"]:
                        okinit = okinit and any(is_none(x) for x in inits)
                    ok = ok and okinit
            ctx.check(ok, "D1-APPLY", fn, "pipeline-%d" % i, "entries.iter().%s(closure[ignore=false%s]).collect()" % (vs["kind"], ", prefix=None" if vs["prefix"] else ""),
                      "%s is not entries.iter().%s(closure).collect() with the flag starting as false%s (got %s)" % (view, vs["kind"], " and prefix as None" if vs["prefix"] else "", det), fn_span(obody))
    # sibling agreement on File / Ignore rows
    for key, per in sorted(file_rows.items()):
        vals = set(per.values())
        ctx.check(len(vals) == 1 and len(per) == 4, "D1-SIBLINGS", "plist::Plist", "%s/ignore=%s" % key, "identical in the four views",
                  "File/Ignore handling differs between the views: %s" % per)

    # ---- D2 prefix rule
    ck = "plist::Plist::files_prefixed::{closure#0}"
    if fx.fn(ck) is None and "files_prefixed" in loop_views:
        # loop form: the directory is carried as a plain (possibly empty) string; the path is  dir  +  "/" unless dir ends in "/"  +  file
        fn = "plist::Plist::files_prefixed"
        skel = loop_views["files_prefixed"]
        body = ctx.body(fn)
        h = skel["loop"]
        backs = [p for p in ctx.paths(fn) if p.end[0] == "back" and p.end[1] == h]
        pl = next(iter(skel["prefix_locals"])) if len(skel["prefix_locals"]) == 1 else None
        is_pfx = lambda t: mentions(t, lambda s_: s_[0] == "havoc" and s_[1] == pl and len(s_) > 2 and s_[2] == h)
        hv = [x for p in backs for e in p.events if e.kind == "call" for a in e.args for x in subterms(a) if x[0] == "havoc" and x[1] == pl and len(x) > 3]
        empty0 = bool(hv) and all(is_call(strip_refs(x[3]), "OsStr::new", "::new", "::from", "::default") and
                                  (not call_args(strip_refs(x[3])) or const_str(call_args(strip_refs(x[3]))[0]) == "") for x in hv)
        ctx.check(pl is not None and empty0, "D2-PREFIX", fn, "no-directory-yet", "before any @cwd the carried directory is the empty string",
                  "the directory carried by files_prefixed does not start out empty", fn_span(body), nontrivial=False)
        emitting = [p for p in backs if any(ev_is(e, "Vec::push") for e in p.events)]
        ctx.floor("D2-PREFIX", fn, "emitting paths", len(emitting), 2)
        for i, p in enumerate(emitting):
            vp = [e for e in p.events if ev_is(e, "Vec::push")][0]
            pv = strip_refs(vp.args[1])
            ploc = pv[1] if isinstance(pv, tuple) and pv[0] in ("mutated", "havoc") else None
            pushes = [e for e in p.events if ev_is(e, "OsString::push") and isinstance(e.args[0], tuple) and e.args[0][0] == "refmut" and isinstance(e.args[0][1], tuple) and e.args[0][1][:2] == ("loc", ploc)]
            init = pushes[0].args[0][1][2] if pushes and len(pushes[0].args[0][1]) > 2 else None
            slash = None
            for c in p.conds():
                es = ends_in_slash(c)
                if es is not None and is_pfx(es[0]):
                    slash = es[1]
            seq = ["prefix"] if init is not None and is_call(strip_refs(init), "::to_os_string", "::to_owned", "OsString::from", "::into") and is_pfx(init) else []
            for e in pushes:
                a = e.args[1]
                if const_str(a) is not None:
                    seq.append("lit:" + const_str(a))
                elif mentions(a, lambda s_: s_[0] == "downcast" and s_[2] == "File"):
                    seq.append("file")
                elif is_pfx(a):
                    seq.append("prefix")
                else:
                    seq.append("?")
            want = ["prefix"] + ([] if slash else ["lit:/"]) + ["file"]
            ctx.check(slash is not None and seq == want, "D2-PREFIX", fn, "path-endslash=%s" % slash, "builds %s" % seq,
                      "with ends-with-'/'=%s the path is built from %s; expected %s" % (slash, seq, want), fn_span(body))
        ck = None
    ps = ret_paths(ctx.paths(ck) or []) if ck else []
    body = ctx.body(ck) if ck else None
    emitting = [p for p in ps if unwrap_some(p.end[1]) is not None]
    if ck:
        ctx.floor("D2-PREFIX", ck, "emitting paths", len(emitting), 2)
    for i, p in enumerate(emitting):
        pushes = [e for e in p.events if ev_is(e, "OsString::push")]
        has_pfx = None
        for c in p.conds():
            if c.term[0] == "discr" and flag_place(c.term[1], "prefix"):
                has_pfx = (c.fact == ("eq", 1))
        slash = None
        for c in p.conds():
            es = ends_in_slash(c)
            if es is not None:
                slash = es[1]
        seq = []
        for e in pushes:
            a = e.args[1]
            if const_str(a) is not None:
                seq.append("lit:" + const_str(a))
            elif mentions(a, lambda s: s[0] == "downcast" and s[2] == "File"):
                seq.append("file")
            elif flag_place(a, "prefix"):
                seq.append("prefix")
            else:
                seq.append("?")
        want = (["prefix"] if has_pfx else []) + ([] if slash else ["lit:/"]) + ["file"]
        ctx.check(has_pfx is not None and slash is not None and seq == want, "D2-PREFIX", ck, "path-prefix=%s-endslash=%s" % (has_pfx, slash),
                  "pushes %s" % seq, "with prefix=%s and ends-with-'/'=%s the path is built from %s; expected %s" % (has_pfx, slash, seq, want), fn_span(body))
        # the ends_with test is on the path built so far (the prefix), after the prefix push
        ok_on = False
        for c in p.conds():
            es = ends_in_slash(c)
            if es is not None:
                ok_on = mentions(es[0], lambda s: s[0] == "mutated" or is_call(s, "OsString::new"))
        ctx.check(ok_on, "D2-PREFIX", ck, "slash-test-%d" % i, "ends_with('/') is tested on the path built so far", "the '/' test is not made on the prefix that was just pushed", fn_span(body), nontrivial=False)

    # ---- D3 kind filters
    for name, (kind, mode) in sp["kind_filters"].items():
        fn = "plist::Plist::%s" % name
        ck = fn + "::{closure#0}"
        cps = ret_paths(ctx.paths(ck) or [])
        body = ctx.body(ck)
        if body is None:
            continue
        okrows = True
        seen = set()
        for p in cps:
            ks = entry_of(fx, p)
            some = unwrap_some(p.end[1])
            for k in ks:
                seen.add(k)
                if k == kind:
                    good = some is not None and mentions(some, lambda s: s[0] == "field" and isinstance(s[1], tuple) and s[1][0] == "downcast" and s[1][2] == kind)
                else:
                    good = is_none(p.end[1])
                okrows = okrows and good
        ctx.check(okrows and seen == set(kinds), "D3-KIND-FILTER", ck, "selects=%s" % kind, "Some(payload) iff %s" % kind,
                  "%s's closure does not select exactly the %s entries" % (name, kind), fn_span(body))
        obody = ctx.body(fn)
        for i, p in enumerate(ret_paths(ctx.paths(fn) or [])):
            r = p.end[1]
            if mode == "all":
                ok = is_call(r, "::collect") and is_call(strip_refs(call_args(r)[0]), "::filter_map")
                inner = strip_refs(call_args(strip_refs(call_args(r)[0]))[0]) if ok else None
            else:
                ok = is_call(r, "::find_map")
                inner = strip_refs(call_args(r)[0]) if ok else None
                if inner is not None and isinstance(inner, tuple) and inner[0] == "loc":
                    inner = inner[2]
            ok = ok and is_call(inner, "::iter") and mentions(inner, lambda s: s[0] == "field" and s[3] == "entries")
            ctx.check(ok, "D3-KIND-APPLY", fn, "pipeline-%d" % i, "entries.iter().%s" % ("filter_map(..).collect()" if mode == "all" else "find_map(..)"),
                      "%s is not entries.iter().%s (got %s)" % (name, "filter_map(..).collect()" if mode == "all" else "find_map(..)", term_str(r)), fn_span(obody))
    # is_preserve
    fn = "plist::Plist::is_preserve"
    ck = fn + "::{closure#0}"
    cps = ret_paths(ctx.paths(ck) or [])
    body = ctx.body(ck)
    if body is not None:
        ok = True
        seen = set()
        for p in cps:
            for k in entry_of(fx, p):
                seen.add(k)
                ok = ok and (const_of(p.end[1]) is (k == "PkgOpt"))
        ctx.check(ok and seen == set(kinds), "D3-PRESERVE", ck, "selects=PkgOpt", "true iff PkgOpt(Preserve)", "is_preserve's closure is not `entry is PkgOpt(Preserve)`", fn_span(body))
        po = fx.adts.get("plist::PlistOption")
        ctx.check(po is not None and [v["name"] for v in po["variants"]] == ["Preserve"], "D3-PRESERVE", "plist::PlistOption", "single-option",
                  "Preserve is the only option", "PlistOption gained variants: is_preserve must then inspect the option", nontrivial=False)
        obody = ctx.body(fn)
        for i, p in enumerate(ret_paths(ctx.paths(fn) or [])):
            r = p.end[1]
            ok = False
            if isinstance(r, tuple) and r[0] == "binop" and r[1] in ("Gt", "Ne", "Ge"):
                cnt, k = r[2], const_int(r[3])
                ok = is_call(cnt, "::count") and is_call(strip_refs(call_args(cnt)[0]), "::filter") and ((r[1] in ("Gt", "Ne") and k == 0) or (r[1] == "Ge" and k == 1))
            elif is_call(r, "::any"):
                ok = True
            ctx.check(ok, "D3-PRESERVE", fn, "pipeline-%d" % i, "filter(..).count() > 0", "is_preserve is not `some entry satisfies the closure` (got %s)" % term_str(r), fn_span(obody))
