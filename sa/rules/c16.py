"""C16 — pbulk-index output splits into one record per PKGNAME, fields never leaking (structural clauses)."""
from lib import *

EXPLANATION = (
    "D1 key<->field table of Deserialize for ScanIndex: each struct field originates from map.get(<its own key>), with the spec kind (required via PkgName::new, optional scalar, whitespace-separated list, fallible item/list with the error propagated); "
    "D2 segmentation pairing in from_reader: a record is emitted exactly on (line starts with \"PKGNAME=\" and buffer non-empty) and at end of input with a non-empty buffer; the buffer is cleared between an in-loop emit and the next append; every kept line is appended with a newline; blank lines continue without effect; "
    "D3 whole-or-nothing: every Result in from_reader/str_to_index/deserialize is propagated, the only Ok carries the vector built by push in order; "
    "D4 KEY=VALUE lines are split at the first '=' with both sides trimmed, lines without '=' are skipped, later insert wins; optional-result / list-result fields may be written with combinators (map/transpose, map/collect) or with control flow (match on get(key), a push loop), judged per outcome of the lookup")
NOT_DECIDED = ["BufRead::lines, HashMap, str::trim and split_whitespace semantics (std)"]
CONFIG_SENSITIVE = True


def kv_pipeline(ctx, key, paths, body):
    """[(present, key term, value term)] per line (ELEM) when visit_str builds its map as lines().filter_map(..)[.map(..)].collect(); else None"""
    rets = [p for p in ret_paths(paths) if unwrap_ok(p.end[1]) is not None]
    if not rets:
        return None
    t = strip_refs(unwrap_ok(rets[0].end[1]))
    if not (is_call(t, "::collect") and call_args(t)):
        return None
    t = strip_refs(call_args(t)[0])
    stages = []
    for _ in range(4):
        if is_call(t, "Iterator>::map", "::map", "::filter_map") and len(call_args(t)) == 2:
            stages.append((mir.norm_path(t[1]).rsplit("::", 1)[-1], call_args(t)[1]))
            t = strip_refs(call_args(t)[0])
        else:
            break
    if not (is_call(t, "str>::lines") and stages):
        return None
    pe = mir.PathEval(ctx.fx, body, inline=ctx.inline_set, desugar=True)
    cur = [(True, ELEM)]
    for kind, fn in reversed(stages):
        nxt = []
        for present, term in cur:
            if not present:
                nxt.append((False, None))
                continue
            for (_, facts, v) in pe._apply(strip_refs(fn) if isinstance(fn, tuple) and fn and fn[0] in ("ref",) else fn, (term,), 0):
                if v is None:
                    return None
                if kind == "map":
                    nxt.append((True, v))
                    continue
                sm = unwrap_some(v)
                if sm is not None:
                    nxt.append((True, sm))
                elif is_none(v):
                    nxt.append((False, None))
                else:
                    # an opaque Option (e.g. line.split_once('=')): kept with its payload when Some, dropped when None
                    nxt.append((True, ("field", ("downcast", v, "Some"), 0, "")))
                    nxt.append((False, None))
        cur = nxt
    out = []
    for present, term in cur:
        if not present:
            out.append((False, None, None))
            continue
        tt = strip_refs(term)
        a = tt[4] if isinstance(tt, tuple) and tt and tt[0] == "agg" and tt[1] == "tuple" and len(tt[4]) == 2 else None
        if a is None:
            return None
        out.append((True, a[0], a[1]))
    return out


def only_maps(r):
    """collect(map(..map(split_whitespace(x), f).., g)): nothing but element-wise maps sits between the splitter and the collection
    (a whitelist: any other adaptor drops, reorders or merges items)"""
    t = strip_refs(call_args(r)[0]) if is_call(r, "::collect") and call_args(r) else None
    for _ in range(6):
        if is_call(t, "Iterator>::map", "::map") and len(call_args(t)) == 2:
            t = strip_refs(call_args(t)[0])
        elif is_call(t, "str>::split_whitespace"):
            return True
        else:
            return False
    return False


def words_of_lookup(ctx, r, key):
    """r is collect(map(..map(W, f).., g)) over W = map.get(key).into_iter().flat_map(|v| v.split_whitespace()): the Option as an iterator
    of at most one value, each value replaced by its words -- no words when the key is absent, the value's words in order when present.
    Returns the collect call, or None."""
    cs = [x for x in subterms(r) if is_call(x, "::collect")]
    if len(cs) != 1 or not call_args(cs[0]):
        return None
    t = strip_refs(call_args(cs[0])[0])
    for _ in range(6):
        if is_call(t, "Iterator>::map", "Iterator::map") and len(call_args(t)) == 2:
            t = strip_refs(call_args(t)[0])
        else:
            break
    if not (is_call(t, "Iterator::flat_map") and len(call_args(t)) == 2):
        return None
    src = strip_refs(call_args(t)[0])
    if not (is_call(src, "IntoIterator>::into_iter") and "Option" in src[1] and len(call_args(src)) == 1):
        return None
    g = strip_refs(call_args(src)[0])
    if not (is_call(g, "HashMap::get") and const_str(call_args(g)[1]) == key):
        return None
    clo = strip_refs(call_args(t)[1])
    if not (isinstance(clo, tuple) and clo[:2] == ("agg", "closure")):
        return None
    rp = ret_paths(ctx.paths(clo[2]) or [])
    if len(rp) != 1 or not (is_call(rp[0].end[1], "str>::split_whitespace") and deval(strip_refs(call_args(rp[0].end[1])[0])) == ("param", 2)):
        return None
    return cs[0]


def run(ctx):
    fx = ctx.fx
    if ctx.config == "nodefault":
        # without the serde feature the reader and the Deserialize impl do not exist: nothing to decide
        gone = not fx.find(r"scanindex::ScanIndex::from_reader")
        ctx.check(gone, "CONFIG", "scanindex", "no-default-features", "from_reader is absent without the serde feature",
                  "from_reader exists without the serde feature but the rules only cover the serde configuration", nontrivial=False)
        return
    sp = spec("scanindex.json")
    keys = sp["keys"]
    dk = [k for k in fx.fns if k.startswith("<scanindex::ScanIndex as") and k.endswith("Deserialize<'de>>::deserialize")]
    ctx.floor("D1-KEY-FIELD", "scanindex::ScanIndex", "Deserialize impl", len(dk), 1)
    alt_seen = {}
    if dk:
        DK = dk[0]
        paths = ctx.paths(DK)
        body = ctx.body(DK)
        # the field extraction may live in a helper that deserialize() hands the freshly read map to (`ScanIndex::from_vars(&map)`): then the
        # helper is judged, and deserialize() is only required to produce the map with deserialize_str(KeyValue) and return the helper's result
        DK0, paths0, body0 = DK, paths, body
        tails = [strip_refs(p.end[1]) for p in ret_paths(paths) if not is_propagated_err(p.end[1])]
        if tails and all(is_call(t, ) and fx.fn(t[1]) is not None and len(call_args(t)) == 1 for t in tails) and len({t[1] for t in tails}) == 1 \
                and all(mentions(call_args(t)[0], lambda s_: is_call(s_, "deserialize_str")) for t in tails):
            DK = tails[0][1]
            paths = ctx.paths(DK)
            body = ctx.body(DK)
        oks = [p for p in ret_paths(paths) if unwrap_ok(p.end[1]) is not None]
        ctx.floor("D1-KEY-FIELD", DK, "Ok paths", len(oks), 1)
        for p in oks:
            v = unwrap_ok(p.end[1])
            a = agg_variant(v)
            flds = dict(zip(v[5], a[2]))
            byfield = {c["field"]: (k, c) for k, c in keys.items()}
            for f, t in flds.items():
                if f in sp["computed_fields"]:
                    ctx.check(is_call(t, "Vec::new") or (is_call(t) and not find_calls(t, "HashMap::get")), "D1-KEY-FIELD", DK, "field=%s" % f, "not read from the input", "computed field %s is read from the input" % f, fn_span(body), nontrivial=False)
                    continue
                if f not in byfield:
                    ctx.violation("D1-KEY-FIELD", DK, "field=%s" % f, "struct field %s has no key in the spec" % f, fn_span(body))
                    continue
                key, c = byfield[f]
                gets = find_calls(t, "HashMap::get")
                lits = {const_str(call_args(g)[1]) for g in gets}
                ok = lits == {key}
                why = "field %s is read from key(s) %s, expected %s" % (f, sorted(x for x in lits if x), key)
                # the same optional / list values written with control flow instead of combinators: decided per path on the lookup's outcome
                if c["kind"] in ("optional-result", "list-result"):
                    G = [strip_refs(x.term[1]) for x in p.conds() if x.term[0] == "discr" and is_call(strip_refs(x.term[1]), "HashMap::get") and const_str(call_args(strip_refs(x.term[1]))[1]) == key]
                    t0 = strip_refs(t)
                    if G and ((c["kind"] == "optional-result" and agg_variant(t0) is not None and agg_variant(t0)[1] in ("Some", "None")) or
                              (c["kind"] == "list-result" and isinstance(t0, tuple) and (t0[0] in ("havoc", "mutated", "field") or is_call(t0, "Vec::new", "Vec::<T>::new")))):
                        g = G[-1]
                        fact = [x.fact for x in p.conds() if x.term[0] == "discr" and strip_refs(x.term[1]) == g][-1]
                        present = fact == ("eq", 1)
                        pay = ("field", ("downcast", g, "Some"), 0, "0")

                        def from_payload(x):
                            return mentions(x, lambda s_: len(s_) > 2 and s_[0] == "field" and s_[2] == 0 and isinstance(s_[1], tuple) and s_[1][:1] == ("downcast",) and s_[1][2] == "Some" and strip_refs(s_[1][1]) == g)
                        if c["kind"] == "optional-result":
                            av = agg_variant(strip_refs(t))
                            if not present:
                                ok = bool(av) and av[1] == "None"
                            else:
                                x = av[2][0] if av and av[1] == "Some" and av[2] else None
                                v = find_calls(x, c["via"]) if x is not None else []
                                ok = bool(v) and has_try(x) and from_payload(call_args(v[0])[0]) and not find_calls(x, "Result::ok", "Result::unwrap_or", "Result::unwrap_or_default")
                            why = "%s is not `None when %s is absent, Some(%s(value)?) when present`" % (f, key, c["via"])
                        else:
                            if not present:
                                ok = is_call(strip_refs(t), "Vec::new", "Vec::<T>::new")
                            else:
                                acc = accumulation(ctx, DK, t, paths)
                                v = find_calls(acc["item"], c["via"]) if acc else []
                                ok = acc is not None and is_call(strip_refs(acc["src"]), "str>::split_whitespace") and from_payload(call_args(strip_refs(acc["src"]))[0]) and bool(v) \
                                    and (has_try(acc["item"]) or (acc["form"] == "collect" and acc["fallible"] and "Result" in " ".join(str(g_) for g_ in (find_calls(t, "::collect") or [((),(),())])[0][2]))) \
                                    and not find_calls(acc["item"], "Result::ok", "Result::unwrap_or", "Result::unwrap_or_default")
                            why = "%s is not `empty when %s is absent, else %s(item)? for every whitespace-separated item, in order`" % (f, key, c["via"])
                        ctx.check(ok, "D1-KEY-FIELD", DK, "field=%s" % f, "%s <- %s (%s, written with control flow)" % (f, key, c["kind"]), why, fn_span(body))
                        alt_seen.setdefault(f, set()).add(present)
                        continue
                if c["kind"] == "list" and not is_call(strip_refs(t), "Option::map_or", "Option::map_or_else", "Option::unwrap_or_default", "Option::unwrap_or", "Option::unwrap_or_else"):
                    # the infallible list written as `match map.get(key) { Some(v) => v.split_whitespace().map(f).collect(), None => Vec::new() }`
                    G = [strip_refs(x.term[1]) for x in p.conds() if x.term[0] == "discr" and is_call(strip_refs(x.term[1]), "HashMap::get") and const_str(call_args(strip_refs(x.term[1]))[1]) == key]
                    if G:
                        g = G[-1]
                        fact = [x.fact for x in p.conds() if x.term[0] == "discr" and strip_refs(x.term[1]) == g][-1]
                        present = fact == ("eq", 1)
                        t0 = strip_refs(t)
                        if not present:
                            ok = is_call(t0, "Vec::new", "Vec::<T>::new", "Default>::default") or (agg_variant(t0) is None and is_call(t0, "into_vec") and False)
                        else:
                            sw = find_calls(t0, "str>::split_whitespace")
                            ok = is_call(t0, "::collect") and len(sw) == 1 and only_maps(t0) and \
                                mentions(call_args(sw[0])[0], lambda s_: len(s_) > 2 and s_[0] == "field" and s_[2] == 0 and isinstance(s_[1], tuple) and s_[1][:1] == ("downcast",) and s_[1][2] == "Some" and strip_refs(s_[1][1]) == g)
                        why = "list %s is not `empty when %s is absent, else its whitespace-separated items in order`" % (f, key)
                        ctx.check(ok, "D1-KEY-FIELD", DK, "field=%s" % f, "%s <- %s (list, written with control flow)" % (f, key), why, fn_span(body))
                        alt_seen.setdefault(f, set()).add(present)
                        continue
                wl = words_of_lookup(ctx, t, key) if ok and c["kind"] in ("list", "list-result") else None
                if wl is not None:
                    # the list as map.get(key).into_iter().flat_map(split_whitespace).map(conv).collect()
                    if c["kind"] == "list":
                        ok = strip_refs(t) == wl
                        why = "list %s is not the collected words of map.get(key) (empty when absent)" % f
                    else:
                        via = mentions(wl, lambda s_: s_[0] == "const" and isinstance(s_[2], tuple) and s_[2][0] == "fn" and s_[2][1] == c["via"])
                        ok = via and "Result" in " ".join(str(g_) for g_ in wl[2][1:]) and has_try(t) and not find_calls(t, "Result::ok", "Result::unwrap_or", "Result::unwrap_or_default") \
                            and strip_refs(call_args(find_calls(t, "Try>::branch")[0])[0]) == wl if find_calls(t, "Try>::branch") else False
                        why = "%s is not words.map(%s).collect::<Result<Vec,_>>()? (any bad item fails the record)" % (f, c["via"])
                    ctx.check(ok, "D1-KEY-FIELD", DK, "field=%s" % f, "%s <- %s (%s, the Option's words flattened)" % (f, key, c["kind"]), why, fn_span(body))
                    continue
                if ok:
                    # between the lookup and the field only the combinators of the field's kind may sit: a .filter(..) / .take_if(..) / .or(..)
                    # on the looked-up value would turn some present values into absent ones (or the reverse)
                    chain, u_ = [], strip_refs(t)
                    for _ in range(16):
                        if isinstance(u_, tuple) and len(u_) > 2 and u_[0] == "field" and isinstance(u_[1], tuple) and u_[1][0] == "downcast":
                            u_ = strip_refs(u_[1][1])
                        elif is_call(u_, "HashMap::get"):
                            break
                        elif is_call(u_) and call_args(u_):
                            if "option::Option" in u_[1] or "Option::" in mir.norm_path(u_[1]) or "Option<" in u_[1]:
                                chain.append(mir.norm_path(u_[1]).rsplit("::", 1)[-1])      # a combinator on the looked-up Option itself
                            u_ = strip_refs(call_args(u_)[0])
                        else:
                            break
                    ALLOWED = {"map", "transpose", "map_err", "branch", "from_residual", "ok_or", "ok_or_else", "cloned", "copied", "as_deref", "as_ref", "map_or", "map_or_else",
                               "unwrap_or_default", "unwrap_or", "unwrap_or_else", "into", "from", "new", "deref", "as_str", "to_string", "to_owned", "clone"}
                    stray = [n_ for n_ in chain if n_ not in ALLOWED]
                    if is_call(u_, "HashMap::get") and stray:
                        ok = False
                        why = "the value looked up for %s passes through %s before it becomes the field: present values can be dropped or replaced" % (key, stray)
                        ctx.check(ok, "D1-KEY-FIELD", DK, "field=%s" % f, "%s <- %s (%s)" % (f, key, c["kind"]), why, fn_span(body))
                        continue
                if ok:
                    kind = c["kind"]
                    if kind == "optional":
                        # the looked-up string copied as it is: .map(String::from) / .cloned() / .map(Clone::clone | to_string | to_owned | Into::into)
                        COPY_FN = ("String", "Clone", "clone", "to_string", "to_owned", "ToOwned", "ToString", "Into", "into")
                        u = strip_refs(t)
                        for _ in range(4):
                            if is_call(u, "Option::cloned", "Option::copied", "Option::as_deref", "Option::as_ref"):
                                u = strip_refs(call_args(u)[0])
                            elif is_call(u, "Option::map") and mentions(call_args(u)[1], lambda s: s[0] == "const" and isinstance(s[2], tuple) and s[2][0] == "fn" and any(x in s[2][1] for x in COPY_FN)):
                                u = strip_refs(call_args(u)[0])
                            else:
                                break
                        ok = u is not t and u != strip_refs(t) and is_call(u, "HashMap::get")
                        why = "optional scalar %s is not the looked-up string copied unchanged (map.get(key).map(String::from) / .cloned())" % f
                    elif kind == "required":
                        ok = is_call(t, c["via"]) and bool(find_calls(t, "Option::ok_or", "Option::ok_or_else")) and has_try(t)
                        mf = find_calls(t, "Error::missing_field")
                        if not mf:
                            # ok_or_else(|| missing_field(key)): the error is built in the closure
                            for cl in [s_ for s_ in subterms(t) if s_[0] == "agg" and s_[1] == "closure"]:
                                rp_ = ret_paths(ctx.paths(cl[2]) or [])
                                if rp_ and all(is_call(cp.end[1], "Error::missing_field") for cp in rp_):
                                    mf = [rp_[0].end[1]]
                        ok = ok and bool(mf) and const_str(call_args(mf[0])[0]) == key
                        why = "required %s is not %s(map.get(key).ok_or(missing_field(key))?)" % (f, c["via"])
                        if not ok:
                            # the same written with control flow: match map.get(key) { Some(v) => via(v), None => return Err(missing_field(key)) }
                            G = [x for x in p.conds() if x.term[0] == "discr" and is_call(strip_refs(x.term[1]), "HashMap::get") and const_str(call_args(strip_refs(x.term[1]))[1]) == key]
                            if G and G[-1].fact == ("eq", 1):
                                g = strip_refs(G[-1].term[1])
                                pay = mentions(t, lambda s_: len(s_) > 2 and s_[0] == "field" and s_[2] == 0 and isinstance(s_[1], tuple) and s_[1][:1] == ("downcast",) and s_[1][2] == "Some" and strip_refs(s_[1][1]) == g)
                                absent = [q for q in ret_paths(paths) if any(x.term[0] == "discr" and strip_refs(x.term[1]) == g and (x.fact == ("eq", 0) or (x.fact[0] == "ne" and 1 in x.fact[1])) for x in q.conds())]
                                okabs = bool(absent) and all(unwrap_err(q.end[1]) is not None and is_call(strip_refs(unwrap_err(q.end[1])), "Error::missing_field")
                                                             and const_str(call_args(strip_refs(unwrap_err(q.end[1])))[0]) == key for q in absent)
                                ok = is_call(t, c["via"]) and pay and okabs
                    elif kind == "optional-result":
                        clo = [s for s in subterms(t) if s[0] == "agg" and s[1] == "closure"]
                        okc = False
                        for cl in clo:
                            for cp in ret_paths(ctx.paths(cl[2]) or []):
                                okc = okc or (is_call(cp.end[1], c["via"]) and mentions(cp.end[1], lambda s: s == ("param", 2)))
                        ok = has_try(t) and bool(find_calls(t, "Option::transpose")) and okc
                        why = "%s is not map.get(key).map(%s).transpose()? (error propagated)" % (f, c["via"])
                    elif kind == "list":
                        clo = [s for s in subterms(t) if s[0] == "agg" and s[1] == "closure"]
                        okc = False
                        for cl in clo:
                            for cp in ret_paths(ctx.paths(cl[2]) or []):
                                r = cp.end[1]
                                okc = okc or (is_call(r, "::collect") and bool(find_calls(r, "str>::split_whitespace")) and mentions(r, lambda s: s == ("param", 2)) and only_maps(r))
                        # absent -> empty: map_or(vec![], f) / map_or_else(Vec::new, f) / map(f).unwrap_or_default() / map(f).unwrap_or(vec![]) / .unwrap_or_else(Vec::new)
                        t1 = strip_refs(t)
                        if is_call(t1, "Option::unwrap_or_default") or (is_call(t1, "Option::unwrap_or", "Option::unwrap_or_else") and len(call_args(t1)) == 2 and
                                                                          (is_call(strip_refs(call_args(t1)[1]), "Vec::new", "Vec::<T>::new") or
                                                                           mentions(call_args(t1)[1], lambda s_: s_[0] == "const" and isinstance(s_[2], tuple) and s_[2][0] == "fn" and ("Vec" in s_[2][1] and s_[2][1].endswith("::new") or s_[2][1].endswith("Default::default"))))):
                            t1 = strip_refs(call_args(t1)[0])
                            dflt = is_call(t1, "Option::map")
                        else:
                            dflt = is_call(t1, "Option::map_or", "Option::map_or_else")
                            if dflt:
                                d0 = strip_refs(call_args(t1)[1])
                                dflt = is_call(d0, "Vec::new", "Vec::<T>::new") or (isinstance(d0, tuple) and d0[:2] == ("agg", "closure")) or mentions(d0, lambda s_: s_[0] == "const" and isinstance(s_[2], tuple) and s_[2][0] == "fn")
                        ok = okc and dflt
                        why = "list %s is not the whitespace-separated items of map.get(key) in order (empty when absent)" % f
                    elif kind == "list-result":
                        clo = [s for s in subterms(t) if s[0] == "agg" and s[1] == "closure"]
                        okc = False
                        for cl in clo:
                            for cp in ret_paths(ctx.paths(cl[2]) or []):
                                r = cp.end[1]
                                if is_call(r, "::collect") and find_calls(r, "str>::split_whitespace"):
                                    via = mentions(r, lambda s: s[0] == "const" and isinstance(s[2], tuple) and s[2][0] == "fn" and s[2][1] == c["via"])
                                    res = "Result" in " ".join(r[2])
                                    okc = okc or (via and res and only_maps(r))
                        ok = okc and has_try(t)
                        why = "%s is not split_whitespace().map(%s).collect::<Result<Vec,_>>()? (any bad item fails the record)" % (f, c["via"])
                ctx.check(ok, "D1-KEY-FIELD", DK, "field=%s" % f, "%s <- %s (%s)" % (f, key, c["kind"]), why, fn_span(body))
            missing = set(byfield) - set(flds)
            ctx.check(not missing, "D1-KEY-FIELD", DK, "all-keys-used", "all 15 keys fill a field", "no field is filled from key(s) of %s" % sorted(missing), fn_span(body))
            ctx.floor("D1-KEY-FIELD", DK, "fields", len(flds), 16)
        for f, seen in sorted(alt_seen.items()):
            ctx.check(seen == {True, False}, "D1-KEY-FIELD", DK, "field=%s:both-outcomes" % f, "both the present and the absent case of the key reach Ok",
                      "field %s: only the %s case of its key reaches an Ok result" % (f, "present" if True in seen else "absent"), fn_span(body), nontrivial=False)
        errprop(ctx, DK, paths, body, rule="D3-ERRPROP", no_effects_after_error=(), floor=3)
        ms = [e for p in paths0 for e in p.calls("deserialize_str")]
        ctx.check(bool(ms), "D1-KEY-FIELD", DK, "map-source", "the map comes from deserialize_str(KeyValue)", "the key/value map is not produced by deserialize_str(KeyValue)", fn_span(body), nontrivial=False)

    # ---- D2 from_reader
    FR = "scanindex::ScanIndex::from_reader"
    paths = ctx.paths(FR)
    body = ctx.body(FR)
    if paths:
        # state by role: `indexes` is the vector returned in Ok(..), `buffer` the String handed to str_to_index.  Each is a local, or a field of a
        # local struct that the loop's helpers (inlined) work on; a field is keyed by its name because a by-value `finish(self)` moves the struct
        names = {}
        bases = set()

        def place_key(t):
            for _ in range(4):
                if isinstance(t, tuple) and t and t[0] in ("ref", "refmut"):
                    t = t[1]
            if not isinstance(t, tuple) or not t:
                return None
            if t[0] in ("loc", "havoc", "mutated"):
                return ("loc", t[1])
            if t[0] == "field" and isinstance(t[1], tuple) and t[1] and t[1][0] in ("loc", "havoc", "mutated"):
                return ("fld", t[3])
            return None

        def note_role(t, role):
            k = place_key(t)
            if k is not None:
                names[k] = role
                if k[0] == "fld" and t[1][1] >= 0:
                    bases.add(t[1][1])
        for p_ in paths:
            if p_.end[0] == "return" and unwrap_ok(p_.end[1]) is not None:
                r_ = unwrap_ok(p_.end[1])
                if isinstance(r_, tuple) and (r_[0] in ("havoc", "mutated") or r_[0] == "field"):
                    note_role(r_, "indexes")
            for e_ in p_.calls("ScanIndex::str_to_index"):
                for s_ in subterms(e_.args[0]):
                    if s_[0] in ("havoc", "mutated") and 0 <= s_[1] < len(body.f["locals"]) and body.f["locals"][s_[1]]["ty"] == "std::string::String":
                        note_role(s_, "buffer")
                    elif s_[0] == "field" and place_key(s_) is not None and place_key(s_)[0] == "fld" and strip_refs(e_.args[0]) == s_:
                        note_role(s_, "buffer")

        def on(e, nm):
            a = e.args[0] if e.args else None
            return isinstance(a, tuple) and a[0] == "refmut" and names.get(place_key(a)) == nm

        def is_buffer_empty_test(t):
            # buffer.is_empty(), directly or on a &str view of it (a helper taking the buffer as &str)
            if not is_call(t, "String::is_empty", "str>::is_empty"):
                return False
            a = strip_refs(call_args(t)[0])
            return names.get(place_key(a)) == "buffer"
        if os.environ.get("VERIF_DEBUG"): print("C16 names", names, bases)
        backs = [p for p in paths if p.end[0] == "back"]
        ctx.floor("D2-SEGMENT", FR, "loop back-edge paths", len(backs), 3)
        kinds = set()
        for i, p in enumerate(backs):
            emits = [e for e in p.events if ev_is(e, "Vec::push") and on(e, "indexes")]
            # emptying the buffer, in any spelling: clear(), truncate(0), drain(..) as a statement
            clears = [e for e in p.events if e.kind == "call" and on(e, "buffer") and (ev_is(e, "String::clear") or (ev_is(e, "String::truncate") and const_int(e.args[1]) == 0)
                                                                  or (ev_is(e, "String::drain") and agg_variant(e.args[1]) and agg_variant(e.args[1])[1] == "RangeFull"))]
            appends = [e for e in p.events if ev_is(e, "String::push_str") and on(e, "buffer")]
            nls = [e for e in p.events if ev_is(e, "String::push") and on(e, "buffer")]
            blank = [c for c in p.conds() if is_call(c.term, "str>::is_empty") and mentions(c.term, lambda s: is_call(s, "str>::trim"))]
            is_blank = bool(blank) and blank[0].fact == ("eq", True)
            start = [c for c in p.conds() if is_call(c.term, "str>::starts_with") and const_str(call_args(c.term)[1]) == sp["record_start"]]
            # the boundary test looks at the line as read (trimmed of surrounding blanks), not at a case-folded or otherwise rewritten copy
            for c in start:
                rew = sorted({mir.norm_path(s_[1]).rsplit("::", 1)[-1] for s_ in subterms(call_args(c.term)[0]) if is_call(s_, "::to_ascii_uppercase", "::to_uppercase", "::to_ascii_lowercase", "::to_lowercase", "::replace", "::trim_matches", "::trim_start_matches")})
                if rew and ("rewritten", c.bb) not in kinds:
                    kinds.add(("rewritten", c.bb))
                    ctx.violation("D2-SEGMENT", FR, "boundary-test-on-line-as-read", "the record boundary is tested on a rewritten copy of the line (%s): lines that merely resemble PKGNAME= would start a record" % rew, body.span_of(c.bb))
            nonempty = [c for c in p.conds() if is_buffer_empty_test(c.term)]
            if is_blank:
                kinds.add("blank")
                ctx.check(not (emits or clears or appends or nls), "D2-SEGMENT", FR, "blank-line", "blank lines have no effect",
                          "a blank line emits, clears or appends", body.span_of(p.blocks[-1]))
                continue
            if emits:
                kinds.add("emit")
                ev = p.events
                okg = bool(start) and start[0].fact == ("eq", True) and bool(nonempty) and nonempty[0].fact == ("eq", False)
                ctx.check(okg, "D2-SEGMENT", FR, "emit-guard", "emit only on PKGNAME= with a non-empty buffer",
                          "a record is emitted on a path not guarded by starts_with(\"PKGNAME=\") && !buffer.is_empty()", body.span_of(emits[0].bb))
                okp = len(emits) == 1 and len(clears) >= 1 and len(appends) == 1 and ev.index(emits[0]) < ev.index(clears[0]) < ev.index(appends[0])
                ctx.check(okp, "D2-PAIRING", FR, "emit-clear-append", "emit -> buffer.clear() -> append",
                          "after an in-loop emit the buffer is not cleared before the next line is appended: the next record inherits this record's lines", body.span_of(emits[0].bb))
                src = emits[0].args[1]
                oks = bool(find_calls(src, "ScanIndex::str_to_index")) and has_try(src) and \
                    any(names.get(place_key(s)) == "buffer" for s in subterms(src) if s[0] in ("havoc", "mutated", "field"))
                ctx.check(oks, "D2-SEGMENT", FR, "emit-source", "emits str_to_index(&buffer)?", "the emitted record is not str_to_index(&buffer)?", body.span_of(emits[0].bb))
            else:
                kinds.add("keep")
                okg = (bool(start) and start[0].fact == ("eq", False)) or (bool(nonempty) and nonempty[0].fact == ("eq", True))
                # emptying a buffer known to be empty changes nothing
                noop_clear = bool(nonempty) and nonempty[0].fact == ("eq", True) and all(p.events.index(c_) > p.events.index(nonempty[0]) for c_ in clears)
                ctx.check(okg and (not clears or noop_clear), "D2-SEGMENT", FR, "keep-path-%s" % ("first" if (start and start[0].fact == ("eq", True)) else "other"),
                          "non-emitting path: not a record start, or nothing buffered yet", "a line is kept without emitting although it starts a record with a non-empty buffer (or the buffer is cleared)", body.span_of(p.blocks[-1]))
            okl = len(appends) == 1 and len(nls) == 1 and p.events.index(appends[0]) < p.events.index(nls[0]) and const_char(nls[0].args[1]) == "\n" \
                and mentions(appends[0].args[1], lambda s: is_call(s, "str>::trim"))
            ctx.check(okl, "D2-APPEND", FR, "line+newline-%d" % i, "buffer += trimmed line + '\\n'", "a kept line is not appended as <trimmed line> followed by a newline", body.span_of(p.blocks[-1]))
        ctx.check(kinds >= {"blank", "emit", "keep"}, "D2-SEGMENT", FR, "arms", "blank / emit / keep arms present", "from_reader lacks arm(s): %s" % sorted({"blank", "emit", "keep"} - kinds), fn_span(body), nontrivial=False)
        # end of input
        oks = [p for p in ret_paths(paths) if unwrap_ok(p.end[1]) is not None]
        ctx.floor("D2-SEGMENT", FR, "Ok paths", len(oks), 2)
        saw_final = False
        for p in oks:
            emits = [e for e in p.events if ev_is(e, "Vec::push") and on(e, "indexes")]
            ne = [c for c in p.conds() if is_buffer_empty_test(c.term)]
            empty = bool(ne) and ne[-1].fact == ("eq", True)
            if empty:
                ctx.check(not emits, "D2-SEGMENT", FR, "final-empty", "nothing emitted for an empty buffer", "a record is emitted from an empty buffer at end of input", fn_span(body), nontrivial=False)
            else:
                saw_final = True
                ctx.check(len(emits) == 1 and bool(find_calls(emits[0].args[1], "ScanIndex::str_to_index")), "D2-SEGMENT", FR, "final-emit", "the last record is emitted at end of input",
                          "the buffered last record is not emitted at end of input", fn_span(body))
            r = unwrap_ok(p.end[1])
            ctx.check(isinstance(r, tuple) and r[0] in ("havoc", "mutated", "field") and names.get(place_key(r)) == "indexes", "D3-RETURN", FR, "returns-indexes", "Ok(indexes)", "the Ok value is not the vector the records were pushed to", fn_span(body), nontrivial=False)
        ctx.check(saw_final, "D2-SEGMENT", FR, "final-arm", "end-of-input emit exists", "no end-of-input emit: the last record is lost", fn_span(body), nontrivial=False)
        # (a call handed the whole state struct mutably, and not inlined, may change the vector too)
        only_appended(ctx, "D3-RETURN", FR, "indexes", lambda t: names.get(place_key(t)) == "indexes" or (isinstance(t, tuple) and t[0] == "loc" and t[1] in bases), floor=2)
        errprop(ctx, FR, paths, body, rule="D3-ERRPROP", no_effects_after_error=("Vec::push",), floor=2)
    STI = "scanindex::ScanIndex::str_to_index"
    paths = ctx.paths(STI, desugar=True)     # `deserialize(..).map_err(f)` returned as it is and `Ok(deserialize(..).map_err(f)?)` are the same paths once evaluated
    if paths:
        body = ctx.body(STI)
        errprop(ctx, STI, paths, body, rule="D3-ERRPROP", no_effects_after_error=(), floor=1)
        oks = [p for p in ret_paths(paths) if unwrap_ok(p.end[1]) is not None]
        ok = bool(oks) and all(bool(find_calls(p.end[1], "Deserialize<'de>>::deserialize", "::deserialize")) and mentions(p.end[1], lambda s: s == ("param", 1)) for p in oks)
        ctx.check(ok, "D3-RECORD", STI, "deserialises-input", "Ok(ScanIndex::deserialize(input)?)", "str_to_index does not deserialize its own input", fn_span(body))

    # ---- D4 KeyValue::visit_str
    vk = [k for k in fx.fns if k.startswith("<scanindex::KeyValue as") and k.endswith("::visit_str")]
    ctx.floor("D4-KEYVALUE", "scanindex::KeyValue", "visit_str", len(vk), 1)
    if vk:
        VK = vk[0]
        paths = ctx.paths(VK)
        body = ctx.body(VK)
        if os.environ.get("VERIF_DEBUG"): print("C16 names", names, bases)
        backs = [p for p in paths if p.end[0] == "back"]
        ins_seen = skip_seen = False
        for p in backs:
            ins = [e for e in p.events if ev_is(e, "HashMap::insert")]
            so = [c for c in p.conds() if c.term[0] == "discr" and is_call(strip_refs(c.term[1]), "str>::split_once", "str>::rsplit_once", "str>::splitn", "str>::split", "str>::find", "str>::rfind")]
            if ins:
                ins_seen = True
                k, v = ins[0].args[1], ins[0].args[2]
                sk, sv = find_split_parts(k), find_split_parts(v)
                ok = bool(sk) and bool(sv) and sk[0]["sep"] == "=" and occurrence(sk[0]) == "first" and part_role(sk[0]) == "prefix" and part_role(sv[0]) == "suffix" and sk[0]["split"] == sv[0]["split"]
                if not ok:
                    # the same cut in any other spelling (find('=') + slicing, split_at ..): both sides on the substr normal form, relative to the line
                    tk_ = [x for x in subterms(k) if is_call(x, "str>::trim")]
                    tv_ = [x for x in subterms(v) if is_call(x, "str>::trim")]
                    ssk = substr(call_args(tk_[0])[0]) if tk_ else None
                    ssv = substr(call_args(tv_[0])[0]) if tv_ else None
                    if ssk is not None and ssv is not None and substr_role(ssk) == ("prefix", "find", "=") and substr_role(ssv) == ("suffix", "find", "=") and ssk[0] == ssv[0] \
                            and mentions(ssk[0], lambda s_: is_call(s_, "str>::lines")):
                        ok = True
                        sk = [dict(api="find", sep="=", subject=ssk[0])]
                ctx.check(ok, "D4-FIRSTSEP", VK, "split", "key/value = before/after the FIRST '='",
                          "KEY=VALUE is split with %s: a value must be everything after the first '='" % (((sk[0]["api"], sk[0]["sep"]) if sk else None),), body.span_of(ins[0].bb))
                okt = bool(find_calls(k, "str>::trim")) and bool(find_calls(v, "str>::trim"))
                ctx.check(okt, "D4-TRIM", VK, "trimmed", "both sides trimmed", "key or value is stored untrimmed", body.span_of(ins[0].bb), nontrivial=False)
                lines = mentions(sk[0]["subject"], lambda s: is_call(s, "str>::lines")) if sk else False
                ctx.check(lines, "D4-LINES", VK, "per-line", "one KEY=VALUE per line of the record", "pairs are not taken per line of the record text", body.span_of(ins[0].bb), nontrivial=False)
            else:
                skip_seen = skip_seen or (bool(so) and (so[0].fact == ("eq", 0) or (so[0].fact[0] == "ne" and 1 in so[0].fact[1])))
        if not backs:
            # the same map written as an iterator pipeline: value.lines().filter_map(split at '=').map(trim both).collect()
            pl = kv_pipeline(ctx, VK, paths, body)
            if pl is not None:
                for (present, k, v) in pl:
                    if not present:
                        skip_seen = True
                        continue
                    ins_seen = True
                    tk = [x for x in subterms(k) if is_call(x, "str>::trim")]
                    tv = [x for x in subterms(v) if is_call(x, "str>::trim")]
                    ctx.check(bool(tk) and bool(tv), "D4-TRIM", VK, "trimmed", "both sides trimmed", "key or value is stored untrimmed", fn_span(body), nontrivial=False)
                    rk = substr_role(substr(call_args(tk[0])[0])) if tk else ("none", None, None)
                    rv = substr_role(substr(call_args(tv[0])[0])) if tv else ("none", None, None)
                    sk_, sv_ = (substr(call_args(tk[0])[0]) if tk else None), (substr(call_args(tv[0])[0]) if tv else None)
                    ok = rk == ("prefix", "find", "=") and rv == ("suffix", "find", "=") and sk_[0] == ELEM and sv_[0] == ELEM
                    ctx.check(ok, "D4-FIRSTSEP", VK, "split", "key/value = before/after the FIRST '=' of the line",
                              "KEY=VALUE is cut as %s / %s of the line: a value must be everything after the first '='" % (rk, rv), fn_span(body))
                    ctx.ok("D4-LINES", VK, "per-line", "one KEY=VALUE per line of the record (lines() pipeline)", fn_span(body), nontrivial=False)
        ctx.check(ins_seen and skip_seen, "D4-KEYVALUE", VK, "arms", "insert on '=', skip otherwise", "visit_str lacks the insert arm or the skip arm for lines without '='", fn_span(body))
        oks = [p for p in ret_paths(paths) if unwrap_ok(p.end[1]) is not None]
        ctx.check(bool(oks) and len(ret_paths(paths)) == len(oks), "D4-KEYVALUE", VK, "always-ok", "always returns the map", "visit_str can fail on a well-formed string", fn_span(body), nontrivial=False)
