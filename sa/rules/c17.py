"""C17 — no input makes a parser or matcher panic or hang (panic-site inventory + termination classification)."""
import hashlib
import json
import os
import re
from lib import *
import lib as _lib

EXPLANATION = (
    "D1 panic-site inventory: every MIR Assert (bounds, overflow, division) and every call to a std API that panics on its argument values, or to core::panicking, in every hand-written body of the crate is listed; "
    "each site must be discharged on EVERY enumerated path through it by an automatic guard rule (length fixed by a dominating test, index drawn from a range bounded by the indexed length, unwrap after is_some/is_none, "
    "split position from a search on the same string, length arithmetic on in-memory sizes) or by a reasoned exemption with a checked fingerprint; otherwise it is a violation; "
    "D2 the internal-consistency panics of Summary are unreachable because C07's kind-consistency and who-writes rules hold (re-evaluated here); "
    "D3 termination: every loop is driven by a finite std iterator whose None edge leaves the loop, or is the registered tokeniser loop whose every back-edge path advances the cursor by a positive amount; "
    "every recursion cycle is registered with a decreasing measure; input-controlled recursion depth / fan-out is reported; guard rules also cover cuts at counted positions (position, take_while().count()), at the first match of a byte predicate that cannot hit a continuation byte, right after a one-byte match, after a leading one-byte delimiter, constant cuts under an established minimum length, ordered ranges below the length, n-1 after n != 0; read loops that continue only after consuming input and loops over array literals are classified; fingerprints are taken over canonical terms (ranges, element access, loop element == closure element)"
    " PANIC-CONTRACT SummaryStream::write answers Ok(input.len()) (C09's D1-CONSUMED, shared): write_all panics when write() reports more than it was given.")
NOT_DECIDED = [
    "panics inside dependencies for the arguments the crate passes (glob, indexmap, serde, tar, RustCrypto assumed total except the listed std APIs)",
    "stack exhaustion and running time as quantities: only their structural cause is reported",
    "allocation failure; Display impls that return Err",
    "sizes of in-memory buffers are at most isize::MAX (used by the length-arithmetic rule)",
]
CONFIG_SENSITIVE = True
DESUGAR = True
INLINE_HELPERS = True  # terms (and therefore operand fingerprints) are those of the inlined helper; the inventory itself is per body and static, so a helper's sites are listed once, in the helper

HERE = os.path.dirname(os.path.abspath(__file__))
def window_end(hi, coll):
    """hi = p + k where p is a position found among coll.windows(w) with k <= w: a window starts at p, so p + w <= coll.len()"""
    hi = strip_refs(hi)
    if not (isinstance(hi, tuple) and hi and hi[0] == "binop" and hi[1] == "Add" and const_int(hi[3]) is not None and const_int(hi[3]) >= 0):
        return False
    pos = strip_refs(hi[2])
    if not (isinstance(pos, tuple) and pos[0] == "field" and isinstance(pos[1], tuple) and pos[1][0] == "downcast" and is_call(strip_refs(pos[1][1]), "::rposition", "::position")):
        return False
    # the searched iterator is the windows themselves (possibly reversed, shortened or skipped into: the found index still counts windows)
    it = strip_refs(call_args(strip_refs(pos[1][1]))[0])
    for _ in range(6):
        if isinstance(it, tuple) and it and it[0] == "loc" and len(it) > 2:
            it = strip_refs(it[2])
        elif is_call(it, "Iterator::rev", "Iterator::skip", "Iterator::take", "Iterator::by_ref", "IntoIterator>::into_iter") and call_args(it):
            it = strip_refs(call_args(it)[0])
        else:
            break
    w = [it] if is_call(it, "[T]>::windows") else []
    return bool(w) and const_int(call_args(w[0])[1]) is not None and const_int(hi[3]) <= const_int(call_args(w[0])[1]) and \
        mentions(call_args(w[0])[0], lambda u: u == coll or (u[0] == "field" and coll[0] == "field" and u[3] == coll[3]))


PANICKING_LAST = {"unwrap", "expect", "unwrap_err", "expect_err", "index", "index_mut", "split_at", "split_at_mut", "split_off", "remove", "swap_remove", "drain",
                  "truncate", "windows", "chunks", "chunks_exact", "copy_from_slice", "step_by", "borrow", "borrow_mut", "abs", "pow", "from_digit", "swap", "rotate_left", "rotate_right",
                  "unwrap_unchecked", "get_unchecked", "from_utf8_unchecked", "insert_str", "replace_range", "repeat",
                  "insert", "to_digit", "rchunks", "rchunks_exact", "chunks_mut", "chunks_exact_mut", "rchunks_mut", "array_windows", "copy_within", "clone_from_slice", "swap_with_slice",
                  "select_nth_unstable", "select_nth_unstable_by", "select_nth_unstable_by_key", "div_euclid", "rem_euclid", "ilog", "ilog2", "ilog10", "next_power_of_two", "extend_from_within",
                  "splice", "strict_add", "strict_sub", "strict_mul", "get_unchecked_mut", "unchecked_add", "unchecked_sub", "unchecked_mul",
                  "with_capacity", "reserve", "reserve_exact", "resize", "set_len", "from_raw_parts", "assume_init", "transmute", "unreachable_unchecked", "exit", "abort"}
MAP_OK = ("HashMap", "IndexMap", "BTreeMap", "HashSet", "BTreeSet", "hash_map", "btree_map", "indexmap", "VacantEntry", "OccupiedEntry")
FINITE_ITERS = ("std::slice::Iter", "std::slice::IterMut", "std::str::Chars", "std::str::CharIndices", "std::str::Bytes", "std::str::Split", "std::str::RSplit", "std::str::SplitN", "std::str::RSplitN",
                "std::str::SplitTerminator", "std::str::Lines", "std::str::MatchIndices", "std::str::SplitWhitespace", "std::ops::Range<usize>", "std::iter::Rev<", "std::iter::Enumerate<",
                "std::vec::IntoIter", "indexmap::map::Values", "indexmap::map::Iter", "std::collections::btree_map::", "std::collections::hash_map::Iter", "std::collections::hash_map::Keys",
                "std::collections::hash_map::Values", "std::io::Lines", "std::io::Split", "std::fs::ReadDir", "std::path::Iter", "std::path::Components", "std::slice::Split", "std::slice::Windows",
                "std::iter::Filter<", "std::iter::Map<", "std::iter::TakeWhile<", "std::iter::Take<", "std::iter::Zip<", "std::iter::Skip<", "std::iter::FilterMap<", "std::iter::Peekable<",
                "std::option::IntoIter", "std::option::Iter", "std::array::IntoIter")
INFINITE_SOURCES = ("std::iter::Repeat", "std::iter::Cycle", "std::ops::RangeFrom", "std::iter::FromFn", "std::iter::Successors", "std::iter::RepeatWith")


def named(body, t):
    """term string with block sites removed and locals shown by type (stable under renaming and unrelated edits)"""
    s = term_str(t)
    s = re.sub(r"@bb\d+", "", s)

    def nm(m):
        # locals are shown by TYPE (stable under renaming and under unrelated edits that renumber locals)
        i = int(m.group(1))
        return "_<" + (body.f["locals"][i]["ty"] if i < len(body.f["locals"]) else "?") + ">"
    s = re.sub(r"_(\d+)", nm, s)
    s = re.sub(r"\{closure@[^}]*\}", "{closure}", s)   # closure types carry file:line:col
    s = re.sub(r"'loc' \d+", "'loc'", s)
    return s


def hand_written(fx, key, f):
    imp = f.get("impl")
    if imp and imp.get("auto_derived"):
        return False
    if "_serde" in key and "scanindex" not in key:
        return False  # serde-derive output for PkgName / PkgPath
    return True


def sites_of(body):
    out = []
    for bb in sorted(body.reach):
        t = body.blocks[bb]["term"]
        if t["k"] == "assert":
            if t["msg"] in ("MisalignedPointerDereference", "NullPointerDereference"):
                continue
            out.append((bb, "assert:" + t["msg"]))
        elif t["k"] == "call":
            nm = mir.norm_path(t["func"]["path"])
            last = nm.split("::")[-1]
            if t["target"] is None:
                out.append((bb, "diverge:" + last))
            elif last in PANICKING_LAST and not t["func"]["local"]:
                if any(m in nm for m in MAP_OK):
                    continue
                if last == "insert" and not any(m in nm for m in ("Vec", "String", "VecDeque")):
                    continue        # Option::insert, set/map insert: no panic; Vec / String / VecDeque::insert(index, ..) panics beyond the end
                out.append((bb, "call:" + nm))
    return out


# ------------------------------------------------------------ guard rules

def conds_before(p, upto):
    """conditions established on path p before the site: `upto` is the site's block, or the site's event itself (an event
    spliced in from an inlined helper shares its block with the helper's other events, so the cut is by position)"""
    out = []
    for e in p.events:
        if e is upto or (not isinstance(upto, mir.Event) and e.bb == upto and e.kind == "cond"):
            break
        if e.kind == "cond":
            out.append(e)
    return out


def len_facts(p, upto_bb, coll):
    """(kind, n) facts about len(coll) established by conditions on the path before block upto_bb"""
    out = []
    coll = strip_refs(coll)
    for c in conds_before(p, upto_bb):
        t = c.term
        if is_call(t, "::len") and strip_refs(call_args(t)[0]) == coll:
            out.append(c.fact)
        if isinstance(t, tuple) and t[0] == "binop" and t[1] in ("Eq", "Ne") and is_call(t[2], "::len") and strip_refs(call_args(t[2])[0]) == coll and const_int(t[3]) is not None:
            eq = (c.fact == ("eq", True)) == (t[1] == "Eq")
            out.append(("eq", const_int(t[3])) if eq else ("ne", (const_int(t[3]),)))
        if is_call(t, "::is_empty") and strip_refs(call_args(t)[0]) == coll:
            out.append(("ne", (0,)) if c.fact == ("eq", False) else ("eq", 0))
    return out


_CTX = None


def _truth_atoms(t, val, bb=0):
    """conditions that hold when the boolean term t has the value val (through `!`)"""
    for _ in range(4):
        if isinstance(t, tuple) and t and t[0] == "unop" and t[1] == "Not":
            t, val = t[2], not val
        else:
            break
    if not isinstance(t, tuple) or not t or t[0] == "const":
        return []
    return [PathWith._C(t, ("eq", val), bb)]


def filtered_element_conds(c0):
    """c0 is the element a `for` loop (or next()) takes from an iterator built with .filter(pred): every element that gets through satisfies
    pred.  Returns one list of conditions (on c0) per way pred can return true, or None when c0 is no such element."""
    # the second half of an enumerate() item is the element of the enumerated iterator
    item = c0
    via_enum = False
    if isinstance(c0, tuple) and len(c0) > 2 and c0[0] == "field" and c0[2] == 1 and isinstance(c0[1], tuple) and len(c0[1]) > 2 and c0[1][0] == "field" and c0[1][2] == 0 \
            and isinstance(c0[1][1], tuple) and c0[1][1][0] == "downcast" and is_call(strip_refs(c0[1][1][1]), "Enumerate<I> as std::iter::Iterator>::next"):
        item = c0[1]
        via_enum = True
    if _CTX is None or not (isinstance(item, tuple) and len(item) > 2 and item[0] == "field" and item[2] == 0 and isinstance(item[1], tuple) and item[1][0] == "downcast" and item[1][2] == "Some"
                            and is_call(strip_refs(item[1][1]), "Iterator>::next") and call_args(strip_refs(item[1][1]))):
        return None
    it = call_args(strip_refs(item[1][1]))[0]
    alts = None
    for _ in range(10):
        while isinstance(it, tuple) and it and it[0] in ("ref", "refmut"):
            it = it[1]
        if isinstance(it, tuple) and it and it[0] == "loc" and len(it) > 2:
            it = it[2]
        elif isinstance(it, tuple) and it and it[0] == "havoc" and len(it) > 3:
            it = it[3]          # a loop-carried iterator: what it was built from (consuming elements does not change what later ones satisfy)
        elif is_call(it, "IntoIterator>::into_iter", "Iterator::by_ref", "Iterator::rev", "Iterator::skip", "Iterator::take", "Iterator::peekable", "Iterator::fuse") and call_args(it):
            it = call_args(it)[0]
        elif via_enum and is_call(it, "Iterator::enumerate") and call_args(it):
            it = call_args(it)[0]
        elif is_call(it, "Iterator::filter") and len(call_args(it)) == 2:
            clo = strip_refs(call_args(it)[1])
            if not (isinstance(clo, tuple) and clo[:2] == ("agg", "closure")):
                return None
            cps = _CTX.paths(clo[2]) or []
            mine = []
            for q in cps:
                if q.end[0] != "return":
                    if q.end[0] == "diverge":
                        continue
                    return None
                v = q.end[1]
                if isinstance(v, tuple) and v and v[0] == "const" and v[2] is False:
                    continue
                cs = [PathWith._C(c.term, c.fact, 0) for c in q.conds()] + _truth_atoms(v, True)
                # the closure sees its element as `&Item` in parameter 2
                sub = lambda x: c0 if x == ("param", 2) else None
                mine.append([PathWith._C(_rewrite(c.term, sub), c.fact, 0) for c in cs])
            if not mine:
                return None
            alts = mine if alts is None else [a + b for a in alts for b in mine]
            it = call_args(it)[0]
        else:
            break
    return alts


def len_gt(p, bb, coll, k):
    """len(coll) > k follows from the conditions before the site: every n in 0..=k is excluded by some length condition on coll
    (len() switch, len() compared with a constant either way round, is_empty(), slice-pattern length tests); an element drawn from
    `.filter(pred)` also satisfies pred"""
    c0 = _lib.coll(coll)
    # a tail / a prefix of a collection whose length is known: x[a..] has len(x) - a elements, x[a..b] has b - a (the slicing itself has
    # already succeeded when the element is read)
    s0 = strip_refs(coll)
    if is_index_call(s0) and len(call_args(s0)) == 2:
        cr = _lib.canon_range(call_args(s0)[0], call_args(s0)[1])
        if cr is not None and const_int(cr[0]) is not None and const_int(cr[0]) >= 0:
            if cr[1] == LEN:
                if len_gt(p, bb, call_args(s0)[0], k + const_int(cr[0])):
                    return True
            elif const_int(cr[1]) is not None and const_int(cr[1]) - const_int(cr[0]) > k:
                return True

    def facts_of(conds):
        out = []
        for c in conds:
            lf = length_fact(c)
            if lf is not None and lf[0] == c0:
                out.append(lf[1])
            t = c.term
            if is_call(t, "::is_empty") and _lib.coll(call_args(t)[0]) == c0 and c.fact[0] == "eq" and isinstance(c.fact[1], bool):
                out.append((lambda n: n == 0) if c.fact[1] else (lambda n: n != 0))
        return out
    allowed = facts_of(conds_before(p, bb))
    alts = filtered_element_conds(c0) or [[]]
    for alt in alts:
        al = allowed + facts_of(alt)
        if not (bool(al) and all(any(not f(n) for f in al) for n in range(0, k + 1))):
            return False
    return True


def ends_differ(p, bb, c0):
    """the path has seen c0[0] == A and c0[len - 1] == B for different constants A, B: one element cannot be both, so len(c0) >= 2"""
    first, last = set(), set()
    for c in conds_before(p, bb):
        q = inequality_fact(c)
        for a, b in (((q[0], q[1]), (q[1], q[0])) if q is not None and not q[2] else ()):
            if isinstance(a, tuple) and a and a[0] == "index" and _lib.coll(a[1]) == c0 and const_of(b) is not None:
                ix = strip_refs(a[2])
                if const_int(ix) == 0:
                    first.add(const_of(b))
                elif isinstance(ix, tuple) and ix[0] == "binop" and ix[1] == "Sub" and const_int(ix[3]) == 1 and length_of(ix[2]) is not None and length_of(ix[2]) == c0:
                    last.add(const_of(b))
        # the same two facts spelled c0.starts_with(b"A") / c0.ends_with(b"B") with one-byte literals
        t = c.term
        if is_call(t, "[T]>::starts_with", "[T]>::ends_with") and len(call_args(t)) == 2 and c.fact == ("eq", True) and _lib.coll(call_args(t)[0]) == c0:
            lit = const_bytes(call_args(t)[1])
            if lit is not None and len(lit) == 1:
                (first if is_call(t, "[T]>::starts_with") else last).add(ord(lit))
    return bool(first) and bool(last) and not (first & last)


def const_lower_bound(p, bb, a0):
    """the largest constant k with a0 >= k established by a comparison of a0 with a constant on the path before the site (0 if none)"""
    best = 0
    for c in conds_before(p, bb):
        t = c.term
        if not (isinstance(t, tuple) and t and t[0] == "binop" and c.fact[0] == "eq" and isinstance(c.fact[1], bool)):
            continue
        op, l, r = t[1], strip_refs(t[2]), strip_refs(t[3])
        if l != a0 and r == a0 and op in ("Lt", "Le", "Gt", "Ge"):
            l, r, op = r, l, {"Lt": "Gt", "Le": "Ge", "Gt": "Lt", "Ge": "Le"}[op]
        kk = const_int(r)
        if l != a0 or kk is None:
            continue
        if not c.fact[1]:
            op = {"Lt": "Ge", "Le": "Gt", "Gt": "Le", "Ge": "Lt", "Eq": "Ne", "Ne": "Eq"}.get(op)
        if op == "Ge":
            best = max(best, kk)
        elif op == "Gt":
            best = max(best, kk + 1)
        elif op == "Ne" and kk == 0:
            best = max(best, 1)
    return best


def cursor_descending_from_len(ctx, body, t, coll):
    """t is a loop-carried cursor that starts at len(coll) and is only ever decreased (or left alone) on the way round its loop: t <= len(coll)"""
    t0 = strip_refs(t)
    if not (isinstance(t0, tuple) and t0 and t0[0] == "havoc" and len(t0) > 3):
        return False
    l, h, init = t0[1], t0[2], t0[3]
    c0 = _lib.coll(coll)
    if not (length_of(init) is not None and length_of(init) == c0):
        return False
    backs = [q for q in (ctx.paths(body.key) or []) if q.end[0] == "back" and q.end[1] == h]
    if not backs:
        return False
    for q in backs:
        v = q.env.get(l)
        if isinstance(v, tuple) and v[0] == "havoc" and v[1] == l:
            continue
        if not (isinstance(v, tuple) and v[0] == "binop" and v[1] == "Sub" and isinstance(v[2], tuple) and v[2][0] == "havoc" and v[2][1] == l and (const_int(v[3]) or -1) >= 0):
            return False
    return True


def cursor_counts_elements(ctx, body, t):
    """t is a loop-carried cursor that starts at the lower end of the slice its loop iterates over and goes up by one at most once per element
    taken: (collection, upper) with t <= upper, where upper is LEN (the collection's length) or the slice's upper bound; else None"""
    t0 = strip_refs(t)
    if not (isinstance(t0, tuple) and t0 and t0[0] == "havoc" and len(t0) > 3):
        return None
    l, h, init = t0[1], t0[2], t0[3]
    try:
        blk = body.blocks[h]["term"]
    except (KeyError, IndexError, TypeError):
        blk = None
    if not (blk and blk["k"] == "call" and blk["func"]["path"].endswith("::next") and "slice::Iter" in (blk["func"].get("full") or "")):
        return None
    paths = ctx.paths(body.key) or []
    backs = [q for q in paths if q.end[0] == "back" and q.end[1] == h]
    if not backs:
        return None
    src = None
    for q in backs:
        v = q.env.get(l)
        if not ((isinstance(v, tuple) and v[0] == "havoc" and v[1] == l) or
                (isinstance(v, tuple) and v[0] == "binop" and v[1] == "Add" and isinstance(v[2], tuple) and v[2][0] == "havoc" and v[2][1] == l and const_int(v[3]) == 1)):
            return None
        nx = [e for e in q.events if e.kind == "call" and e.bb == h]
        if len(nx) != 1:
            return None
        it = nx[0].args[0]
        while isinstance(it, tuple) and it and it[0] in ("ref", "refmut"):
            it = it[1]
        if not (isinstance(it, tuple) and it[0] == "loc" and len(it) > 2 and isinstance(it[2], tuple) and it[2][0] == "havoc" and it[2][2] == h and len(it[2]) > 3):
            return None
        s0 = strip_refs(it[2][3])
        for _ in range(3):
            if is_call(s0, "::into_iter", "[T]>::iter") and call_args(s0) and ("[T]" in s0[1] or "IntoIterator" in s0[1]):
                s0 = strip_refs(call_args(s0)[0])
        if src is not None and src != s0:
            return None
        src = s0
    if src is None:
        return None
    if is_index_call(src):
        cr = _lib.canon_range(call_args(src)[0], call_args(src)[1])
        if cr is None:
            return None
        lo, hi = cr
        base = _lib.coll(call_args(src)[0])
    else:
        lo, hi, base = ("const", "usize", 0), LEN, _lib.coll(src)
    same_start = strip_refs(init) == strip_refs(lo) or (const_int(init) is not None and const_int(init) == const_int(lo))
    return (base, hi) if same_start else None


def index_below_len(p, bb, ix, coll, strict=True):
    """ix < len(coll) (strict) / ix <= len(coll) established by a comparison on the path before the site"""
    i0 = strip_refs(ix)
    c0 = _lib.coll(coll)
    for c in conds_before(p, bb):
        t = c.term
        if not (isinstance(t, tuple) and t and t[0] == "binop" and t[1] in ("Lt", "Le", "Gt", "Ge") and c.fact[0] == "eq" and isinstance(c.fact[1], bool)):
            continue
        op, l, r = t[1], strip_refs(t[2]), strip_refs(t[3])
        if not c.fact[1]:
            op = {"Lt": "Ge", "Le": "Gt", "Gt": "Le", "Ge": "Lt"}[op]
        if op in ("Gt", "Ge"):
            l, r = r, l
            op = {"Gt": "Lt", "Ge": "Le"}[op]
        if l == i0 and length_of(r) is not None and length_of(r) == c0 and (op == "Lt" or not strict):
            return True
    return False


def never_ahead(ctx, body, a, x):
    """loop invariant a <= x for two variables carried by the same loop: they start equal (or a's constant start is not above x's), and every way
    round the loop either leaves both alone, or sets both to the same value, or leaves `a` alone and moves only `x` forward (x += k, k >= 0).
    (An overflow of x += k is its own panic site.)"""
    a, x = strip_refs(a), strip_refs(x)
    if not (isinstance(a, tuple) and isinstance(x, tuple) and a and x and a[0] == "havoc" and x[0] == "havoc" and len(a) > 3 and len(x) > 3 and a[2] == x[2]):
        return False
    la, lx, h = a[1], x[1], a[2]
    if la == lx:
        return True
    ia, ix = const_int(a[3]), const_int(x[3])
    if not ((ia is not None and ix is not None and 0 <= ia <= ix) or (a[3] is not None and strip_refs(a[3]) == strip_refs(x[3]))):
        return False
    if body.f["locals"][la]["ty"] != "usize" or body.f["locals"][lx]["ty"] != "usize":
        return False
    backs = [q for q in (ctx.paths(body.key) or []) if q.end[0] == "back" and q.end[1] == h]
    if not backs:
        return False

    def same(v, l):
        return v is None or (isinstance(v, tuple) and v[0] == "havoc" and v[1] == l and v[2] == h)
    for q in backs:
        va, vx = q.env.get(la), q.env.get(lx)
        if same(va, la):
            fwd = isinstance(vx, tuple) and vx[0] == "binop" and vx[1] == "Add" and same(vx[2], lx) and vx[2] is not None and (const_int(vx[3]) or -1) >= 0
            if same(vx, lx) or fwd:
                continue
            return False
        if va is not None and vx is not None and strip_refs(va) == strip_refs(vx):
            continue
        if vx is not None and isinstance(vx, tuple) and vx[0] == "havoc" and vx[1] == la and vx[2] == h and same(va, la):
            continue
        return False
    return True


def cursor_bounded(ctx, body, p, t, coll):
    """t is a loop-carried cursor that can never exceed len(coll) at its loop header: it starts at most there (established before the loop), and it
    is only ever incremented by one on iterations that first checked cursor < len(coll)"""
    t0 = strip_refs(t)
    if not (isinstance(t0, tuple) and t0 and t0[0] == "havoc" and len(t0) > 3):
        return False
    l, h, init = t0[1], t0[2], t0[3]
    c0 = _lib.coll(coll)
    paths = ctx.paths(body.key) or []
    backs = [q for q in paths if q.end[0] == "back" and q.end[1] == h]
    if not backs:
        return False
    for q in backs:
        v = q.env.get(l)
        if isinstance(v, tuple) and v[0] == "havoc" and v[1] == l:
            continue            # unchanged on this way round
        step = isinstance(v, tuple) and v[0] == "binop" and v[1] == "Add" and isinstance(v[2], tuple) and v[2][0] == "havoc" and v[2][1] == l and const_int(v[3]) == 1
        guard = any(isinstance(c.term, tuple) and c.term[0] == "binop" and c.term[1] in ("Lt", "Ne") and isinstance(c.term[2], tuple) and c.term[2][0] == "havoc" and c.term[2][1] == l
                    and length_of(c.term[3]) is not None and length_of(c.term[3]) == c0 and c.fact == ("eq", True) for c in q.conds())
        # Ne alone is a bound only together with the invariant itself; Lt is
        guard_lt = any(isinstance(c.term, tuple) and c.term[0] == "binop" and c.term[1] == "Lt" and isinstance(c.term[2], tuple) and c.term[2][0] == "havoc" and c.term[2][1] == l
                       and length_of(c.term[3]) is not None and length_of(c.term[3]) == c0 and c.fact == ("eq", True) for c in q.conds())
        if not (step and guard and guard_lt):
            return False
    # the initial value: below the length by a comparison made before the loop (i0 < len, i0 + k < len, i0 + 1 >= len not taken ..), or 0
    if const_int(init) == 0:
        return True
    for c in p.conds():
        t_ = c.term
        if isinstance(t_, tuple) and t_ and t_[0] == "binop" and t_[1] in ("Lt", "Le", "Ge", "Gt") and c.fact[0] == "eq" and isinstance(c.fact[1], bool):
            op, a, b = t_[1], strip_refs(t_[2]), strip_refs(t_[3])
            if not c.fact[1]:
                op = {"Lt": "Ge", "Le": "Gt", "Gt": "Le", "Ge": "Lt"}[op]
            if op in ("Gt", "Ge"):
                a, b = b, a
                op = {"Gt": "Lt", "Ge": "Le"}[op]
            base = a[2] if isinstance(a, tuple) and a[0] == "binop" and a[1] == "Add" and (const_int(a[3]) or 0) >= 0 else a
            if strip_refs(base) == strip_refs(init) and length_of(b) is not None and length_of(b) == c0:
                return True
    return False


def range_item(t):
    """(lo, hi) if t is the item yielded by iterating a Range{lo,hi}"""
    t = strip_refs(t)
    if isinstance(t, tuple) and t[0] == "field" and isinstance(t[1], tuple) and t[1][0] == "downcast" and t[1][2] == "Some" and is_call(t[1][1], "::next"):
        rg = [s for s in subterms(call_args(t[1][1])[0]) if s[0] == "agg" and s[1] == "adt" and s[3] == "Range"]
        if rg:
            return rg[0][4]
    return None


def bounded_size(t, depth=0):
    """is t a value bounded by the size of an in-memory buffer (length, position, small constant, cursor)?"""
    t = strip_refs(t)
    if depth > 6 or not isinstance(t, tuple):
        return False
    if is_const(t):
        v = const_int(t)
        return v is not None and 0 <= v <= 1 << 20
    if is_call(t, "::len", "::len_utf8", "::count", "::capacity"):
        return True
    if is_call(t, "::from", "::into") and "From<bool>" in t[1]:
        return True          # a bool as 0 / 1
    if t[0] in ("havoc", "param"):
        return True   # usize cursors / lengths carried around loops; parameters of usize type are lengths here
    if t[0] == "field" and isinstance(t[1], tuple):
        if t[1][0] == "downcast" and t[1][2] in ("Some", "Continue"):
            src = strip_refs(t[1][1])
            if t[1][2] == "Continue" and is_call(src, "Try>::branch"):
                src = strip_refs(call_args(src)[0])     # `x?`
            return is_call(src, "::find", "::rfind", "::position", "::rposition", "::next") or bounded_size(src, depth + 1)
        return bounded_size(t[1], depth + 1)
    if t[0] == "binop" and t[1] in ("Add", "Sub"):
        return bounded_size(t[2], depth + 1) and bounded_size(t[3], depth + 1)
    if t[0] == "unop" and t[1] == "PtrMetadata":
        return True
    if is_call(t, "::next") or is_index_call(t):
        return True
    return False


def search_pos(t):
    """(searched string, separator, added offset) if t is (find/rfind(s, sep) as Some).0 [+ k]"""
    t = strip_refs(t)
    off = 0
    if isinstance(t, tuple) and t[0] == "binop" and t[1] == "Add" and const_int(t[3]) is not None:
        off = const_int(t[3])
        t = strip_refs(t[2])
    if isinstance(t, tuple) and t[0] == "field" and isinstance(t[1], tuple) and t[1][0] == "downcast" and t[1][2] == "Some":
        src = strip_refs(t[1][1])
        if is_call(src, "str>::find", "str>::rfind"):
            sep = const_char(call_args(src)[1]) or const_str(call_args(src)[1])
            return strip_refs(call_args(src)[0]), sep, off
    return None


_TAGGED = {}


def tagged_option_field(ctx, body, p, bb, x):
    """x is (a borrow of) an Option field F of the struct behind `self`, the path has tested self.TAG == V before the site, and the struct
    invariant `TAG == V  =>  F is Some` holds: every value of the struct that a function of its module returns or hands on satisfies it, and no
    function that receives the struct through a parameter writes F or TAG (or borrows F mutably for anything but a look inside)."""
    for _ in range(3):
        if is_call(x, "Option::as_mut", "Option::as_ref", "Option::as_deref", "Option::as_deref_mut") and call_args(x):
            x = strip_refs(call_args(x)[0])
    if not (isinstance(x, tuple) and len(x) > 3 and x[0] == "field" and deval(x[1]) == ("param", 1) and len(body.f["locals"]) > 1):
        return False
    adt = body.f["locals"][1]["ty"].replace("&mut ", "").replace("&", "").strip()
    adt = re.sub(r"^'\w+ ", "", adt)
    if adt not in ctx.fx.adts:
        return False
    F = x[3]
    tags = []
    for c in conds_before(p, bb):
        t = c.term
        if isinstance(t, tuple) and t[0] == "discr" and isinstance(deval(t[1]), tuple) and deval(t[1])[0] == "field" and deval(deval(t[1])[1]) == ("param", 1):
            if c.fact[0] == "eq":
                tags.append((deval(t[1])[3], c.fact[1]))
            elif c.fact[0] == "ne":
                # every other variant excluded: the one that is left
                sf = [fl for v_ in ctx.fx.adts[adt]["variants"] for fl in v_["fields"] if fl.get("name") == deval(t[1])[3]]
                ta = ctx.fx.adts.get((sf[0]["ty"] if sf else "").strip()) if sf else None
                if ta:
                    left = [v_.get("discr", i_) for i_, v_ in enumerate(ta["variants"]) if v_.get("discr", i_) not in c.fact[1]]
                    if len(left) == 1:
                        tags.append((deval(t[1])[3], left[0]))
    for (TAG, d) in tags:
        ck = (id(ctx.fx), adt, F, TAG, d)
        if ck not in _TAGGED:
            _TAGGED[ck] = _struct_invariant(ctx, adt, F, TAG, d)
        if _TAGGED[ck]:
            return True
    return False


def _struct_invariant(ctx, adt, F, TAG, d):
    mod = adt.rsplit("::", 1)[0]
    built = 0
    # the fields must not be writable from outside the module
    if any(fl.get("pub") for v_ in ctx.fx.adts[adt]["variants"] for fl in v_["fields"] if fl.get("name") in (F, TAG)):
        return False
    for k, f in ctx.fx.fns.items():
        if f["kind"] not in ("Fn", "AssocFn", "Closure") or not (k.startswith(mod + "::") or k.startswith("<" + mod + "::")):
            continue
        ps = ctx.paths(k) or []
        takes = any(adt in (l.get("ty") or "") for l in f["locals"][1:1 + int(f.get("arg_count", 0) or 0)])
        reach = bool(f.get("reachable"))
        for q in ps:
            # values of the struct that leave the module: returned by a function callers outside can reach (a private constructor's result is
            # judged where it is used: inlined into its callers, or seen as an opaque call there, which fails below), or passed to a call
            outs = [q.end[1]] if (q.end[0] == "return" and reach) else []
            if outs and adt in (f.get("ret_ty") or ""):
                v0 = q.end[1]
                for _ in range(3):
                    v0 = unwrap_ok(v0) if unwrap_ok(v0) is not None else (unwrap_some(v0) if unwrap_some(v0) is not None else v0)
                plain = isinstance(v0, tuple) and v0[:3] == ("agg", "adt", adt)
                other = unwrap_err(q.end[1]) is not None or is_none(q.end[1]) or is_call(q.end[1], "from_residual")
                if not plain and not other:
                    return False                         # a struct value of unknown make-up is handed out
            outs += [a for e in q.events if e.kind == "call" for a in e.args]
            for o in outs:
                for s_ in subterms(o):
                    if s_[0] == "agg" and s_[1] == "adt" and s_[2] == adt and s_[5] and TAG in s_[5] and F in s_[5]:
                        vals = dict(zip(s_[5], s_[4]))
                        tv = agg_variant(vals[TAG])
                        if tv is None:
                            return False                     # the tag is not a literal here: cannot tell
                        dv = _variant_index(ctx.fx, tv[0], tv[1])
                        if dv is None:
                            return False
                        built += 1
                        if dv == d and not (agg_variant(vals[F]) and agg_variant(vals[F])[1] == "Some"):
                            return False
            if not takes:
                continue
            # a function that is handed the struct must not unset F or change the tag
            for e in q.events:
                if e.kind == "store" and isinstance(e.place, tuple) and mentions(e.place, lambda s_: s_[0] == "field" and s_[3] in (F, TAG) and mentions(s_[1], lambda u: u[0] == "param")):
                    return False
                if e.kind == "call" and e.args and isinstance(e.args[0], tuple) and e.args[0][0] == "refmut" and isinstance(e.args[0][1], tuple) and e.args[0][1][0] == "field" \
                        and e.args[0][1][3] in (F, TAG) and mentions(e.args[0][1][1], lambda u: u[0] == "param") \
                        and not ev_is(e, "Option::as_mut", "Option::as_deref_mut", "Option::iter_mut"):
                    return False
    return built > 0


def _variant_index(fx, adt, variant):
    a = fx.adts.get(adt)
    if not a:
        return None
    for i, v in enumerate(a["variants"]):
        if v["name"] == variant:
            return v.get("discr", i)
    return None


def assert_operand_type(ctx, body, ev):
    """the integer type of the operands of an overflow assert, read from the MIR (None when it cannot be found)"""
    b = body
    if "inlined_from" in ev.data and ctx is not None:
        b = ctx.body(ev.data["inlined_from"]) or body
    try:
        t = b.blocks[ev.bb if isinstance(ev.bb, int) and ev.bb >= 0 else ev.data.get("orig_bb", ev.bb)]["term"]
    except (KeyError, IndexError, TypeError):
        return None
    if t.get("k") != "assert":
        return None
    tys = set()
    for m_ in t.get("mops", ()):
        ty = (m_.get("place") or {}).get("ty") if m_.get("k") in ("move", "copy") else m_.get("ty")
        if ty:
            tys.add(ty)
    return next(iter(tys)) if len(tys) == 1 else None


def discharge(ctx, body, p, ev, kind):
    """name of the guard rule that makes this site safe on path p, or None"""
    bb = ev if "inlined_from" in ev.data else ev.bb
    if kind.startswith("assert:Overflow(Add)"):
        a, b = ev.mops
        # sizes of in-memory things are at most isize::MAX each, so the sum of two of them fits in usize; that argument is about usize only
        # (an i64 / u64 read from the input has no such bound)
        if assert_operand_type(ctx, body, ev) == "usize" and bounded_size(a) and bounded_size(b):
            return "G5-size-arithmetic"
        return None
    if kind.startswith("assert:Overflow(Sub)"):
        a, b = ev.mops
        k = const_int(b)
        if k == 1 and isinstance(strip_refs(a), tuple) and strip_refs(a)[0] == "havoc" and "inlined_from" not in ev.data and body.f["locals"][strip_refs(a)[1]]["ty"] in ("usize", "u64", "u32", "u16", "u8"):
            # n - 1 where the path has established n != 0 (n == 0 not taken, n != 0 / n > 0 / n >= 1 taken) for an unsigned n
            a0 = strip_refs(a)
            for c in conds_before(p, bb):
                t = c.term
                if isinstance(t, tuple) and t and t[0] == "binop" and strip_refs(t[2]) == a0 and isinstance(c.fact[1], bool) and c.fact[0] == "eq":
                    kk = const_int(t[3])
                    if (t[1] == "Eq" and kk == 0 and c.fact[1] is False) or (t[1] == "Ne" and kk == 0 and c.fact[1] is True) or \
                            (t[1] == "Gt" and kk == 0 and c.fact[1] is True) or (t[1] == "Ge" and kk == 1 and c.fact[1] is True) or (t[1] == "Lt" and kk == 1 and c.fact[1] is False):
                        return "G3-checked-nonzero"
        if k is not None and k >= 1 and isinstance(strip_refs(a), tuple) and strip_refs(a)[0] == "havoc" and "inlined_from" not in ev.data and body.f["locals"][strip_refs(a)[1]]["ty"] in ("usize", "u64", "u32", "u16", "u8") \
                and const_lower_bound(p, bb, strip_refs(a)) >= k:
            return "G3-checked-at-least-the-subtrahend"
        if k is not None and is_call(strip_refs(a), "::len"):
            coll = call_args(strip_refs(a))[0]
            if len_gt(p, bb, coll, k - 1):
                return "G3-nonempty"
            c = strip_refs(coll)
            if isinstance(c, tuple) and c[0] == "field" and c[2] == 0 and is_call(strip_refs(c[1]), "str>::split_at"):
                at = call_args(strip_refs(c[1]))[1]
                if isinstance(at, tuple) and at[0] == "binop" and at[1] == "Add" and (const_int(at[3]) or 0) >= k:
                    return "G3-prefix-of-length-n+k"
        return None
    if kind.startswith("assert:Overflow(Mul)"):
        a, b = ev.mops
        # the length of an in-memory buffer (at most isize::MAX) times 1 or 2 fits in usize
        for x, y in ((a, b), (b, a)):
            if length_of(x) is not None and const_int(y) is not None and 0 <= const_int(y) <= 2 and assert_operand_type(ctx, body, ev) in ("usize", None):
                return "G5-length-times-small-constant"
        return None
    if kind.startswith("assert:Overflow(Shr)") or kind.startswith("assert:Overflow(Shl)"):
        a, b = ev.mops
        if const_int(b) is not None and 0 <= const_int(b) <= 7:
            return "G5-shift-by-less-than-eight-bits"
        return None
    if kind in ("assert:DivisionByZero", "assert:RemainderByZero"):
        return None   # the divisor is the assert's operand; a constant non-zero divisor produces no assert at all
    if kind == "assert:BoundsCheck":
        ln, ix = ev.mops
        coll = ln[2] if isinstance(ln, tuple) and ln[0] == "unop" else ln
        k = const_int(ix)
        if k is not None and len_gt(p, bb, coll, k):
            return "G1-length-fixed"
        if index_below_len(p, bb, ix, coll):
            return "G1-index-checked-below-length"
        # a table of constant length L indexed by (x & m) with m < L, or by (b >> s) of a byte b with 256 >> s <= L
        L_ = const_int(ln)
        if L_ is not None:
            i0 = strip_refs(ix)
            byte_src = False
            for _ in range(3):
                if is_call(i0, "for usize>::from", "usize::from", "::from") and len(call_args(i0)) == 1:
                    byte_src = byte_src or "From<u8>" in i0[1] or "u8" in " ".join(str(g_) for g_ in i0[2])
                    i0 = strip_refs(call_args(i0)[0])
                elif isinstance(i0, tuple) and i0 and i0[0] == "cast":
                    byte_src = byte_src or (len(i0) > 2 and str(i0[2]) == "u8")
                    i0 = strip_refs(i0[-1])
            if isinstance(i0, tuple) and i0 and i0[0] == "binop":
                if i0[1] == "BitAnd" and ((const_int(i0[3]) is not None and 0 <= const_int(i0[3]) < L_) or (const_int(i0[2]) is not None and 0 <= const_int(i0[2]) < L_)):
                    return "G1-index-masked-below-table-length"
                if i0[1] == "Shr" and byte_src and const_int(i0[3]) is not None and 0 <= const_int(i0[3]) <= 7 and (256 >> const_int(i0[3])) <= L_:
                    return "G1-byte-shifted-below-table-length"
        ixs = strip_refs(ix)
        if isinstance(ixs, tuple) and ixs[0] == "binop" and ixs[1] == "Sub" and const_int(ixs[3]) == 1 and is_call(strip_refs(ixs[2]), "::len") \
                and strip_refs(call_args(strip_refs(ixs[2]))[0]) == strip_refs(coll) and len_gt(p, bb, coll, 0):
            return "G3-last-of-nonempty"
        # cursor - j (j >= 1, the subtraction is its own obligation) for a cursor that starts at the length and only ever goes down
        if ctx is not None and isinstance(ixs, tuple) and ixs[0] == "binop" and ixs[1] == "Sub" and (const_int(ixs[3]) or 0) >= 1 and cursor_descending_from_len(ctx, body, ixs[2], coll):
            return "G4-below-a-cursor-descending-from-the-length"
        return None
    if kind.startswith("call:"):
        nm = kind[5:]
        last = nm.split("::")[-1]
        if last in ("unwrap", "expect") and "Option" in nm:
            x = strip_refs(ev.args[0])
            if ctx is not None and tagged_option_field(ctx, body, p, bb, x):
                return "G2-option-field-set-whenever-the-tag-tested-here-is-set"
            for c in conds_before(p, bb):
                t = c.term
                if is_call(t, "Option::is_none") and strip_refs(call_args(t)[0]) == x and c.fact == ("eq", False):
                    return "G2-checked-some"
                if is_call(t, "Option::is_some") and strip_refs(call_args(t)[0]) == x and c.fact == ("eq", True):
                    return "G2-checked-some"
                if t == ("discr", x) and c.fact == ("eq", 1):
                    return "G2-checked-some"
            # first element of a collection shown non-empty on this path: v.first()/last()/iter().next()/chars().next()
            if is_call(x, "::first", "::last", "::next", "::next_back", "::pop"):
                src = strip_refs(call_args(x)[0])
                while is_call(src, "::iter", "::chars", "::bytes", "::as_bytes", "::as_str", "::deref") or (isinstance(src, tuple) and src[0] == "loc"):
                    src = strip_refs(call_args(src)[0]) if is_call(src) else strip_refs(src[2]) if len(src) > 2 else src
                    if not isinstance(src, tuple):
                        break
                if isinstance(src, tuple) and len_gt(p, bb, src, 0):
                    return "G3-element-of-nonempty"
            return None
        if (last == "index" and "Vec" in nm and not agg_variant(ev.args[1])) or (last == "index" and "[T]" in nm and const_int(ev.args[1]) is not None):
            coll, ix = ev.args[0], ev.args[1]
            k = const_int(ix)
            if k is not None:
                return "G1-length-fixed" if len_gt(p, bb, coll, k) else None
            ixs = strip_refs(ix)
            if isinstance(ixs, tuple) and ixs[0] == "binop" and ixs[1] == "Sub" and const_int(ixs[3]) == 1 and is_call(strip_refs(ixs[2]), "::len") \
                    and strip_refs(call_args(strip_refs(ixs[2]))[0]) == strip_refs(coll) and len_gt(p, bb, coll, 0):
                return "G3-last-of-nonempty"
            ri = range_item(ix)
            if ri is not None:
                lo, hi = ri
                hs = strip_refs(hi)
                c0 = strip_refs(coll)
                if is_call(hs, "::len") and strip_refs(call_args(hs)[0]) == c0:
                    return "G4-index-from-range-to-len"
                if is_call(hs, "cmp::min", "Ord::min") and any(is_call(strip_refs(a), "::len") and strip_refs(call_args(strip_refs(a))[0]) == c0 for a in call_args(hs)[:2]):
                    return "G4-index-from-range-to-min-len"
            return None
        if last in ("index", "drain") and ("[T]" in nm or "Vec" in nm) and agg_variant(ev.args[1]) and agg_variant(ev.args[1])[1] == "RangeTo":
            if window_end(agg_variant(ev.args[1])[2][0], strip_refs(ev.args[0])):
                return "G6-window-position-plus-window-size"
        if last in ("index", "index_mut") and ("[T]" in nm or "Vec" in nm) and agg_variant(ev.args[1]) and agg_variant(ev.args[1])[1] in ("RangeTo", "RangeFrom", "Range"):
            # byte/element slices cut at the collection's own length or at min(.., its length, ..): always in range
            c0 = _lib.coll(ev.args[0])
            a_ = agg_variant(ev.args[1])

            def within(t):
                t = strip_refs(t)
                if const_int(t) == 0:
                    return True
                if const_int(t) is not None and const_int(t) > 0 and len_gt(p, bb, ev.args[0], const_int(t) - 1):
                    return True          # a constant cut k with len >= k established on the path
                if length_of(t) is not None and length_of(t) == c0:
                    return True
                if is_call(t, "cmp::min", "Ord::min") and any(length_of(x) is not None and length_of(x) == c0 for x in call_args(t)[:2]):
                    return True
                # the Some(..) of a crate helper given this very collection, when every Some it returns carries a cursor that started at the
                # length of its argument and only went down
                if isinstance(t, tuple) and len(t) > 2 and t[0] == "field" and t[2] == 0 and isinstance(t[1], tuple) and t[1][0] == "downcast" and t[1][2] == "Some":
                    hc = strip_refs(t[1][1])
                    if is_call(hc) and ctx.fx.fn(hc[1]) is not None and len(call_args(hc)) == 1 and _lib.coll(call_args(hc)[0]) == c0:
                        hb, hp = ctx.body(hc[1]), ctx.paths(hc[1]) or []
                        somes = [unwrap_some(q.end[1]) for q in ret_paths(hp) if unwrap_some(q.end[1]) is not None]
                        if hb is not None and somes and all(cursor_descending_from_len(ctx, hb, v_, ("param", 1)) for v_ in somes) \
                                and all(unwrap_some(q.end[1]) is not None or is_none(q.end[1]) for q in ret_paths(hp)):
                            return True
                return False
            ends = list(a_[2])
            if all(within(x) for x in ends) and (a_[1] != "Range" or const_int(strip_refs(ends[0])) == 0 or strip_refs(ends[0]) == strip_refs(ends[1])
                                                 or (const_int(strip_refs(ends[0])) is not None and const_int(strip_refs(ends[1])) is not None and const_int(strip_refs(ends[0])) <= const_int(strip_refs(ends[1])))
                                                 or (const_int(strip_refs(ends[0])) is not None and length_of(ends[1]) is not None and length_of(ends[1]) == c0)):
                return "G6-slice-at-own-length"

            # &c[k..c.len() - j]: in range when len >= k + j; two different bytes seen at c[0] and c[len - 1] need two positions
            if a_[1] == "Range" and const_int(strip_refs(ends[0])) is not None:
                h_ = strip_refs(ends[1])
                if isinstance(h_, tuple) and h_ and h_[0] == "binop" and h_[1] == "Sub" and const_int(h_[3]) is not None and length_of(h_[2]) is not None and length_of(h_[2]) == c0:
                    need = const_int(strip_refs(ends[0])) + const_int(h_[3])
                    if need >= 1 and len_gt(p, bb, ev.args[0], need - 1):
                        return "G6-trimmed-by-constants-within-length"
                    if need <= 2 and const_int(h_[3]) <= 1 and ends_differ(p, bb, c0):
                        return "G6-between-two-distinct-end-elements"

            def counted(t):
                """a number of elements of the same collection: iter().position(..) found, iter().take_while(..).count(), iter().filter(..).count()"""
                t = strip_refs(t)
                base_lo = None
                if isinstance(t, tuple) and t and t[0] == "binop" and t[1] == "Add":
                    # a + k with k counted in coll[a..]: an absolute position computed by hand
                    for a_, b_ in ((t[2], t[3]), (t[3], t[2])):
                        b0_ = strip_refs(b_)
                        if isinstance(b0_, tuple) and b0_ and b0_[0] == "field" and isinstance(b0_[1], tuple) and b0_[1][0] == "downcast" and is_call(strip_refs(b0_[1][1]), "Iterator>::position", "::position"):
                            t, base_lo = b0_, strip_refs(a_)
                            break
                if isinstance(t, tuple) and t and t[0] == "field" and t[2] == 0 and isinstance(t[1], tuple) and t[1][0] == "downcast" and t[1][2] == "Some" \
                        and is_call(strip_refs(t[1][1]), "Iterator>::position", "::position", "::rposition"):
                    src = strip_refs(call_args(strip_refs(t[1][1]))[0])
                elif is_call(t, "Iterator::count", "::count") and is_call(strip_refs(call_args(t)[0]), "Iterator::take_while", "Iterator::filter", "Iterator::skip_while"):
                    src = strip_refs(call_args(strip_refs(call_args(t)[0]))[0])
                else:
                    return False
                while isinstance(src, tuple) and src and src[0] in ("loc", "refmut", "ref"):
                    src = strip_refs(src[2] if src[0] == "loc" and len(src) > 2 else src[1])
                if base_lo is not None:
                    tl = strip_refs(call_args(src)[0]) if is_call(src, "[T]>::iter", "IntoIterator>::into_iter") and call_args(src) else None
                    crt = _lib.canon_range(call_args(tl)[0], call_args(tl)[1]) if tl is not None and is_index_call(tl) else None
                    return crt is not None and crt[1] == LEN and strip_refs(crt[0]) == base_lo and _lib.coll(call_args(tl)[0]) == c0
                return is_call(src, "[T]>::iter", "IntoIterator>::into_iter") and _lib.coll(call_args(src)[0]) == c0
            cr = _lib.canon_range(ev.args[0], ev.args[1])
            if cr is not None and ctx is not None:
                cc = cursor_counts_elements(ctx, body, cr[0])
                if cc is not None and cc[0] == c0:
                    up = cc[1]
                    if (cr[1] == LEN and up == LEN) or (cr[1] != LEN and up != LEN and strip_refs(cr[1]) == strip_refs(up) and within(cr[1])) or \
                            (cr[1] != LEN and up == LEN and length_of(cr[1]) is not None and length_of(cr[1]) == c0):
                        return "G4-cursor-counting-the-elements-taken-from-the-slice-it-cuts"
            if cr is not None:
                lo_, hi_ = cr
                lo_ok = const_int(strip_refs(lo_)) == 0 or within(lo_) or counted(lo_)
                hi_ok = hi_ == LEN or within(hi_) or counted(hi_)
                if lo_ok and hi_ok and (const_int(strip_refs(lo_)) == 0 or hi_ == LEN or (length_of(hi_) is not None and length_of(hi_) == c0)):
                    return "G6-slice-at-counted-position"

                def enum_index(t):
                    """the index yielded by c.iter().enumerate() over the same collection: a position below its length"""
                    t = strip_refs(t)
                    if isinstance(t, tuple) and len(t) > 2 and t[0] == "field" and t[2] == 0 and isinstance(t[1], tuple) and t[1][0] == "field" and t[1][2] == 0 \
                            and isinstance(t[1][1], tuple) and t[1][1][0] == "downcast" and t[1][1][2] == "Some" and is_call(strip_refs(t[1][1][1]), "Enumerate<I> as std::iter::Iterator>::next"):
                        en = [x for x in subterms(t[1][1][1]) if is_call(x, "Iterator::enumerate")]
                        if len(en) == 1:
                            it = strip_refs(call_args(en[0])[0])
                            return is_call(it, "[T]>::iter") and _lib.coll(call_args(it)[0]) == c0
                    return False

                def less(a, b, strict_ok=True):
                    """a < b or a <= b established by a comparison on the path before the site (b == LEN stands for the collection's length)"""
                    a0 = strip_refs(a)
                    for c in conds_before(p, bb):
                        t = c.term
                        if isinstance(t, tuple) and t and t[0] == "discr" and is_call(strip_refs(t[1]), "Ord>::cmp", "::cmp") and len(call_args(strip_refs(t[1]))) == 2 and c.fact[0] == "eq" \
                                and c.fact[1] in (255, -1, 1, 0) and "Ord" in strip_refs(t[1])[1]:
                            # x.cmp(&y) came out Less / Greater / Equal (integers: the lengths compared are usize)
                            x_, y_ = (deval(u) for u in call_args(strip_refs(t[1])))
                            l, r = (x_, y_) if c.fact[1] in (255, -1, 0) else (y_, x_)
                            if deval(a0) == l and ((b == LEN and length_of(r) is not None and length_of(r) == c0) or (b != LEN and r == deval(b))):
                                return True
                            if c.fact[1] == 0 and deval(a0) == r and ((b == LEN and length_of(l) is not None and length_of(l) == c0) or (b != LEN and l == deval(b))):
                                return True
                            continue
                        if not (isinstance(t, tuple) and t and t[0] == "binop" and t[1] in ("Lt", "Le", "Gt", "Ge") and c.fact[0] == "eq" and isinstance(c.fact[1], bool)):
                            continue
                        op, l, r = t[1], strip_refs(t[2]), strip_refs(t[3])
                        if not c.fact[1]:
                            op = {"Lt": "Ge", "Le": "Gt", "Gt": "Le", "Ge": "Lt"}[op]
                        if op in ("Gt", "Ge"):
                            l, r = r, l
                            op = {"Gt": "Lt", "Ge": "Le"}[op]
                        if l == a0 and ((b == LEN and length_of(r) is not None and length_of(r) == c0) or (b != LEN and r == strip_refs(b))):
                            return True
                        # a + k < b (k >= 0; the addition is its own overflow site) gives a < b
                        if isinstance(l, tuple) and l and l[0] == "binop" and l[1] == "Add" and strip_refs(l[2]) == a0 and (const_int(l[3]) if const_int(l[3]) is not None else -1) >= 0 \
                                and ((b == LEN and length_of(r) is not None and length_of(r) == c0) or (b != LEN and r == strip_refs(b))):
                            return True
                        # a <= x by the loop's invariant and x < b on this path
                        if ((b == LEN and length_of(r) is not None and length_of(r) == c0) or (b != LEN and r == strip_refs(b))) and ctx is not None and never_ahead(ctx, body, a0, l):
                            return True
                    return False
                # bytes[a..b] with a <= b established on the path and b a position of the collection (its length, or the enumerate() index)
                if (hi_ == LEN or enum_index(hi_) or (length_of(hi_) is not None and length_of(hi_) == c0)) and less(lo_, hi_):
                    return "G6-ordered-range-below-length"
                # bytes[cursor..] where the cursor is kept <= len by its loop (only `+= 1` after `cursor < len`)
                if (hi_ == LEN or (length_of(hi_) is not None and length_of(hi_) == c0)) and cursor_bounded(ctx, body, p, lo_, ev.args[0]):
                    return "G4-cursor-bounded-by-its-loop-guard"
        if last == "index" and "[T]" in nm:
            coll, rg = ev.args[0], ev.args[1]
            a = agg_variant(rg)
            if a and a[1] == "Range":
                lo, hi = a[2]
                full = const_int(lo) == 0 and is_call(strip_refs(hi), "::len") and strip_refs(call_args(strip_refs(hi))[0]) == strip_refs(coll)
                if full:
                    return "G6-whole-slice"
                hp = strip_refs(hi)
                if const_int(lo) == 0 and isinstance(hp, tuple) and hp[0] == "field" and isinstance(hp[1], tuple) and hp[1][0] == "downcast" and is_call(strip_refs(hp[1][1]), "::position") \
                        and mentions(hp[1][1], lambda s: s == strip_refs(coll)):
                    return "G6-prefix-to-position"
                lp = strip_refs(lo)
                if isinstance(lp, tuple) and lp[0] == "field" and isinstance(lp[1], tuple) and lp[1][0] == "downcast" and is_call(strip_refs(lp[1][1]), "::position") \
                        and mentions(lp[1][1], lambda s: s == strip_refs(coll)) and is_call(hp, "::len") and (strip_refs(call_args(hp)[0]) == strip_refs(coll) or mentions(coll, lambda s: s == strip_refs(call_args(hp)[0]))):
                    return "G6-suffix-from-position"
            return None
        if last == "index" and ("for str" in nm or "String" in nm) and agg_variant(ev.args[1]) and agg_variant(ev.args[1])[1] in ("RangeFrom", "Range", "RangeTo"):
            # x[k..] / x[..k] right after x was shown to start with an ASCII literal of at least k bytes: k is a character boundary within x
            k_ = None
            a_ = agg_variant(ev.args[1])
            if a_[1] == "RangeFrom" or (a_[1] == "Range" and length_of(a_[2][1]) is not None and length_of(a_[2][1]) == _lib.coll(ev.args[0])):
                k_ = const_int(strip_refs(a_[2][0]))
            elif a_[1] == "RangeTo":
                k_ = const_int(strip_refs(a_[2][0]))
            if k_ is not None and k_ >= 0:
                x0 = strip_refs(ev.args[0])
                for c in conds_before(p, bb):
                    t = c.term
                    if c.fact == ("eq", True) and is_call(t, "dewey::starts_with_ignore_ascii_case", "str>::starts_with") and len(call_args(t)) == 2 and strip_refs(call_args(t)[0]) == x0:
                        lit = const_str(call_args(t)[1])
                        if lit is not None and lit.isascii() and k_ <= len(lit):
                            if is_call(t, "str>::starts_with") or not required_rules_failing(ctx, "C01", ["D2-TOK-CASE"]):
                                return "G6-cut-inside-a-matched-ascii-prefix"
        if last == "index" and ("for str" in nm or "String" in nm) and body.key == "dewey::Dewey::new" and content(ev.args[0]) == ("param", 1) \
                and _lib.canon_range(ev.args[0], ev.args[1]) is not None:
            # the slices of the pattern between recorded operator positions: pattern[rec0.vstart..], [rec0.vstart..rec1.start], [rec1.vstart..], [0..rec0.start].
            # Every recorded position is a boundary of an ASCII operator, increasing along the vector, and vstart <= the next record's start
            # (the invariant of panic_exemptions.json for these sites): it rests on C02's D1-SCAN / D1-SLICES / D1-VALIDATE, which are re-evaluated here.
            import rules.c02 as c02
            bad = required_rules_failing(ctx, "C02", ["D1-SCAN", "D1-SLICES", "D1-VALIDATE"])      # (evaluating C02 also fixes which field plays which role)
            lo_, hi_ = _lib.canon_range(ev.args[0], ev.args[1])

            def bound(b):
                if b == LEN:
                    return "len"
                if const_int(strip_refs(b)) == 0:
                    return "zero"
                t_ = strip_refs(b)
                while isinstance(t_, tuple) and t_ and t_[0] == "deref":
                    t_ = strip_refs(t_[1])
                if isinstance(t_, tuple) and t_ and t_[0] == "field":
                    el = element_of(t_[1])
                    if el is not None and isinstance(el[0], tuple) and el[0] and el[0][0] in ("havoc", "mutated"):
                        role = [r for r, i in c02.ROLE.items() if i == t_[2]]
                        return (el[1], role[0]) if role else None
                return None
            pair = (bound(lo_), bound(hi_))
            if pair in (((0, "vstart"), "len"), ((0, "vstart"), (1, "start")), ((1, "vstart"), "len"), ("zero", (0, "start"))):
                if not bad:
                    # ... and the record used exists on this path (length facts, G1)
                    need = max([x[0] for x in pair if isinstance(x, tuple)] or [0])
                    recs = [strip_refs(x) for x in (lo_, hi_) if isinstance(bound(x), tuple)]
                    colls = []
                    for t_ in recs:
                        while isinstance(t_, tuple) and t_ and t_[0] == "deref":
                            t_ = strip_refs(t_[1])
                        colls.append(element_of(t_[1])[0])
                    if colls and all(len_gt(p, bb, c_, need) for c_ in colls):
                        return "G8-operator-record-slices"
        if last == "index" and ("for str" in nm or "String" in nm) and _lib.canon_range(ev.args[0], ev.args[1]) is not None:
            # a string cut at 0 / len / the first position where a predicate holds: s.find(pred) (always a character boundary), or
            # s.bytes().position(pred) when pred holds for every non-ASCII byte (everything before the position is then ASCII)
            S = content(ev.args[0])
            lo_, hi_ = _lib.canon_range(ev.args[0], ev.args[1])

            def bound_ok(b):
                if b == LEN or const_int(b) == 0:
                    return True
                b0 = strip_refs(b)
                if is_call(b0, "::len") and content(call_args(b0)[0]) == S:
                    return True
                # the number of leading bytes that satisfy a predicate only ASCII bytes can satisfy: S.bytes().take_while(u8::is_ascii_digit).count()
                if is_call(b0, "Iterator::count", "::count") and call_args(b0):
                    tw = strip_refs(call_args(b0)[0])
                    if is_call(tw, "::take_while") and len(call_args(tw)) == 2 and is_call(strip_refs(call_args(tw)[0]), "str>::bytes") \
                            and content(call_args(strip_refs(call_args(tw)[0]))[0]) == S:
                        f_ = strip_refs(call_args(tw)[1])
                        if isinstance(f_, tuple) and f_ and f_[0] == "const" and isinstance(f_[2], tuple) and f_[2][0] == "fn" and f_[2][1].rsplit("::", 1)[-1].startswith("is_ascii_") \
                                and "u8" in f_[2][1]:
                            return True
                        if isinstance(f_, tuple) and f_[:2] == ("agg", "closure"):
                            tbl = char_table(ctx.paths(f_[2]) or [], is_param=lambda t_: strip_refs(t_) == ("param", 2), domain=BYTE_DOMAIN)
                            if tbl and all(v is not None for v in tbl.values()) and all(not tbl[chr(i)] for i in range(128, 256)):
                                return True
                # the position of a match yielded by S.match_indices(<ASCII characters>) or S.char_indices(), or the position right after a one-byte match
                k_ = 0
                m0 = b0
                if isinstance(m0, tuple) and m0 and m0[0] == "binop" and m0[1] == "Add" and const_int(m0[3]) is not None:
                    k_ = const_int(m0[3])
                    m0 = strip_refs(m0[2])
                if isinstance(m0, tuple) and m0 and m0[0] == "field" and m0[2] == 0 and isinstance(m0[1], tuple) and m0[1][0] == "field" and m0[1][2] == 0 \
                        and isinstance(m0[1][1], tuple) and m0[1][1][0] == "downcast" and m0[1][1][2] == "Some" and is_call(strip_refs(m0[1][1][1]), "MatchIndices<'a, P> as std::iter::Iterator>::next"):
                    mi = [x for x in subterms(m0[1][1][1]) if is_call(x, "str>::match_indices")]
                    if len(mi) == 1 and content(call_args(mi[0])[0]) == S:
                        pat = strip_refs(resolve_promoted(ctx, strip_refs(call_args(mi[0])[1])))
                        chars = [const_char(x) for x in pat[4]] if isinstance(pat, tuple) and pat[:2] == ("agg", "array") else [const_char(pat)] if const_char(pat) else []
                        if chars and all(ch is not None and ch.isascii() for ch in chars) and k_ in (0, 1):
                            return True
                if isinstance(b0, tuple) and b0 and b0[0] == "field" and b0[2] == 0 and isinstance(b0[1], tuple) and b0[1][0] == "downcast" and b0[1][2] == "Some":
                    src = strip_refs(b0[1][1])
                    if is_call(src, "str>::find", "str>::rfind") and content(call_args(src)[0]) == S:
                        return True
                    if is_call(src, "Iterator>::position", "::position") and len(call_args(src)) == 2:
                        it = strip_refs(call_args(src)[0])
                        while isinstance(it, tuple) and it and it[0] in ("loc", "refmut", "ref"):
                            it = strip_refs(it[2] if it[0] == "loc" and len(it) > 2 else it[1])
                        clo = strip_refs(call_args(src)[1])
                        if is_call(it, "str>::bytes") and content(call_args(it)[0]) == S and isinstance(clo, tuple) and clo and clo[0] == "agg" and clo[1] == "closure":
                            tbl = char_table(ctx.paths(clo[2]) or [], is_param=lambda t_: strip_refs(t_) == ("param", 2), domain=BYTE_DOMAIN)
                            # all earlier bytes ASCII (pred holds on every non-ASCII byte), or the byte found is never a continuation byte
                            return bool(tbl) and (all(tbl[chr(i)] is True for i in range(128, 256)) or all(tbl[chr(i)] is False for i in range(0x80, 0xC0)))
                return False
            if bound_ok(lo_) and bound_ok(hi_) and (const_int(lo_) == 0 or hi_ == LEN or is_call(strip_refs(hi_), "::len")):
                return "G6-string-cut-at-first-match"
        if (last == "index" and ("for str" in nm or "String" in nm)) or (last == "split_at" and "str" in nm):
            # any slicing of a string at 0 / len / a position found by searching that string (+ the separator's length)
            if last == "split_at":
                probe = ("field", ev.term, 0, "")
            else:
                probe = ev.term
            if substr_in_bounds(substr(probe)):
                return "G6-substring-at-searched-positions"
            # R[1..R.find(b)] / R[1..] where R = S[S.(r)find(a)..] starts with the one-byte delimiter a and b is another delimiter:
            # position 1 is the boundary right after a, and the first b cannot be at position 0
            ss = substr(probe)
            if ss is not None and ss[1] == ("const", 1) and (ss[2] == LEN or (isinstance(ss[2], tuple) and ss[2][0] in ("find", "rfind") and ss[2][2] == 0)):
                rr = substr(ss[0])
                if rr is not None and rr[2] == LEN and isinstance(rr[1], tuple) and rr[1][0] in ("find", "rfind") and rr[1][2] == 0 and rr[1][1] and len(rr[1][1].encode("utf-8")) == 1 \
                        and (ss[2] == LEN or (ss[2][1] and not ss[2][1].startswith(rr[1][1]))):
                    return "G6-after-leading-delimiter"
        if last == "split_at" and "str" in nm:
            s, at = strip_refs(ev.args[0]), ev.args[1]
            sp_ = search_pos(at)
            if sp_ and sp_[0] == s and sp_[1] is not None and sp_[1].isascii() and sp_[2] in (0, len(sp_[1])):
                return "G6-split-at-search-result"
            return None
        if last in ("with_capacity", "reserve", "reserve_exact", "repeat", "resize"):
            n_ = ev.args[-1] if last in ("with_capacity", "repeat") else ev.args[1]
            k = const_int(n_)
            if k is not None and k <= 1 << 20:
                return "G7-small-constant-capacity"
            if is_call(strip_refs(n_), "::len", "::count") or (isinstance(strip_refs(n_), tuple) and strip_refs(n_)[0] == "binop" and bounded_size(n_)):
                return "G5-capacity-from-a-length"
            n0 = strip_refs(n_)
            if isinstance(n0, tuple) and n0 and n0[0] == "binop" and n0[1] == "Mul" and const_int(n0[3]) is not None and 0 <= const_int(n0[3]) <= 16 and length_of(n0[2]) is not None \
                    and mentions(n0[2], lambda s_: is_call(s_, "GenericArray<T, N> as std::ops::Deref>::deref", "GenericArray")):
                return "G7-capacity-from-a-fixed-size-array"      # a digest output: a few dozen bytes
            # the same inside a private helper that is handed the bytes: every call site passes such an array
            if isinstance(n0, tuple) and n0 and n0[0] == "binop" and n0[1] == "Mul" and const_int(n0[3]) is not None and 0 <= const_int(n0[3]) <= 16 and length_of(n0[2]) is not None \
                    and isinstance(length_of(n0[2]), tuple) and length_of(n0[2])[:1] == ("param",) and ctx is not None:
                origins = param_origins(ctx, body.key, length_of(n0[2])[1])
                if origins and all(mentions(o, lambda s_: is_call(s_, "GenericArray<T, N> as std::ops::Deref>::deref", "GenericArray")) or is_call(strip_refs(o), "::finalize") for o in origins):
                    return "G7-capacity-from-a-fixed-size-array"
            return None
        if last in ("windows", "chunks", "chunks_exact", "step_by"):
            k = const_int(ev.args[1])
            return "G7-nonzero-constant-size" if k is not None and k > 0 else None
        if last == "split_off":
            v, at = strip_refs(ev.args[0]), strip_refs(ev.args[1])
            if window_end(at, deval(v)):
                return "G6-window-position-plus-window-size"
            if is_call(at, "::len"):
                # the length of a prefix &v[..k] of the same vector, seen through length-preserving views only: a validated str view of
                # the same bytes (from_utf8(..) Ok payload) has the same length; a converted copy (from_utf8_lossy, to_lowercase ..) has not
                x = strip_refs(call_args(at)[0])
                for _ in range(8):
                    if isinstance(x, tuple) and x and x[0] == "field" and x[2] == 0 and isinstance(x[1], tuple) and x[1][0] == "downcast" and x[1][2] in ("Ok", "Continue"):
                        x = strip_refs(x[1][1])
                    elif is_call(x, "Try>::branch", "str::from_utf8", "core::str::from_utf8", "::as_str", "::as_bytes", "AsRef", "Deref>::deref", "::as_ref") and call_args(x) \
                            and not is_call(x, "from_utf8_lossy"):
                        x = strip_refs(call_args(x)[0])
                    elif isinstance(x, tuple) and x and x[0] == "deref":
                        x = strip_refs(x[1])
                    else:
                        break
                if is_index_call(x) and mentions(call_args(x)[0], lambda u: u == v or (u[0] == "field" and v[0] == "field" and u[3] == v[3])):
                    return "G6-length-of-a-prefix-of-the-same-vector"
            return None
    return None


def param_origins(ctx, helper, k):
    """the terms passed as parameter k at every call site of a helper whose callers can all be enumerated (private, not reachable from outside
    the crate), or None"""
    fx = ctx.fx
    f = fx.fn(helper)
    if f is None or f.get("kind") == "Closure" or f.get("reachable") or (f.get("vis") == "pub" and f.get("reachable") is None):
        return None
    out = []
    callers = [ck for ck, g in fx.bodies() if ck != helper and any(b["term"]["k"] == "call" and (b["term"]["func"]["path"] == helper or mir.norm_path(b["term"]["func"]["path"]) == helper) for b in g["blocks"])]
    if not callers:
        return None
    for ck in callers:
        seen = False
        for p in ctx.paths(ck) or []:
            for e in p.events:
                if e.kind == "call" and (e.path == helper or e.name == helper) and len(e.args) >= k:
                    out.append(e.args[k - 1])
                    seen = True
        if not seen:
            return None
    # a function value taken without a call (passed to map(..) etc.) has call sites that cannot be listed
    for _, g in fx.bodies():
        for b in g["blocks"]:
            for st_ in b["stmts"]:
                if helper in json.dumps(st_):
                    return None
    return out


def contextual_discharge(ctx, helper, site_bb, kind):
    fx = ctx.fx
    f = fx.fn(helper)
    if f is not None and f.get("kind") == "Closure":
        # a closure handed to an Option/Result combinator is applied where it is written (the combinator is evaluated as a match): its sites are
        # judged with the conditions of the function that creates it; a closure that is not applied there gets no verdict
        creator = helper.rsplit("::{closure", 1)[0]
        made = sum(1 for _, g in fx.bodies() for b in g["blocks"] for s_ in b["stmts"] if s_["k"] == "assign" and s_["rv"]["k"] == "aggregate" and s_["rv"].get("closure") == helper)
        if fx.fn(creator) is None or made != 1:
            return None
        callers = [creator]
    else:
        if f is None or f.get("reachable") or (f.get("vis") == "pub" and f.get("reachable") is None):
            return None     # reachable from outside the crate: its callers cannot be enumerated
        callers = [k for k, g in fx.bodies() if k != helper and any(b["term"]["k"] == "call" and (b["term"]["func"]["path"] == helper or mir.norm_path(b["term"]["func"]["path"]) == helper) for b in g["blocks"])]
    if not callers:
        return None
    rules = set()
    for ck in callers:
        cb = ctx.body(ck)
        ps = ctx.paths(ck)
        occ = [(p, e) for p in (ps or []) for e in p.events
               if e.data.get("inlined_from") == helper and e.data.get("inlined_from_bb") == site_bb
               and ((e.kind == "assert" and kind.startswith("assert")) or (e.kind == "call" and not kind.startswith("assert")))]
        if not occ:
            return None     # called from here but not inlined here (or the site is unreachable from this caller): no verdict
        for (p, e) in occ:
            r = discharge(ctx, cb, p, e, kind)
            if not r:
                return None
            rules.add(r)
    return "%s; callers: %s" % (",".join(sorted(rules)), ", ".join(sorted(callers)))


_REQ_CACHE = {}


def required_rules_failing(ctx, prop, rules):
    """violation keys of the named rules of another property's module, evaluated on the same facts"""
    ck = (id(ctx.fx), prop)
    if ck not in _REQ_CACHE:
        import importlib
        from check import Ctx
        mod = importlib.import_module("rules." + prop.lower())
        sub = Ctx(prop, ctx.tier, ctx.fx)
        sub.no_share = True
        sub.inline_set = ctx.inline_set
        sub.desugar = bool(getattr(mod, "DESUGAR", False))
        sub.splice = getattr(mod, "SPLICE_LOOP_HELPERS", False)
        try:
            mod.run(sub)
            _REQ_CACHE[ck] = [r for r in sub.records if r.verdict == "violation"]
        except Exception as e:   # a crash of the other module is not evidence that its rules hold
            _REQ_CACHE[ck] = None
    recs = _REQ_CACHE[ck]
    if recs is None:
        return ["<%s rules could not be evaluated>" % prop]
    return [r.key for r in recs if any(r.rule == x or r.rule.startswith(x) for x in rules)]


def load_exemptions():
    with open(os.path.join(os.path.dirname(HERE), "panic_exemptions.json")) as f:
        return json.load(f)["exemptions"]


def canon_range(subject, rg):
    """a[x..], a[..y], a[..], a[x..a.len()], a[0..y] all as Range{x, y}: the spelling of a slice expression is not part of its identity"""
    a = agg_variant(rg)
    if not a or a[1] not in ("Range", "RangeFrom", "RangeTo", "RangeFull"):
        return rg
    zero = ("const", "usize", 0)
    ln = ("call", "core::slice::<impl [T]>::len", (), (strip_refs(subject),), None)
    lo = a[2][0] if a[1] in ("Range", "RangeFrom") else zero
    hi = a[2][1] if a[1] == "Range" else (a[2][0] if a[1] == "RangeTo" else ln)
    if is_call(strip_refs(hi), "::len") and strip_refs(call_args(strip_refs(hi))[0]) == strip_refs(subject):
        hi = ln
    return ("agg", "adt", "std::ops::Range", "Range", (lo, hi), ("start", "end"))


def canon_term(t, depth=0):
    """the term with every slice expression inside it written as Range{lo, hi} (see canon_range): operands are compared up to that spelling"""
    if not isinstance(t, tuple) or not t or depth > 40:
        return t
    el = element_of(t) if (is_index_call(t) or t[0] == "index" or (t[0] == "deref" and isinstance(t[1], tuple) and (is_index_call(strip_refs(t[1])) or strip_refs(t[1])[:1] == ("index",)))) else None
    if el is not None:
        # element i of a collection, whether reached through Index::index (v[i]) or a slice-pattern binding ([a, b] => ..)
        return ("call", "elem", (), (canon_term(el[0], depth + 1), ("const", "usize", el[1])), None)
    if is_index_call(t) and len(call_args(t)) == 2:
        a0 = canon_term(call_args(t)[0], depth + 1)
        a1 = canon_range(a0, canon_term(call_args(t)[1], depth + 1))
        return t[:3] + ((a0, a1),) + t[4:]
    return tuple(canon_term(x, depth + 1) if isinstance(x, tuple) else x for x in t)


_CLOSURE_CTX = {}


def closure_context(ctx, key):
    """For a closure handed to an iterator adaptor (`it.map(|x| ..)`, `.for_each`, `.filter_map`, `.any`, ..): (captured terms as seen by the
    function that creates it, the iterator's type), so that what the closure does with its element can be named the same way as the body of
    `for x in it { .. }`.  None when the closure is not (only) used that way."""
    ck = (id(ctx.fx), key)
    if ck in _CLOSURE_CTX:
        return _CLOSURE_CTX[ck]
    res = None
    creator = key.rsplit("::{closure", 1)[0]
    if ctx.fx.fn(creator) is not None:
        uses = set()
        for p in ctx.paths(creator) or []:
            for e in p.events:
                if e.kind != "call":
                    continue
                for a in e.args[1:]:
                    a0 = strip_refs(a)
                    if isinstance(a0, tuple) and a0[:2] == ("agg", "closure") and a0[2] == key:
                        full = e.data.get("full") or ""
                        m = re.match(r"^<(.*) as std::iter::Iterator>::(map|for_each|filter_map|filter|any|all|find|find_map|position|flat_map|try_for_each)\b", full)
                        uses.add((a0[4], m.group(1) if m else None))
        if len(uses) == 1:
            caps, ty = next(iter(uses))
            if ty is not None:
                res = (caps, ty)
    _CLOSURE_CTX[ck] = res
    return res


def each_elem(body, t):
    """`(it.next() as Some).0` of a loop-carried iterator local, named by the iterator's type: the element a `for` loop is looking at"""
    if isinstance(t, tuple) and len(t) > 2 and t[0] == "field" and t[2] == 0 and isinstance(t[1], tuple) and t[1][0] == "downcast" and t[1][2] == "Some" \
            and is_call(strip_refs(t[1][1]), "Iterator>::next") and call_args(strip_refs(t[1][1])):
        r = call_args(strip_refs(t[1][1]))[0]
        if isinstance(r, tuple) and r[0] == "refmut" and isinstance(r[1], tuple) and r[1][0] == "loc" and isinstance(r[1][1], int) and 0 <= r[1][1] < len(body.f["locals"]):
            if len(r[1]) > 2 and isinstance(r[1][2], tuple) and r[1][2][0] == "havoc":
                return ("call", "each<%s>" % body.f["locals"][r[1][1]]["ty"], (), (), None)
    return None


def _rewrite(t, f, depth=0):
    if not isinstance(t, tuple) or not t or depth > 40:
        return t
    r = f(t)
    if r is not None:
        return r
    return tuple(_rewrite(x, f, depth + 1) if isinstance(x, tuple) else x for x in t)


def fingerprint(body, ev, kind, ctx=None):
    cc = closure_context(ctx, body.key) if ctx is not None and "::{closure" in body.key else None

    def pre(t):
        # the element under the loop / the closure's element argument, and the closure's captures as the creating function sees them
        t = _rewrite(t, lambda x: each_elem(body, x))
        if cc is not None:
            caps, ty = cc

            def sub(x):
                if x == ("param", 2):
                    return ("call", "each<%s>" % ty, (), (), None)
                if x[0] == "field" and len(x) > 2 and isinstance(x[1], tuple) and x[1] in (("deref", ("param", 1)), ("param", 1)) and isinstance(x[2], int) and x[2] < len(caps):
                    return caps[x[2]]
                return None
            t = _rewrite(t, sub)
        return t
    if ev.kind == "assert":
        txt = kind + "|" + "|".join(named(body, canon_term(pre(m))) for m in ev.mops)
    else:
        args = [canon_term(pre(a)) for a in ev.args]
        if kind.split("::")[-1] in ("index", "index_mut") and len(args) == 2:
            args[1] = canon_range(args[0], args[1])
        txt = kind + "|" + "|".join(named(body, a) for a in args)
    return hashlib.sha1(txt.encode()).hexdigest()[:12], txt


def run(ctx):
    global _CTX
    _CTX = ctx
    fx = ctx.fx
    exemptions = load_exemptions()
    used_ex = set()
    total = 0
    bykind = {}
    excluded = 0
    summary_internal = []
    seen_fp = {}
    for key, f in fx.bodies():
        if not hand_written(fx, key, f):
            excluded += 1
            continue
        body = ctx.body(key)
        sites = sites_of(body)
        if not sites:
            continue
        paths = ctx.paths(key)
        occ = {}
        for (bb, kind) in sites:
            total += 1
            bykind[kind.split(":")[0] + ":" + kind.split(":")[1].split("(")[0].split("::")[-1]] = bykind.get(kind.split(":")[0] + ":" + kind.split(":")[1].split("(")[0].split("::")[-1], 0) + 1
            evs = []
            for p in paths:
                for e in p.events:
                    if e.bb == bb and ((e.kind == "assert" and kind.startswith("assert")) or (e.kind == "call" and not kind.startswith("assert"))):
                        evs.append((p, e))
            short = kind.split(":", 1)[1].split("::")[-1] if not kind.startswith("assert") else kind.split(":", 1)[1]
            n = occ.get(short, 0)
            occ[short] = n + 1
            inst_base = "%s:%s" % (kind.split(":")[0], short)
            if not evs:
                ctx.violation("PANIC", key, inst_base + "#unreached-%d" % n, "panic-capable site not covered by any enumerated path (engine limitation): failing closed", body.span_of(bb))
                continue
            fp, txt = fingerprint(body, evs[0][1], kind, ctx)
            dup = seen_fp.get((key, inst_base, fp), 0)
            seen_fp[(key, inst_base, fp)] = dup + 1
            inst = "%s[%s]%s" % (inst_base, fp, "" if dup == 0 else "#%d" % (dup + 1))
            if kind.startswith("diverge") and key in ("summary::Summary::get_s", "summary::Summary::get_i", "summary::Summary::get_a", "summary::SummaryValue::push"):
                summary_internal.append((key, inst, bb))
                continue
            rules = set()
            undis = 0
            for (p, e) in evs:
                # a call the evaluator re-expressed (slice.split_at(i) as the pair slice[..i], slice[i..]) is judged as what it was re-expressed as
                k_ = "call:" + e.name if kind.startswith("call:") and e.kind == "call" and e.data.get("dest") is None and e.name != kind[5:] else kind
                r = discharge(ctx, body, p, e, k_)
                if r:
                    rules.add(r)
                else:
                    undis += 1
            if undis == 0:
                ctx.ok("PANIC", key, inst, "discharged on %d path(s) by %s" % (len(evs), ",".join(sorted(rules))), body.span_of(bb))
                continue
            if key in ctx.inline_set and not kind.startswith("diverge"):
                # a helper that did not exist when the rules were written: its site may be guarded by its callers.  It is discharged
                # when it is discharged, with the caller's conditions, at every place the helper was inlined (all its call sites).
                cr = contextual_discharge(ctx, key, bb, kind)
                if cr:
                    ctx.ok("PANIC", key, inst, "discharged in the context of every call site (%s)" % cr, body.span_of(bb))
                    continue
            # an exemption belongs to a function together with its closures: the same operation on the same (canonically named) operands,
            # whether it is written in the body of a `for` loop or in the closure of `.map(..)`
            base_ = key.split("::{closure", 1)[0]
            ex = [x for x in exemptions if x["item"].split("::{closure", 1)[0] == base_ and x["fingerprint"] == fp]
            if ex and ex[0].get("requires"):
                # the invariant rests on another property's structural rules: they must hold on this tree, or the exemption lapses
                rq = ex[0]["requires"]
                bad = required_rules_failing(ctx, rq["property"], rq["rules"])
                if bad:
                    ctx.violation("PANIC", key, inst, "the exemption for this %s rests on %s rules %s, which fail on this tree (%s): the invariant `%s` is no longer established"
                                  % (kind, rq["property"], rq["rules"], bad[:2], ex[0]["invariant"][:160]), body.span_of(bb))
                    continue
            if ex:
                used_ex.add((ex[0]["item"], fp))
                ctx.ok("PANIC", key, inst, "reasoned exemption: " + ex[0]["invariant"], body.span_of(bb), nontrivial=False)
                continue
            ctx.violation("PANIC", key, inst, "panic-capable %s is not discharged on %d of %d path(s) through it and has no exemption: operands %s" % (kind, undis, len(evs), txt[:300]), body.span_of(bb))
    ctx.floor("PANIC", "crate", "panic-capable sites inventoried", total, 60)  # 120 counted; half of that, so that a refactor which removes sites is not an alarm (the detectors themselves are exercised by the positive controls)
    stale = [x for x in exemptions if (x["item"], x["fingerprint"]) not in used_ex and x.get("config", ctx.config) == ctx.config and not x.get("optional")]
    for x in stale:
        ctx.note("exemption no longer matches any site (lapsed): %s %s" % (x["item"], x["fingerprint"]))
    ctx.note("inventory by kind: %s; derived/serde-generated bodies excluded: %d" % (json.dumps(bykind, sort_keys=True), excluded))

    # ---- D2: Summary's internal panics rest on C07's kind consistency
    import rules.c07 as c07
    from check import Ctx
    sub = Ctx("C07", ctx.tier, fx)
    sub.no_share = True
    sub.inline_set = ctx.inline_set
    sub.desugar = bool(getattr(c07, "DESUGAR", False))
    sub.splice = getattr(c07, "SPLICE_LOOP_HELPERS", False)
    c07.run(sub)
    # only the rules that bear on WHICH KIND of value sits under a variable; rules about the value itself (payload unaltered, overwritten
    # rather than kept, appended in order, returned through views) cannot make a stored kind disagree with its variable
    NOT_KIND = ("D4-PAYLOAD",)
    NOT_KIND_INST = ("returns-payload-", "has-some-path", "append", "overwrite-")
    bad = [r for r in sub.records if r.verdict == "violation" and r.rule.startswith("D4-") and r.rule not in NOT_KIND and not any(r.instance.startswith(x) for x in NOT_KIND_INST)]
    for (key, inst, bb) in summary_internal:
        b = ctx.body(key)
        ctx.check(not bad, "PANIC-INTERNAL", key, inst, "unreachable: values are stored only with their variable's kind (C07 D4 rules hold: %d instances)" % len([r for r in sub.records if r.rule.startswith("D4-")]),
                  "the internal-consistency panic is reachable: C07 kind-consistency rule(s) fail: %s" % [r.key for r in bad][:3], b.span_of(bb))
    ctx.floor("PANIC-INTERNAL", "summary", "internal panic sites", len(summary_internal), 5)

    termination(ctx)

    # ---- PANIC-CONTRACT: std::io::Write::write_all panics (slice index out of range) when write() reports more bytes than it was handed:
    #      SummaryStream::write must answer Ok(input.len()) (C09's D1-CONSUMED verdicts, shared)
    share_rules(ctx, "C09", ("D1-CONSUMED",), "PANIC-CONTRACT", "<summary::SummaryStream as std::io::Write>::write", 2)


def termination(ctx):
    fx = ctx.fx
    nloops = 0
    for key, f in fx.bodies():
        if not hand_written(fx, key, f):
            continue
        body = ctx.body(key)
        if not body.loops:
            continue
        for h, blks in sorted(body.loops.items()):
            nloops += 1
            t = body.blocks[h]["term"]
            drv = None
            cand0 = [bb for bb in sorted(blks) if body.blocks[bb]["term"]["k"] == "call" and mir.norm_path(body.blocks[bb]["term"]["func"]["path"]).endswith("::next")
                     and all(body.dominates(bb, u) for (u, v) in body.back_edges if v == h)]
            # the iterator must be state that outlives one iteration (loop-carried local or a field of self), not one created inside the body
            cand = []
            for bb in cand0:
                for p in ctx.paths(key):
                    ev = [e for e in p.events if e.kind == "call" and e.bb == bb]
                    if ev:
                        a = ev[0].args[0]
                        carried = (isinstance(a, tuple) and a[0] == "refmut" and isinstance(a[1], tuple) and a[1][0] == "loc" and isinstance(a[1][2], tuple) and a[1][2][0] == "havoc" and a[1][2][2] == h) or \
                            (mentions(a, lambda s: s[0] == "field" and strip_refs(s[1]) == ("param", 1)) and not mentions(a, lambda s: s[0] == "loc"))
                        if carried:
                            cand.append(bb)
                        break
            if cand:
                drv = body.blocks[cand[0]]["term"]["func"]["full"]
            if drv is None and not cand0:
                # an index-driven scan: every way round the loop first checked cursor < len(..) and then moved the cursor forward by a positive constant
                # (nothing else writes it): at most len iterations
                backs_ = [p for p in ctx.paths(key) if p.end[0] == "back" and p.end[1] == h]
                cur_ok = None
                for p in backs_:
                    g = [c for c in p.conds() if isinstance(c.term, tuple) and c.term[0] == "binop" and c.term[1] == "Lt" and isinstance(c.term[2], tuple) and c.term[2][0] == "havoc"
                         and c.term[2][2] == h and length_of(c.term[3]) is not None and c.fact == ("eq", True)]
                    ls = {c.term[2][1] for c in g}
                    adv = {l for l in ls if isinstance(p.env.get(l), tuple) and p.env.get(l)[0] == "binop" and p.env.get(l)[1] == "Add" and isinstance(p.env.get(l)[2], tuple)
                           and p.env.get(l)[2][0] == "havoc" and p.env.get(l)[2][1] == l and (const_int(p.env.get(l)[3]) or 0) > 0}
                    cur_ok = adv if cur_ok is None else (cur_ok & adv)
                if backs_ and not cur_ok:
                    # the mirror image: every way round first checked cursor >= k / > k / != 0 (k >= 0) and then moved the cursor down by a positive constant
                    dn_ok = None
                    for p in backs_:
                        ls = set()
                        for c in p.conds():
                            t_ = c.term
                            if isinstance(t_, tuple) and t_[0] == "binop" and isinstance(t_[2], tuple) and t_[2][0] == "havoc" and t_[2][2] == h and const_int(t_[3]) is not None and const_int(t_[3]) >= 0 \
                                    and ((t_[1] in ("Ge", "Gt") and c.fact == ("eq", True)) or (t_[1] in ("Lt", "Le") and c.fact == ("eq", False)) or (t_[1] == "Ne" and const_int(t_[3]) == 0 and c.fact == ("eq", True))
                                         or (t_[1] == "Eq" and const_int(t_[3]) == 0 and c.fact == ("eq", False))) and body.f["locals"][t_[2][1]]["ty"] in ("usize", "u64", "u32", "u16", "u8"):
                                ls.add(t_[2][1])
                        dn = {l for l in ls if isinstance(p.env.get(l), tuple) and p.env.get(l)[0] == "binop" and p.env.get(l)[1] == "Sub" and isinstance(p.env.get(l)[2], tuple)
                              and p.env.get(l)[2][0] == "havoc" and p.env.get(l)[2][1] == l and (const_int(p.env.get(l)[3]) or 0) > 0}
                        dn_ok = dn if dn_ok is None else (dn_ok & dn)
                    if dn_ok:
                        ctx.ok("TERM", key, "loop[descending-cursor]%s" % ("" if list(sorted(body.loops)).index(h) == 0 else "#%d" % (sorted(body.loops).index(h) + 1)),
                               "every iteration checks the unsigned cursor against a lower bound and moves it down", body.span_of(h))
                        continue
                if backs_ and cur_ok:
                    ctx.ok("TERM", key, "loop[bounded-cursor]%s" % ("" if list(sorted(body.loops)).index(h) == 0 else "#%d" % (sorted(body.loops).index(h) + 1)),
                           "every iteration checks cursor < len and advances the cursor", body.span_of(h))
                    continue
            if drv is None:
                # a read loop: every iteration calls read_until / read_line / read on a reader and goes round again only if that consumed at
                # least one byte (n == 0 leaves the loop) -- the same progress argument as iterating io::Split / io::Lines over the reader
                rd = [bb for bb in sorted(blks) if body.blocks[bb]["term"]["k"] == "call" and mir.norm_path(body.blocks[bb]["term"]["func"]["path"]).rsplit("::", 1)[-1] in ("read_until", "read_line", "read")
                      and ("BufRead" in body.blocks[bb]["term"]["func"]["path"] or "io::Read" in body.blocks[bb]["term"]["func"]["path"])
                      and all(body.dominates(bb, u) for (u, v) in body.back_edges if v == h)]
                if rd:
                    backs_ = [p for p in ctx.paths(key) if p.end[0] == "back" and p.end[1] == h]
                    okr = bool(backs_)
                    for p in backs_:
                        ev_ = [e for e in p.events if e.kind == "call" and e.bb == rd[0]]
                        nz = [c for c in p.conds() if ev_ and isinstance(c.term, tuple) and c.term[0] == "binop" and c.term[1] in ("Eq", "Ne", "Gt") and const_int(c.term[3]) == 0
                              and mentions(c.term[2], lambda s_: s_ == ev_[0].term)]
                        okr = okr and bool(nz) and ((nz[-1].fact == ("eq", True)) == (nz[-1].term[1] in ("Ne", "Gt")))
                    ctx.check(okr, "TERM", key, "loop[read-until-eof]%s" % ("" if list(sorted(body.loops)).index(h) == 0 else "#%d" % (sorted(body.loops).index(h) + 1)),
                              "a read loop that continues only after reading at least one byte",
                              "the read loop has a way round that did not establish that the read consumed input (n != 0): it can spin at end of input", body.span_of(h))
                    continue
            if drv is None and cand0 and ("array::IntoIter<" in body.blocks[cand0[0]]["term"]["func"]["full"] or "slice::Iter<" in body.blocks[cand0[0]]["term"]["func"]["full"]) \
                    and not any(p.end[0] == "back" and p.end[1] == h for p in ctx.paths(key)) \
                    and not any(e.kind == "call" and e.bb == cand0[0] for p in ctx.paths(key) for e in p.events):
                # `for x in [a, b, c]` / `for x in &TABLE`: the evaluator walked the body once per element of the array literal or constant table
                # (no back edge, no symbolic next()): the number of iterations is the table's length
                ctx.ok("TERM", key, "loop[array-literal]%s" % ("" if list(sorted(body.loops)).index(h) == 0 else "#%d" % (sorted(body.loops).index(h) + 1)),
                       "a loop over an array literal, walked element by element", body.span_of(h))
                continue
            if drv is not None:
                m = re.match(r"<(.*) as std::iter::Iterator>::next", drv)
                self_ty = m.group(1) if m else ("std::ops::Range<usize>" if "for std::ops::Range<" in drv else drv)
                finite = self_ty.startswith(FINITE_ITERS) and not any(x in drv for x in INFINITE_SOURCES)
                # every way of staying in the loop saw Some(..): the None edge leaves the loop
                paths = ctx.paths(key)
                backs = [p for p in paths if p.end[0] == "back" and p.end[1] == h]
                leaves = bool(backs)
                for p in backs:
                    nx = [e for e in p.events if e.kind == "call" and e.bb == cand[0]]
                    if not nx:
                        leaves = False
                        continue
                    R = nx[0].term
                    some = any((c.term == ("discr", R) and c.fact == ("eq", 1)) or
                               (c.term[0] == "discr" and is_call(c.term[1], "Try>::branch") and strip_refs(call_args(c.term[1])[0]) == R and c.fact == ("eq", 0)) for c in p.conds())
                    leaves = leaves and some
                ctx.check(finite and leaves, "TERM", key, "loop[%s]%s" % (self_ty.split("<")[0], "" if list(sorted(body.loops)).index(h) == 0 else "#%d" % (sorted(body.loops).index(h) + 1)),
                          "driven by %s, continues only on Some" % self_ty.split("<")[0],
                          "loop driven by %s: %s" % (self_ty, "the iterator is not in the finite-iterator list" if not finite else "a back edge is reachable without next() having returned Some"), body.span_of(h))
                continue
            # registered: the tokeniser loop
            if key == "dewey::DeweyVersion::new":
                paths = ctx.paths(key)
                from rules.c01 import tokeniser_state
                idx = tokeniser_state(body, paths).get("idx")
                backs = [p for p in paths if p.end[0] == "back" and p.end[1] == h]
                ok = bool(backs) and idx is not None
                worst = ""
                for p in backs:
                    v = p.env.get(idx)
                    # the leaves of the sum, however it is bracketed (`idx += 2; idx += n` or `idx += 2 + n`)
                    leaves = []

                    def walk_(x):
                        if isinstance(x, tuple) and x and x[0] == "binop" and x[1] == "Add":
                            walk_(x[2])
                            walk_(x[3])
                        else:
                            leaves.append(x)
                    walk_(v)
                    bases = [x for x in leaves if isinstance(x, tuple) and x and x[0] == "havoc" and x[1] == idx]
                    base_ok = len(bases) == 1
                    adds = [x for x in leaves if not (base_ok and x is bases[0])]
                    pos = False
                    for a in adds:
                        k = const_int(a)
                        if k is not None and k > 0:
                            pos = True
                        elif is_call(a, "char>::len_utf8"):
                            pos = True
                        elif is_call(a, "String::len", "str>::len"):
                            s = strip_refs(call_args(a)[0])
                            if any(is_call(c.term, "String::is_empty", "str>::is_empty") and strip_refs(call_args(c.term)[0]) == s and c.fact == ("eq", False) for c in p.conds()):
                                pos = True
                            # the literal of the matched entry of a constant table none of whose literals is empty
                            from rules.c01 import table_guard
                            for f_ in [x for x in subterms(s) if is_call(x, "Iterator>::find")]:
                                tg = table_guard(ctx, ("discr", f_))
                                if tg is not None and all(len(l) > 0 for l, _ in tg["entries"]) and isinstance(s, tuple) and s[0] == "field" and s[2] == 0:
                                    pos = True
                    if not (base_ok and pos and all((const_int(a) is None or const_int(a) >= 0) for a in adds)):
                        ok = False
                        worst = named(body, v)[:120]
                # the exit test compares the cursor with the length
                ex = [p for p in paths if p.end[0] == "return"]
                okx = bool(ex) and all(any(isinstance(c.term, tuple) and c.term[0] == "binop" and c.term[1] in ("Eq", "Ne", "Lt", "Ge") and is_call(c.term[3], "str>::len", "String::len") for c in p.conds()) for p in ex)
                ctx.check(ok and okx, "TERM", key, "loop[registered:cursor-advances]", "every back-edge path advances the cursor by a positive amount (%d paths)" % len(backs),
                          "the scanning loop has a back-edge path that does not advance the cursor by a positive amount (%s): the tokeniser can loop forever" % worst, body.span_of(h))
                continue
            ctx.violation("TERM", key, "loop[unclassified]@%s" % sorted(blks)[0], "loop is neither driven by a finite std iterator nor registered with a progress argument", body.span_of(h))
    ctx.floor("TERM", "crate", "loops classified", nloops, 30)

    # ---- recursion
    graph = {}
    for key, f in fx.bodies():
        if not hand_written(fx, key, f):
            continue
        body = ctx.body(key)
        outs = set()
        for bb, t in body.calls():
            if t["func"]["local"]:
                outs.add(t["func"]["path"])
        for b in body.blocks:
            for s in b["stmts"]:
                if s["k"] == "assign" and s["rv"]["k"] == "aggregate" and s["rv"].get("ak") == "closure":
                    outs.add(s["rv"]["closure"])
        graph[key] = outs
    sccs = tarjan(graph)
    cyc = [sorted(c) for c in sccs if len(c) > 1 or (len(c) == 1 and next(iter(c)) in graph.get(next(iter(c)), ()))]
    registered = [["pattern::Pattern::alternate_match", "pattern::Pattern::matches"]]
    for c in cyc:
        am = "pattern::Pattern::alternate_match"
        core = [k for k in c if not k.startswith(am + "::{closure")]
        if core in registered and core != c:
            # the same cycle with the per-alternative work written as closures (`.any(|a| ..)`): the measure is C04's normal form of the expansion --
            # prefix + one alternative of the text strictly between the right-most '{' and the first '}' after it + suffix has one '{' fewer
            body = ctx.body(am)
            bad = required_rules_failing(ctx, "C04", ["D1-BRACE-PAIR", "D2-EXPANSION", "D3-SKIP-INVALID"])
            ctx.check(not bad, "TERM-RECURSION", "+".join(core), "measure:brace-count-decreases", "each recursive call drops one '{' and one '}' (C04 D1/D2 hold on this tree)",
                      "the recursive call's pattern is not established to be the original with one brace pair removed (%s): recursion may not terminate" % bad[:2], fn_span(body))
            ctx.check(False, "TERM-COST", "+".join(core), "fan-out-inside-recursion", "no fan-out",
                      "the recursive call sits inside the iteration over a group's alternatives and recursion depth equals the number of brace pairs: the number of expansions tried is the product of the group sizes "
                      "(e.g. 25 groups of two alternatives -> 2^25 compiled patterns for a non-matching name) and depth is input-controlled (about 10^4 nested pairs exhaust the stack)", fn_span(body))
            continue
        if c in registered:
            body = ctx.body(am)
            paths = ctx.paths(am)
            # measure: the recursive call's pattern omits one '{' and one '}' of the original
            rec = [e for p in paths for e in p.calls("pattern::Pattern::matches")]
            ok = bool(rec)
            for e in rec:
                pat = e.args[0]
                an = find_calls(pat, "Arguments::new")
                args = fmt_call_args(an[0]) if an else []
                site = fmt_site_for_call(fx, body, an[0][4]) if an else None
                okf = bool(site) and fmt_template(site) == "{0}{1}{2}" and len(args) == 3
                if okf:
                    first, m, last = [a[1] for a in args]
                    okf = mentions(first, lambda s: s[0] == "field" and s[2] == 0 and is_call(strip_refs(s[1]), "str>::split_at")) and \
                        mentions(last, lambda s: s[0] == "field" and s[2] == 1 and is_call(strip_refs(s[1]), "str>::split_at")) and \
                        mentions(m, lambda s: is_index_call(s) and agg_variant(call_args(s)[1]) and const_int(agg_variant(call_args(s)[1])[2][0]) == 1)
                ok = ok and okf
            if not ok:
                # any other spelling of the same expansion: C04's normal form (prefix + one alternative of the text strictly between the right-most '{'
                # and the first '}' after it + suffix) has one '{' fewer; its rules are re-evaluated on this tree
                ok = not required_rules_failing(ctx, "C04", ["D1-BRACE-PAIR", "D2-EXPANSION", "D3-SKIP-INVALID"])
            ctx.check(ok, "TERM-RECURSION", "+".join(c), "measure:brace-count-decreases", "each recursive call drops one '{' and one '}'",
                      "the recursive call's pattern is not the original with one brace pair removed: recursion may not terminate", fn_span(body))
            # structural causes of slowness / deep recursion
            inloop = any(body.in_any_loop(e.bb) for e in rec)
            ctx.check(not inloop, "TERM-COST", "+".join(c), "fan-out-inside-recursion", "no fan-out",
                      "the recursive call sits inside the loop over a group's alternatives and recursion depth equals the number of brace pairs: the number of expansions tried is the product of the group sizes "
                      "(e.g. 25 groups of two alternatives -> 2^25 compiled patterns for a non-matching name) and depth is input-controlled (about 10^4 nested pairs exhaust the stack)", fn_span(body))
        else:
            ctx.violation("TERM-RECURSION", "+".join(c), "unregistered-cycle", "recursion cycle without a registered decreasing measure", "")
    ctx.floor("TERM-RECURSION", "crate", "recursion cycles examined", len(cyc), 1)


def tarjan(graph):
    index = {}
    low = {}
    st = []
    on = set()
    out = []
    counter = [0]

    def sc(v):
        work = [(v, iter(sorted(graph.get(v, ()))))]
        index[v] = low[v] = counter[0]
        counter[0] += 1
        st.append(v)
        on.add(v)
        while work:
            node, it = work[-1]
            adv = False
            for w in it:
                if w not in graph:
                    continue
                if w not in index:
                    index[w] = low[w] = counter[0]
                    counter[0] += 1
                    st.append(w)
                    on.add(w)
                    work.append((w, iter(sorted(graph.get(w, ())))))
                    adv = True
                    break
                elif w in on:
                    low[node] = min(low[node], index[w])
            if adv:
                continue
            work.pop()
            if work:
                low[work[-1][0]] = min(low[work[-1][0]], low[node])
            if low[node] == index[node]:
                comp = set()
                while True:
                    w = st.pop()
                    on.discard(w)
                    comp.add(w)
                    if w == node:
                        break
                out.append(comp)
    for v in sorted(graph):
        if v not in index:
            sc(v)
    return out
