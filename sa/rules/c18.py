"""C18 — PKGNAME decomposition is lossless and consistent across the library (structural clauses)."""
from lib import *
from lib import _sep

EXPLANATION = (
    "D1 every splitter (PkgName::new, Summary::pkgbase/pkgversion, Dewey::matches) searches the LAST '-' (rsplitn(2)/rsplit_once/rfind) and never a first-occurrence or unbounded split; "
    "D2 orientation: prefix -> base role, suffix -> version role; PkgName::new stores the unmodified input as pkgname and (whole, \"\") when there is no '-', and which arm is taken depends on the result of the '-' search alone (no extra condition such as a non-empty base); "
    "D3 PkgName::new finds the revision with a last-occurrence search for \"nb\" on the version part and parses the text after it as i64 (empty -> 0)"
    " D2-EMPTY-PART Summary::pkgbase / pkgversion answer None exactly when their part is empty; D4-REVISION-USED dewey_cmp compares lhs.pkgrevision with rhs.pkgrevision last (C03's CMP-3 / CMP-5 / CMP-RET, shared).")
NOT_DECIDED = [
    "equality of PkgName's revision and the tokeniser's revision for versions where text follows the final nb<digits> (outside the property's 'ending in' clause)",
    "str::rsplit_once / rfind / split_at semantics (std)",
]
CONFIG_SENSITIVE = False
DESUGAR = True

PN = "pkgname::PkgName::new"


COPY_CALLS = ("::to_string", "String as std::convert::From", "::from", "::to_owned", "Clone>::clone", "::into", "ToString", "ToOwned")


def altered_after_split(term):
    """name of a call that sits between the stored / returned value and the split that produced it and is neither a view nor a plain copy
    (trim_end_matches, to_lowercase, replace ..): the part is no longer the text that was cut out"""
    t = strip_refs(term)
    for _ in range(10):
        if isinstance(t, tuple) and t and t[0] == "deref":
            t = strip_refs(t[1])
        elif is_call(t, *(VIEW_CALLS + COPY_CALLS)) and call_args(t):
            t = strip_refs(call_args(t)[0])
        else:
            break
    if is_call(t) and not is_index_call(t) and not is_call(t, "str>::split_at", "str>::get", "str>::get_unchecked", "::unwrap_or", "::unwrap_or_default", "::map", "::map_or", "::and_then"):
        return mir.norm_path(t[1]).rsplit("::", 1)[-1]
    return None


def check_part(ctx, fn, body, inst, term, role, subject_pred, span):
    alt = altered_after_split(term)
    if alt is not None:
        ctx.violation("D2-UNALTERED", fn, inst, "%s is passed through %s() after the split: it is no longer the text cut out of the name" % (inst, alt), span)
    # normal form first: subject[start..end] with searched positions (covers rsplit_once, rfind + split_at, rfind + slicing, rsplitn(2) + index)
    ss = substr(term)
    r = substr_role(ss)
    if r[0] in ("prefix", "suffix"):
        ctx.check(r[2] == "-" and r[1] == "rfind", "D1-LASTSEP", fn, inst, "last '-' (%s)" % r[1],
                  "%s is cut at the %s occurrence of %r: PKGNAME must be split at its LAST '-'" % (inst, {"find": "first", "rfind": "last"}.get(r[1]), r[2]), span)
        ctx.check(r[0] == role, "D2-ORIENT", fn, inst, "%s = %s" % (inst, role), "%s receives the %s of the name; expected the %s" % (inst, r[0], role), span)
        ctx.check(subject_pred(ss[0]), "D2-SUBJECT", fn, inst, "split subject is the package name", "%s is split from %s, not from the package name" % (inst, term_str(ss[0])), span, nontrivial=False)
        return dict(sep=r[2], subject=ss[0], api=r[1])
    sps = find_split_parts(term)
    if not sps:
        ctx.violation("D2-ORIENT", fn, inst, "%s is not a part of a '-' split (got %s)" % (inst, term_str(term)), span)
        return None
    s0 = sps[0]
    ctx.check(s0["sep"] == "-" and occurrence(s0) == "last", "D1-LASTSEP", fn, inst, "last '-' via %s" % s0["api"],
              "%s uses %s(n=%s, sep=%r): PKGNAME must be split at its LAST '-'" % (inst, s0["api"], s0["n"], s0["sep"]), span)
    ctx.check(part_role(s0) == role, "D2-ORIENT", fn, inst, "%s = %s" % (inst, role),
              "%s receives the %s of the name (part %s of %s); expected the %s" % (inst, part_role(s0), s0["index"], s0["api"], role), span)
    ctx.check(subject_pred(s0["subject"]), "D2-SUBJECT", fn, inst, "split subject is the package name",
              "%s is split from %s, not from the package name" % (inst, term_str(s0["subject"])), span, nontrivial=False)
    return s0


def run(ctx):
    fx = ctx.fx
    # ---- PkgName::new, on paths where Option/Result combinators are evaluated as the matches they abbreviate (DESUGAR) and every
    #      split idiom is normalised to subject[start..end] (lib.substr)
    ps = ctx.paths(PN)
    if ps:
        body = ctx.body(PN)
        rets = ret_paths(ps)
        ctx.floor("D2-ORIENT", PN, "returning paths", len(rets), 2)
        isp1 = lambda t: t == ("param", 1)
        saw = {"dash": 0, "nodash": 0, "nb": 0, "nonb": 0}
        for i, p in enumerate(rets):
            a = agg_variant(p.end[1])
            if not a or a[0] != "pkgname::PkgName":
                ctx.violation("D2-ORIENT", PN, "ret-%d" % i, "does not return a PkgName aggregate", fn_span(body))
                continue
            fields = dict(zip(p.end[1][5], a[2]))
            ctx.check(content(fields.get("pkgname")) == ("param", 1), "D2-WHOLE", PN, "pkgname-field", "pkgname = the unmodified input",
                      "PkgName.pkgname is %s, not the unmodified input string" % term_str(fields.get("pkgname")), fn_span(body), nontrivial=False)
            b_, v_ = fields.get("pkgbase"), fields.get("pkgversion")
            found = search_outcome(p, isp1, "-")
            sb, sv = substr(b_), substr(v_)
            rb, rv = substr_role(sb), substr_role(sv)
            if found is None:
                ctx.violation("D2-ARM-BY-SEARCH", PN, "ret-%d" % i, "a returning path of PkgName::new is not decided by a search for '-' in the input (base=%s, version=%s)" % (term_str(b_)[:80], term_str(v_)[:80]), fn_span(body))
                continue
            if found:
                saw["dash"] += 1
                ctx.check(rb[0] == "prefix" and rb[2] == "-" and isp1(sb[0]), "D2-ORIENT", PN, "pkgbase", "pkgbase = input[..last '-']",
                          "when the name contains a '-', pkgbase is %s (%s of %s %r): expected the text before the LAST '-'" % (term_str(b_)[:100], rb[0], rb[1], rb[2]), fn_span(body))
                ctx.check(rv[0] == "suffix" and rv[2] == "-" and isp1(sv[0]), "D2-ORIENT", PN, "pkgversion", "pkgversion = input[last '-' + 1..]",
                          "when the name contains a '-', pkgversion is %s (%s of %s %r): expected the text after the LAST '-'" % (term_str(v_)[:100], rv[0], rv[1], rv[2]), fn_span(body))
                ctx.check(rb[1] == "rfind" and rv[1] == "rfind", "D1-LASTSEP", PN, "ret-%d" % i, "split at the last '-'",
                          "PkgName::new splits at the %s / %s occurrence of '-': PKGNAME must be split at its LAST '-'" % ({"find": "first", "rfind": "last"}.get(rb[1], rb[1]), {"find": "first", "rfind": "last"}.get(rv[1], rv[1])),
                          fn_span(body), nontrivial=(saw["dash"] == 1))
            else:
                saw["nodash"] += 1
                ctx.check(content(b_) == ("param", 1) and is_empty_str(v_), "D2-NODASH", PN, "no-dash-arm", "no '-' -> (whole, \"\")",
                          "without a '-' PkgName stores base=%s version=%s; expected (whole input, \"\")" % (term_str(b_)[:80], term_str(v_)[:80]), fn_span(body), nontrivial=(saw["nodash"] == 1))
            # no condition on a PART of the split decides anything about base/version (e.g. "base must be non-empty")
            onparts = [c for c in p.conds() if not (c.term[0] == "discr" and is_call(strip_refs(c.term[1]), "str>::rsplit_once", "str>::rfind", "str>::split_once", "str>::find", "str>::parse"))
                       and any(substr_role(substr(x))[2] == "-" and isp1(substr(x)[0]) for x in subterms(c.term) if substr(x))]
            ctx.check(not onparts, "D2-ARM-BY-SEARCH", PN, "ret-%d:%s" % (i, "dash" if found else "no-dash"), "arm decided by the '-' search result alone",
                      "a returning path of PkgName::new is selected by a condition on a part of the split (%s): any string containing a '-' must be split at the last one, whatever the parts look like"
                      % (term_str(onparts[0].term)[:120] if onparts else ""), fn_span(body), nontrivial=False)
            # D3 revision: decided by a last-occurrence search for "nb" in the version part
            ver_c = content(v_)
            is_ver = lambda t: t == ver_c or (substr(t) is not None and substr(t) == sv) or (not found and is_empty_str(t))
            nbf = search_outcome(p, is_ver, "nb")
            rev = fields.get("pkgrevision")
            if nbf is None:
                ctx.violation("D3-NB", PN, "search", "no search for \"nb\" in the version part decides the revision on a returning path (revision = %s)" % term_str(rev)[:100], fn_span(body))
                continue
            first_nb = [c for c in p.conds() if c.term[0] == "discr" and is_call(strip_refs(c.term[1]), "str>::split_once", "str>::find") and _sep(call_args(strip_refs(c.term[1]))[1]) == "nb"]
            ctx.check(not first_nb, "D3-NB-LAST", PN, "api", "last-occurrence search for \"nb\"", "revision is located with a first-occurrence search: the LAST \"nb\" of the version must be used",
                      fn_span(body), nontrivial=(i == 0))
            if not nbf:
                saw["nonb"] += 1
                ctx.check(is_none(rev), "D3-NB", PN, "no-nb-arm", "no nb -> None", "a version without nb reports revision %s" % term_str(rev), fn_span(body), nontrivial=(saw["nonb"] == 1))
                continue
            saw["nb"] += 1
            # Some(parse::<i64>(text after the last nb)) when it parses, Some(0) otherwise
            x = unwrap_some(rev)
            pc = [c for c in p.conds() if c.term[0] == "discr" and is_call(strip_refs(c.term[1]), "str>::parse")]
            okrev = False
            why = "revision is %s" % term_str(rev)[:120]
            if x is not None and pc:
                pr = strip_refs(pc[-1].term[1])
                arg = substr(call_args(pr)[0])
                ra = substr_role(arg)
                good_arg = "i64" in str(pr[2]) and ra[0] == "suffix" and ra[1] == "rfind" and ra[2] == "nb" and is_ver(arg[0])
                if pc[-1].fact == ("eq", 0) or (pc[-1].fact[0] == "ne" and 1 in pc[-1].fact[1]):
                    x0 = strip_refs(x)
                    okrev = good_arg and isinstance(x0, tuple) and len(x0) > 2 and x0[0] == "field" and x0[2] == 0 and isinstance(x0[1], tuple) and x0[1][:3] == ("downcast", pr, "Ok")
                    why = "when the text after nb parses, revision is %s (parse argument: %s %s %r)" % (term_str(x)[:80], ra[0], ra[1], ra[2])
                else:
                    okrev = good_arg and const_int(x) == 0
                    why = "when the text after nb does not parse, revision is %s; expected Some(0)" % term_str(rev)[:80]
            ctx.check(okrev, "D3-NB", PN, "nb-arm", "Some(parse::<i64>(text after last nb) or 0)", why + "; expected the i64 parse of the text after the last nb, defaulting to 0", fn_span(body),
                      nontrivial=(saw["nb"] <= 2))
        ctx.check(saw["dash"] and saw["nodash"], "D2-ORIENT", PN, "both-arms", "dash / no-dash arms present", "PkgName::new lacks a dash or a no-dash arm", fn_span(body), nontrivial=False)
        ctx.check(saw["nb"] >= 2 and saw["nonb"], "D3-NB", PN, "both-arms", "nb (parses / does not parse) and no-nb arms present", "PkgName::new lacks an nb or a no-nb arm", fn_span(body), nontrivial=False)

    # ---- the accessors through which the split is observed
    for fld in ("pkgname", "pkgbase", "pkgversion", "pkgrevision"):
        accessor_faithful(ctx, "D2-ACCESSOR", "pkgname::PkgName::%s" % fld, fld)

    # ---- Summary::pkgbase / pkgversion
    for fn, role in (("summary::Summary::pkgbase", "prefix"), ("summary::Summary::pkgversion", "suffix")):
        ps = ctx.paths(fn)
        if not ps:
            continue
        body = ctx.body(fn)
        somes = [p for p in ret_paths(ps) if unwrap_some(p.end[1]) is not None]
        ctx.floor("D2-ORIENT", fn, "Some-returning paths", len(somes), 1)
        for i, p in enumerate(somes):
            def is_pkgname(t):
                g = [s for s in subterms(t) if is_call(s, "summary::Summary::get_s", "summary::Summary::pkgname")]
                return bool(g)
            check_part(ctx, fn, body, fn.split("::")[-1], unwrap_some(p.end[1]), role, is_pkgname, fn_span(body))
        nones = [p for p in ret_paths(ps) if is_none(p.end[1])]
        ctx.floor("D2-ORIENT", fn, "None-returning paths", len(nones), 2)
        # D2-EMPTY-PART: once the name is set and a '-' was found, the answer is None exactly when the part is empty, and nothing else is tested
        #                (pkgbase: the '-' is at position 0; pkgversion: the '-' is the last byte)
        judged = 0
        for p in ret_paths(ps):
            found = [c for c in p.conds() if c.term[0] == "discr" and is_call(strip_refs(c.term[1]), "str>::rfind", "str>::rsplit_once", "str>::find", "str>::split_once") and c.fact == ("eq", 1)]
            if not found:
                continue
            srch = strip_refs(found[-1].term[1])
            pos = ("field", ("downcast", srch, "Some"), 0)
            subj = strip_refs(call_args(srch)[0])
            nd = [c for c in p.conds() if c.term[0] != "discr"]

            def is_pos(t, plus=0):
                t = strip_refs(t)
                if plus and isinstance(t, tuple) and t[0] == "binop" and t[1] == "Add" and const_int(t[3]) == plus:
                    t = strip_refs(t[2])
                elif plus:
                    return False
                return isinstance(t, tuple) and len(t) > 2 and t[:3] == pos

            def empty_fact(c):
                t = c.term
                if not (c.fact[0] == "eq" and isinstance(c.fact[1], bool)):
                    return None
                if isinstance(t, tuple) and t[0] == "binop" and t[1] in ("Eq", "Ne"):
                    eq = (t[1] == "Eq") == c.fact[1]
                    for a, b in ((t[2], t[3]), (t[3], t[2])):
                        if role == "prefix" and is_pos(a) and const_int(b) == 0:
                            return eq
                        if role == "suffix" and is_pos(a, 1) and is_call(strip_refs(b), "str>::len") and strip_refs(call_args(strip_refs(b))[0]) == subj:
                            return eq
                    return None
                if is_call(t, "str>::is_empty") and call_args(t):
                    ss = substr(call_args(t)[0])
                    if ss is not None and substr_role(ss)[0] == role:
                        return c.fact[1]
                return None
            facts = [empty_fact(c) for c in nd]
            judged += 1
            want_none = is_none(p.end[1])
            ok = len(facts) == 1 and facts[0] is not None and facts[0] == want_none
            ctx.check(ok, "D2-EMPTY-PART", fn, "%s-when-%s" % ("none" if want_none else "some", "empty" if want_none else "non-empty"),
                      "%s iff the %s is %s" % ("None" if want_none else "Some(part)", fn.split("::")[-1], "empty" if want_none else "not empty"),
                      "%s answers %s on a condition other than `the %s part is %s` (%s)" % (fn, "None" if want_none else "Some", fn.split("::")[-1], "empty" if want_none else "non-empty",
                                                                                       "; ".join(term_str(c.term)[:60] + "=" + str(c.fact[1]) for c in nd) or "no test at all"), fn_span(body))
        ctx.floor("D2-EMPTY-PART", fn, "paths past a found '-'", judged, 2)

    # ---- Dewey::matches
    DM = "dewey::Dewey::matches"
    ps = ctx.paths(DM)
    if ps:
        body = ctx.body(DM)
        n = 0
        for p in ps:
            for e in p.calls("dewey::DeweyVersion::new"):
                n += 1
                check_part(ctx, DM, body, "version-arg", e.args[0], "suffix", lambda t: t == ("param", 2), body.span_of(e.bb))
                break
            if n:
                break
        ctx.floor("D2-ORIENT", DM, "DeweyVersion::new call", n, 1)
        # base comparison uses the prefix
        m = 0
        for p in ps:
            for c in p.conds():
                e = eq_call(c.term)
                if e and any(mentions(x, lambda s: s[0] == "field" and s[3] == "pkgname") for x in (e[1], e[2])):
                    other = e[1] if not mentions(e[1], lambda s: s[0] == "field" and s[3] == "pkgname") else e[2]
                    m += 1
                    check_part(ctx, DM, body, "base-compare", other, "prefix", lambda t: t == ("param", 2), body.span_of(c.bb))
                    break
            if m:
                break
        ctx.floor("D2-ORIENT", DM, "base comparison", m, 1)

    # ---- D4-REVISION-USED: the PKGREVISION that PkgName reports is the one the version comparison uses: dewey_cmp compares lhs.pkgrevision with
    #      rhs.pkgrevision, last, on every path that ties (C03's CMP-3 / CMP-5 / CMP-RET verdicts, shared)
    share_rules(ctx, "C03", ("CMP-3", "CMP-5", "CMP-RET"), "D4-REVISION-USED", "dewey::dewey_cmp", 4)
    # ... and the revision the comparison works with is read the same way: the number after the LAST nb replaces any earlier one (C01's table row
    #     for the `nb` literal, shared)
    share_rules(ctx, "C01", ("D1-TOK-TABLE",), "D4-REVISION-USED", "dewey::DeweyVersion::new", 8)
