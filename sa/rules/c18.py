"""C18 — PKGNAME decomposition is lossless and consistent across the library (structural clauses)."""
from lib import *

EXPLANATION = (
    "D1 every splitter (PkgName::new, Summary::pkgbase/pkgversion, Dewey::matches) searches the LAST '-' (rsplitn(2)/rsplit_once/rfind) and never a first-occurrence or unbounded split; "
    "D2 orientation: prefix -> base role, suffix -> version role; PkgName::new stores the unmodified input as pkgname and (whole, \"\") when there is no '-', and which arm is taken depends on the result of the '-' search alone (no extra condition such as a non-empty base); "
    "D3 PkgName::new finds the revision with a last-occurrence search for \"nb\" on the version part and parses the text after it as i64 (empty -> 0)")
NOT_DECIDED = [
    "equality of PkgName's revision and the tokeniser's revision for versions where text follows the final nb<digits> (outside the property's 'ending in' clause)",
    "str::rsplit_once / rfind / split_at semantics (std)",
]
CONFIG_SENSITIVE = False

PN = "pkgname::PkgName::new"


def check_part(ctx, fn, body, inst, term, role, subject_pred, span):
    sps = find_split_parts(term)
    if not sps:
        ctx.violation("D2-ORIENT", fn, inst, "%s is not a part of a '-' split (got %s)" % (inst, term_str(term)), span)
        return None
    s0 = sps[0]
    ctx.check(s0["sep"] == "-" and occurrence(s0) == "last", "D1-LASTSEP", fn, inst, "last '-' via %s" % s0["api"],
              "%s uses %s(n=%s, sep=%r): PKGNAME must be split at its LAST '-'" % (inst, s0["api"], s0["n"], s0["sep"]), span)
    ctx.check(part_role(s0) == role, "D2-ORIENT", fn, inst, "%s = %s" % (inst, role),
              "%s receives the %s of the name (part %s of %s); expected the %s" % (inst, part_role(s0), s0["index"], s0["api"], role), span)
    ctx.check(subject_pred(s0["subject"]), "D2-SUBJECT", fn, inst, "split subject is the package name",
              "%s is split from %s, not from the package name" % (inst, term_str(s0["subject"])), span, nontrivial=False)
    return s0


def run(ctx):
    fx = ctx.fx
    # ---- PkgName::new
    ps = ctx.paths(PN)
    if ps:
        body = ctx.body(PN)
        rets = ret_paths(ps)
        ctx.floor("D2-ORIENT", PN, "returning paths", len(rets), 2)
        saw_dash = saw_nodash = saw_nb = saw_nonb = False
        for i, p in enumerate(rets):
            a = agg_variant(p.end[1])
            if not a or a[0] != "pkgname::PkgName":
                ctx.violation("D2-ORIENT", PN, "ret-%d" % i, "does not return a PkgName aggregate", fn_span(body))
                continue
            fields = dict(zip(p.end[1][5], a[2]))
            whole = fields.get("pkgname")
            ctx.check(whole is not None and is_call(whole, "::to_string", "::from", "::to_owned") and strip_refs(call_args(whole)[0]) == ("param", 1),
                      "D2-WHOLE", PN, "pkgname-field", "pkgname = the unmodified input", "PkgName.pkgname is not the unmodified input string", fn_span(body), nontrivial=False)
            isp1 = lambda t: t == ("param", 1)
            has_dash = bool(find_split_parts(fields.get("pkgbase"))) or bool(find_split_parts(fields.get("pkgversion")))
            if has_dash:
                saw_dash = True
                check_part(ctx, PN, body, "pkgbase", fields.get("pkgbase"), "prefix", isp1, fn_span(body))
                check_part(ctx, PN, body, "pkgversion", fields.get("pkgversion"), "suffix", isp1, fn_span(body))
            else:
                saw_nodash = True
                b, v = fields.get("pkgbase"), fields.get("pkgversion")
                okb = is_call(b) and strip_refs(call_args(b)[0]) == ("param", 1)
                okv = is_call(v) and const_str(call_args(v)[0]) == "" if is_call(v) and call_args(v) else is_call(v, "String::new")
                ctx.check(okb and okv, "D2-NODASH", PN, "no-dash-arm", "no '-' -> (whole, \"\")",
                          "without a '-' PkgName stores base=%s version=%s; expected (whole input, \"\")" % (term_str(b), term_str(v)), fn_span(body))
            # the arm is chosen by the search for '-' alone: found -> split there, not found -> (whole, ""); no condition looks at the parts
            dsearch = [c for c in p.conds() if c.term[0] == "discr" and is_call(c.term[1], "str>::rsplit_once", "str>::rfind", "str>::split_once", "str>::find")
                       and len(call_args(c.term[1])) > 1 and const_char(call_args(c.term[1])[1]) == "-" and strip_refs(call_args(c.term[1])[0]) == ("param", 1)]
            found = [c for c in dsearch if c.fact == ("eq", 1)]
            onparts = [c for c in p.conds() if c.term[0] != "discr" or not is_call(c.term[1], "str>::rsplit_once", "str>::rfind", "str>::split_once", "str>::find")
                       if any(sp_["sep"] == "-" and sp_.get("index") is not None for sp_ in find_split_parts(c.term))]
            bad = (found and not has_dash) or bool(onparts)
            ctx.check(not bad, "D2-ARM-BY-SEARCH", PN, "ret-%d:%s" % (i, "dash" if has_dash else "no-dash"),
                      "arm decided by the '-' search result alone",
                      "a returning path of PkgName::new %s: any string containing a '-' must be split at the last one, whatever the parts look like" % (
                          "found a '-' but stores (whole, \"\")" if found and not has_dash else "is selected by a condition on a part of the split (%s)" % term_str(onparts[0].term) if onparts else ""),
                      fn_span(body), nontrivial=False)
            # D3 revision
            rev = fields.get("pkgrevision")
            nbc = [c for c in p.conds() if c.term[0] == "discr" and is_call(c.term[1], "str>::rsplit_once", "str>::split_once", "str>::rfind", "str>::find")
                   and const_str(call_args(c.term[1])[1]) == "nb"]
            if not nbc:
                ctx.violation("D3-NB", PN, "search", "no search for \"nb\" decides the revision", fn_span(body))
                continue
            c = nbc[0]
            api = mir.norm_path(c.term[1][1]).split("::")[-1]
            subj = strip_refs(call_args(c.term[1])[0])
            ver = fields.get("pkgversion")
            ctx.check(api in ("rsplit_once", "rfind"), "D3-NB-LAST", PN, "api", "last-occurrence search for \"nb\"",
                      "revision is located with %s: the LAST \"nb\" of the version must be used" % api, fn_span(body), nontrivial=(i == 0))
            ctx.check(subj == strip_refs(ver) or mentions(ver, lambda s: s == subj), "D3-NB-SUBJECT", PN, "on-version", "searched in the version part",
                      "\"nb\" is searched in %s, not in the version part" % term_str(subj), fn_span(body), nontrivial=False)
            if c.fact == ("eq", 0):
                saw_nonb = True
                ctx.check(is_none(rev), "D3-NB", PN, "no-nb-arm", "no nb -> None", "a version without nb reports revision %s" % term_str(rev), fn_span(body))
            else:
                saw_nb = True
                pr = find_calls(rev, "str>::parse")
                okp = bool(pr) and "i64" in str(pr[0][2])
                sps = find_split_parts(call_args(pr[0])[0]) if pr else []
                oks = bool(sps) and part_role(sps[0]) == "suffix" and sps[0]["sep"] == "nb"
                zero = [s for s in subterms(rev) if s[0] == "agg" and s[1] == "adt" and s[3] == "Some" and const_int(s[4][0]) == 0] if isinstance(rev, tuple) else []
                ctx.check(okp and oks and bool(zero), "D3-NB", PN, "nb-arm", "Some(parse::<i64>(text after last nb) or 0)",
                          "revision is %s; expected the i64 parse of the text after the last nb, defaulting to 0" % term_str(rev), fn_span(body))
        ctx.check(saw_dash and saw_nodash, "D2-ORIENT", PN, "both-arms", "dash / no-dash arms present", "PkgName::new lacks a dash or a no-dash arm", fn_span(body), nontrivial=False)
        ctx.check(saw_nb and saw_nonb, "D3-NB", PN, "both-arms", "nb / no-nb arms present", "PkgName::new lacks an nb or a no-nb arm", fn_span(body), nontrivial=False)

    # ---- the accessors through which the split is observed
    for fld in ("pkgname", "pkgbase", "pkgversion", "pkgrevision"):
        accessor_faithful(ctx, "D2-ACCESSOR", "pkgname::PkgName::%s" % fld, fld)

    # ---- Summary::pkgbase / pkgversion
    for fn, role in (("summary::Summary::pkgbase", "prefix"), ("summary::Summary::pkgversion", "suffix")):
        ps = ctx.paths(fn)
        if not ps:
            continue
        body = ctx.body(fn)
        somes = [p for p in ret_paths(ps) if unwrap_some(p.end[1]) is not None]
        ctx.floor("D2-ORIENT", fn, "Some-returning paths", len(somes), 1)
        for i, p in enumerate(somes):
            def is_pkgname(t):
                g = [s for s in subterms(t) if is_call(s, "summary::Summary::get_s", "summary::Summary::pkgname")]
                return bool(g)
            check_part(ctx, fn, body, fn.split("::")[-1], unwrap_some(p.end[1]), role, is_pkgname, fn_span(body))
        nones = [p for p in ret_paths(ps) if is_none(p.end[1])]
        ctx.floor("D2-ORIENT", fn, "None-returning paths", len(nones), 2)

    # ---- Dewey::matches
    DM = "dewey::Dewey::matches"
    ps = ctx.paths(DM)
    if ps:
        body = ctx.body(DM)
        n = 0
        for p in ps:
            for e in p.calls("dewey::DeweyVersion::new"):
                n += 1
                check_part(ctx, DM, body, "version-arg", e.args[0], "suffix", lambda t: t == ("param", 2), body.span_of(e.bb))
                break
            if n:
                break
        ctx.floor("D2-ORIENT", DM, "DeweyVersion::new call", n, 1)
        # base comparison uses the prefix
        m = 0
        for p in ps:
            for c in p.conds():
                e = eq_call(c.term)
                if e and any(mentions(x, lambda s: s[0] == "field" and s[3] == "pkgname") for x in (e[1], e[2])):
                    other = e[1] if not mentions(e[1], lambda s: s[0] == "field" and s[3] == "pkgname") else e[2]
                    m += 1
                    check_part(ctx, DM, body, "base-compare", other, "prefix", lambda t: t == ("param", 2), body.span_of(c.bb))
                    break
            if m:
                break
        ctx.floor("D2-ORIENT", DM, "base comparison", m, 1)
