"""C19 — PKGPATH accepts only category/package forms; Depend splits on a single ':' (structural clauses)."""
import itertools
from lib import *
import os

EXPLANATION = (
    "D1 acceptance decision table of PkgPath::new over (component count class 2/4/other x component kinds): 5^2 + 5^4 + 1 rows, Ok iff (Normal,Normal) or (ParentDir,ParentDir,Normal,Normal); "
    "D2 constructed values: 2-component arm short = input path, full = \"../../\" + input; 4-component arm short = component 2 / component 3, full = input; FromStr delegates to new; equality/ordering/hash derived over (short, full); accessors return the stored fields; "
    "D3 Depend::new: split on \":\", parts != 2 -> Invalid, part 0 -> Pattern::new with `?`, part 1 -> PkgPath::from_str with `?`, accessors return the stored fields; component tests may be per element, quantified over a sub-slice (c[..2].iter().all(is_parent), predicate tabulated per Component variant), or made on the items of successive next() calls of the Components iterator")
NOT_DECIDED = ["Path::components normalisation (repeated / trailing slashes, interior '.'), which is what makes both spellings equal (std semantics)"]
CONFIG_SENSITIVE = False
DESUGAR = True

NEW = "pkgpath::PkgPath::new"
KINDS = ["Prefix", "RootDir", "CurDir", "ParentDir", "Normal"]
COMP = "std::path::Component"


def run(ctx):
    fx = ctx.fx
    paths = ctx.paths(NEW)
    body = ctx.body(NEW)
    if paths:
        rets = ret_paths(paths)

        def comps_vec(t):
            t = strip_refs(t)
            return is_call(t, "::collect") and is_call(strip_refs(call_args(t)[0]), "Path::components")

        def nth_next(p):
            """{next-call term: k} for the successive `it.next()` calls on an iterator local that starts as components(input): the k-th call
            yields component k (Components is a fused iterator: once exhausted it keeps answering None)"""
            seq = {}
            count = {}
            for e in p.events:
                if e.kind == "call" and is_call(e.term, "Components<'a> as std::iter::Iterator>::next") and e.args:
                    r = e.args[0]
                    if isinstance(r, tuple) and r[0] == "refmut" and isinstance(r[1], tuple) and r[1][0] == "loc":
                        l = r[1][1]
                        st = r[1][2] if len(r[1]) > 2 else None
                        first = is_call(strip_refs(st), "Path::components") if l not in count else (isinstance(st, tuple) and st and st[0] == "mutated" and st[1] == l)
                        if not first:
                            count[l] = None         # something else happened to the iterator: positions unknown from here on
                            continue
                        if count.get(l, 0) is None:
                            continue
                        seq[e.term] = count.get(l, 0)
                        count[l] = count.get(l, 0) + 1
            return seq

        def next_presence(c, seq):
            """(k, some) when the condition says whether the k-th next() call gave Some: a discriminant test, or .is_some() / .is_none() on it"""
            t = c.term
            if t[0] == "discr" and strip_refs(t[1]) in seq:
                return seq[strip_refs(t[1])], (c.fact == ("eq", 1) or (c.fact[0] == "ne" and 0 in c.fact[1]))
            if is_call(t, "Option::is_some", "Option::is_none") and call_args(t) and strip_refs(call_args(t)[0]) in seq and c.fact[0] == "eq" and isinstance(c.fact[1], bool):
                return seq[strip_refs(call_args(t)[0])], (c.fact[1] == is_call(t, "Option::is_some"))
            return None

        _KT = {}

        def kind_table(pred):
            """{kind: bool} for a predicate over one path component (a fn item or a closure): its answer for each Component variant, read off its
            returning paths (a predicate whose answer is not a constant per variant gives None)"""
            pred = strip_refs(pred)
            key = None
            if isinstance(pred, tuple) and pred and pred[0] == "const" and isinstance(pred[2], tuple) and pred[2] and pred[2][0] == "fn":
                key = pred[2][1]
                arg = ("param", 1)
            elif isinstance(pred, tuple) and pred[:2] == ("agg", "closure"):
                key = pred[2]
                arg = ("param", 2)
            if key is None or fx.fn(key) is None:
                return None
            if key in _KT:
                return _KT[key]
            tbl = {}
            for k in KINDS:
                d = mir.STD_VARIANTS[COMP][k]
                outs = set()
                for q in ret_paths(ctx.paths(key) or []):
                    ok = True
                    for c in q.conds():
                        t = c.term
                        if t[0] == "discr":
                            x = strip_refs(t[1])
                            while isinstance(x, tuple) and x and x[0] == "deref":
                                x = strip_refs(x[1])
                            if x == arg:
                                if (c.fact[0] == "eq" and c.fact[1] != d) or (c.fact[0] == "ne" and d in c.fact[1]):
                                    ok = False
                                continue
                        ok = ok and False      # a condition on anything else: not a pure predicate of the variant
                    if ok:
                        outs.add(const_of(q.end[1]) if const_of(q.end[1]) in (True, False) else None)
                tbl[k] = next(iter(outs)) if len(outs) == 1 and None not in outs else None
            _KT[key] = tbl if all(v is not None for v in tbl.values()) else None
            return _KT[key]

        def quantified(c):
            """(lo, hi, kind table, 'all'|'any') for a condition `c[lo..hi].iter().all/any(pred)` over the components vector (hi None = its length)"""
            t = strip_refs(c.term)
            if not (is_call(t, "Iterator>::all", "Iterator>::any") and len(call_args(t)) == 2):
                return None
            it = strip_refs(call_args(t)[0])
            while isinstance(it, tuple) and it and it[0] in ("loc", "refmut", "ref"):
                it = strip_refs(it[2] if it[0] == "loc" and len(it) > 2 else it[1])
            if not is_call(it, "[T]>::iter"):
                return None
            src = strip_refs(call_args(it)[0])
            lo, hi = 0, None
            if is_index_call(src) and canon_range(call_args(src)[0], call_args(src)[1]) is not None:
                r = canon_range(call_args(src)[0], call_args(src)[1])
                lo = const_int(r[0])
                hi = None if r[1] == LEN else const_int(r[1])
                if lo is None or (r[1] != LEN and hi is None):
                    return None
                src = call_args(src)[0]
            if not comps_vec(coll(src)):
                return None
            tbl = kind_table(call_args(t)[1])
            if tbl is None:
                return None
            return lo, hi, tbl, ("all" if is_call(t, "Iterator>::all") else "any")

        def row_paths(n, kinds):
            """returning paths consistent with `n components of the given kinds` (length and element tests in any of their written forms)"""
            out = []
            for p in rets:
                ok = True
                seq = nth_next(p)
                for c in p.conds():
                    t = c.term
                    lf = length_fact(c)
                    if next_presence(c, seq) is not None:
                        # it.next() (k-th call) was Some / None: more than k components / at most k
                        k, some = next_presence(c, seq)
                        if c.fact[0] == "ne" and 0 in c.fact[1] and 1 in c.fact[1]:
                            ok = False          # an Option that is neither None nor Some: the arm the compiler adds for completeness, never taken
                        if some != (n > k):
                            ok = False
                        continue
                    if t[0] == "discr" and isinstance(strip_refs(t[1]), tuple) and strip_refs(t[1])[0] == "field" and isinstance(strip_refs(t[1])[1], tuple) \
                            and strip_refs(t[1])[1][0] == "downcast" and strip_refs(t[1])[1][2] == "Some" and strip_refs(strip_refs(t[1])[1][1]) in seq:
                        i = seq[strip_refs(strip_refs(t[1])[1][1])]
                        if kinds is not None and i < len(kinds):
                            d = mir.STD_VARIANTS[COMP][kinds[i]]
                            if (c.fact[0] == "eq" and c.fact[1] != d) or (c.fact[0] == "ne" and d in c.fact[1]):
                                ok = False
                        continue
                    if lf is not None and comps_vec(lf[0]):
                        if not lf[1](n):
                            ok = False
                    elif quantified(c) is not None and kinds is not None and isinstance(c.fact[1], bool):
                        lo, hi, tbl, qk = quantified(c)
                        sel = [tbl[kinds[i]] for i in range(lo, n if hi is None else min(hi, n))]
                        val = all(sel) if qk == "all" else any(sel)
                        if (hi is not None and hi > n) or lo > n:
                            ok = False          # the sub-slice does not exist for this length: the path panics, it does not return
                        elif val != c.fact[1]:
                            ok = False
                    elif t[0] == "discr":
                        el = element_of(t[1])
                        if el is not None and comps_vec(el[0]):
                            i = el[1]
                            if i is None or kinds is None or i >= len(kinds):
                                continue
                            d = mir.STD_VARIANTS[COMP][kinds[i]]
                            if c.fact[0] == "eq" and c.fact[1] != d:
                                ok = False
                            if c.fact[0] == "ne" and d in c.fact[1]:
                                ok = False
                if ok:
                    out.append(p)
            return out

        def outcome(p):
            if unwrap_ok(p.end[1]) is not None:
                return "Ok"
            a = agg_variant(unwrap_err(p.end[1])) if unwrap_err(p.end[1]) is not None else None
            return "Err(%s)" % (a[1] if a else "?")
        rows = [(2, k) for k in itertools.product(KINDS, repeat=2)] + [(4, k) for k in itertools.product(KINDS, repeat=4)] + [(3, None), (0, None), (1, None), (5, None), (6, None)]
        bad = []
        for n, kinds in rows:
            ps = row_paths(n, kinds)
            outs = {outcome(p) for p in ps}
            want = "Ok" if kinds in (("Normal", "Normal"), ("ParentDir", "ParentDir", "Normal", "Normal")) else "Err(InvalidPath)"
            if outs != {want}:
                bad.append((n, kinds, sorted(outs), want))
                if os.environ.get("VERIF_DEBUG"):
                    for p in ps:
                        if outcome(p) != want:
                            sq = nth_next(p)
                            print("DEBUG row", n, kinds, outcome(p), [(sq.get(strip_refs(c.term[1])) if c.term[0] == "discr" else None, (sq.get(strip_refs(strip_refs(c.term[1])[1][1])) if c.term[0] == "discr" and isinstance(strip_refs(c.term[1]), tuple) and strip_refs(c.term[1])[0] == "field" and isinstance(strip_refs(c.term[1])[1], tuple) and len(strip_refs(c.term[1])[1]) > 2 else None), c.fact) for c in p.conds()])
        ctx.check(not bad, "D1-ACCEPT", NEW, "decision-table", "%d rows agree with the spec" % len(rows),
                  "%d row(s) differ, e.g. %d components %s -> %s, expected %s" % (len(bad), bad[0][0] if bad else 0, bad[0][1] if bad else "", bad[0][2] if bad else "", bad[0][3] if bad else ""), fn_span(body))
        ctx.floor("D1-ACCEPT", NEW, "rows", len(rows), 651)
        ctx.note("acceptance rows evaluated: %d" % len(rows))
        # components come from the input string
        cc = [e for p in rets for e in p.calls("Path::components")]
        ctx.check(bool(cc) and all(mentions(e.args[0], lambda s: s == ("param", 1)) for e in cc), "D1-SUBJECT", NEW, "components-of-input",
                  "components of the input path", "the components examined are not those of the input string", fn_span(body), nontrivial=False)

        # ---- D2
        for p in rets:
            v = unwrap_ok(p.end[1])
            if v is None:
                continue
            a = agg_variant(v)
            flds = dict(zip(v[5], a[2]))
            n = None
            lfs = [lf for lf in (length_fact(c) for c in p.conds()) if lf is not None and comps_vec(lf[0])]
            cand = [k for k in range(0, 8) if all(lf[1](k) for lf in lfs)] if lfs else []
            seq = nth_next(p)
            if not lfs and seq:
                # the length as established by successive next() calls: Some for every position below n, None at n
                def consistent(k):
                    for c in p.conds():
                        np_ = next_presence(c, seq)
                        if np_ is not None and np_[1] != (k > np_[0]):
                            return False
                    return True
                cand = [k for k in range(0, 8) if consistent(k)]
            if len(cand) == 1:
                n = cand[0]
            ctx.check(n in (2, 4), "D2-VALUES", NEW, "ok-path-length", "an accepted path fixes the number of components to 2 or 4",
                      "a path returning Ok does not fix the number of components to 2 or 4 (consistent lengths: %s)" % cand[:6], fn_span(body), nontrivial=False)
            pushes = [e for e in p.events if ev_is(e, "PathBuf::push")]
            inp = lambda t: is_call(t, "PathBuf as std::convert::From", "::from", "PathBuf::from") and strip_refs(call_args(t)[0]) == ("param", 1)

            def concat(t):
                """(base, tail) when t is a path built as base followed by tail: `let mut f = PathBuf::from(base); f.push(tail)` or `Path::new(base).join(tail)`"""
                t0 = strip_refs(t)
                if is_call(t0, "Path::join", "PathBuf::join") and len(call_args(t0)) == 2:
                    b0 = call_args(t0)[0]
                    while isinstance(b0, tuple) and b0 and b0[0] in ("ref", "deref"):
                        b0 = b0[1]
                    if is_call(b0, "Path::new", "::from", "PathBuf::from") and call_args(b0):
                        b0 = call_args(b0)[0]
                    return b0, call_args(t0)[1]
                if isinstance(t0, tuple) and t0 and t0[0] == "mutated":
                    mine = [e for e in pushes if isinstance(e.args[0], tuple) and e.args[0][0] == "refmut" and isinstance(e.args[0][1], tuple) and e.args[0][1][:2] == ("loc", t0[1])]
                    if len(mine) == 1 and len(pushes) == 1:
                        base = mine[0].args[0][1][2]
                        if is_call(base, "::from", "PathBuf::from", "Path::new") and call_args(base):
                            return call_args(base)[0], mine[0].args[1]
                return None

            def comp_i(t, i):
                """the text of component i: c[i].as_os_str(), or the name bound by a Normal(name) pattern on element i"""
                cs = find_calls(t, "Component::as_os_str")
                if len(cs) == 1:
                    el = element_of(call_args(cs[0])[0])
                    return el is not None and comps_vec(el[0]) and el[1] == i
                nm = [x for x in subterms(t) if x[0] == "field" and x[2] == 0 and isinstance(x[1], tuple) and x[1][0] == "downcast" and x[1][2] == "Normal"]
                if len(nm) == 1:
                    el = element_of(nm[0][1][1])
                    if el is not None and comps_vec(el[0]) and el[1] == i:
                        return True
                    # ... or on the item of the i-th next() call
                    x = strip_refs(nm[0][1][1])
                    if isinstance(x, tuple) and x[0] == "field" and isinstance(x[1], tuple) and x[1][0] == "downcast" and x[1][2] == "Some" and seq.get(strip_refs(x[1][1])) == i:
                        return True
                return False
            if n == 2:
                cc = concat(flds.get("full"))
                ok = inp(flds.get("short")) and cc is not None and const_str(cc[0]) == "../../" and mentions(cc[1], lambda s: inp(s))
                ctx.check(ok, "D2-VALUES", NEW, "category/package", "short = input, full = \"../../\" + input",
                          "for category/package the stored paths are short=%s full=%s" % (term_str(flds.get("short")), term_str(flds.get("full"))), fn_span(body))
            elif n == 4:
                cc = concat(flds.get("short"))
                ok = inp(flds.get("full")) and cc is not None and comp_i(cc[0], 2) and comp_i(cc[1], 3)
                if not ok and os.environ.get("VERIF_DEBUG"):
                    print("DEBUG", inp(flds.get("full")), cc is not None, cc and comp_i(cc[0], 2), cc and comp_i(cc[1], 3), term_str(cc[0])[:200] if cc else None)
                ctx.check(ok, "D2-VALUES", NEW, "../../category/package", "short = component 2 / component 3, full = input",
                          "for ../../category/package the stored paths are short=%s full=%s" % (term_str(flds.get("short")), term_str(flds.get("full"))), fn_span(body))
    for tr in ("std::cmp::PartialEq", "std::cmp::Eq", "std::hash::Hash", "std::cmp::Ord", "std::cmp::PartialOrd"):
        imp = [i for i in fx.impls if i["self_ty"] == "pkgpath::PkgPath" and i["trait"].startswith(tr)]
        ctx.check(len(imp) == 1 and imp[0]["auto_derived"], "D2-DERIVED", "pkgpath::PkgPath", tr, "derived over (short, full)",
                  "%s for PkgPath is hand-written: equal spellings may no longer give equal values" % tr, nontrivial=False)
    pp = fx.adts.get("pkgpath::PkgPath")
    ctx.check(pp is not None and [f["name"] for f in pp["variants"][0]["fields"]] == ["short", "full"], "D2-DERIVED", "pkgpath::PkgPath", "fields", "fields (short, full)", "PkgPath fields changed", nontrivial=False)
    for fn, fld in (("pkgpath::PkgPath::as_path", "short"), ("pkgpath::PkgPath::as_full_path", "full"), ("depend::Depend::pattern", "pattern"), ("depend::Depend::pkgpath", "pkgpath")):
        accessor_faithful(ctx, "D2-ACCESSOR", fn, fld)
    FS = "<pkgpath::PkgPath as std::str::FromStr>::from_str"
    ps = ret_paths(ctx.paths(FS) or [])
    ok = bool(ps) and all(is_call(p.end[1], NEW) and strip_refs(call_args(p.end[1])[0]) == ("param", 1) for p in ps)
    ctx.check(ok, "D2-FROMSTR", FS, "delegates", "from_str(s) = new(s)", "FromStr for PkgPath does not delegate to PkgPath::new(s)")

    # ---- D3 Depend::new
    DN = "depend::Depend::new"
    ps = ctx.paths(DN)
    if ps:
        body = ctx.body(DN)
        rets = ret_paths(ps)
        oks = [p for p in rets if unwrap_ok(p.end[1]) is not None]
        ctx.floor("D3-DEPEND", DN, "Ok paths", len(oks), 1)
        isp1 = lambda t: t == ("param", 1)
        for p in oks:
            v = unwrap_ok(p.end[1])
            a = agg_variant(v)
            flds = dict(zip(v[5], a[2]))
            pat = find_calls(flds.get("pattern"), "pattern::Pattern::new")
            pth = find_calls(flds.get("pkgpath"), FS, NEW)
            st, is0, is1 = two_part_split(p, isp1, ":")
            ok = bool(pat) and bool(pth) and st == "two"
            if ok:
                ok = is0(call_args(pat[0])[0]) and is1(call_args(pth[0])[0]) and has_try(flds["pattern"]) and has_try(flds["pkgpath"])
            ctx.check(ok, "D3-DEPEND", DN, "ok-path", "exactly two ':'-separated parts: Pattern::new(part0)?, PkgPath::from_str(part1)?",
                      "Depend::new does not build (Pattern::new(part 0)?, PkgPath(part 1)?) from a split of its input at ':' into exactly two parts (split status on the Ok path: %s)" % st, fn_span(body))
        inv = [p for p in rets if unwrap_err(p.end[1]) is not None and agg_variant(unwrap_err(p.end[1])) and agg_variant(unwrap_err(p.end[1]))[1] == "Invalid" and not is_propagated_err(p.end[1])]
        ok = bool(inv) and all(two_part_split(p, isp1, ":")[0] == "not-two" for p in inv)
        ctx.check(ok, "D3-DEPEND", DN, "invalid-path", "parts != 2 -> Err(Invalid)", "Err(Invalid) is not returned exactly when the ':' split does not give two parts", fn_span(body))
        errprop(ctx, DN, ps, body, rule="D3-ERRPROP", no_effects_after_error=(), floor=2)

    DFS = "<depend::Depend as std::str::FromStr>::from_str"
    ps = ret_paths(ctx.paths(DFS) or [])
    if ctx.fx.fn(DFS) is not None:
        ok = bool(ps) and all(is_call(p.end[1], DN) and strip_refs(call_args(p.end[1])[0]) == ("param", 1) for p in ps)
        ctx.check(ok, "D3-FROMSTR", DFS, "delegates", "from_str(s) = Depend::new(s)", "FromStr for Depend does not delegate to Depend::new(s)")
